"""Positive / negative controls for the Layer-1 rules (C06).  Synthetic code, never executed."""
import numpy as np
from scipy import linalg


class TT(object):
    def __init__(self, x):
        self.order = len(x)
        self.row_dims = [x[i].shape[1] for i in range(self.order)]
        self.col_dims = [x[i].shape[2] for i in range(self.order)]
        self.ranks = [x[i].shape[0] for i in range(self.order)] + [x[-1].shape[3]]
        self.cores = x

    def copy(self):
        cores = [self.cores[i].copy() for i in range(self.order)]
        return TT(cores)

    def ortho_left(self):
        # R-b: the reshaped view of a core this object did not allocate is handed to LAPACK for destruction
        for i in range(self.order - 1):
            [u, s, v] = linalg.svd(self.cores[i].reshape(self.ranks[i] * self.row_dims[i] * self.col_dims[i], self.ranks[i + 1]),
                                   full_matrices=False, overwrite_a=True)
            self.ranks[i + 1] = u.shape[1]
            self.cores[i] = u.reshape(self.ranks[i], self.row_dims[i], self.col_dims[i], self.ranks[i + 1])
            self.cores[i + 1] = np.tensordot(np.diag(s).dot(v), self.cores[i + 1], axes=(1, 0))
        return self

    def bad_scale(self, scalar):
        # R-a: documented to return a new object but stores into its own core list
        self.cores[0] = scalar * self.cores[0]
        return self

    def head(self, k):
        # sharing site: the result holds the same ndarrays as self
        return TT(self.cores[:k])


def __sweep(solution):
    for i in range(solution.order):
        solution.cores[i] = 2 * solution.cores[i]


def bad_solver(operator: 'TT', initial_guess: 'TT') -> 'TT':
    # R-a through a private helper: the guess is swept in place
    solution = initial_guess
    __sweep(solution)
    return solution


def good_solver(operator: 'TT', initial_guess: 'TT') -> 'TT':
    solution = initial_guess.copy()
    __sweep(solution)
    return solution


def bad_shared(t: 'TT') -> 'TT':
    # R-b through a result that shares buffers with the argument
    h = t.head(2)
    h.ortho_left()
    return h


def bad_wrap(t: 'TT') -> 'TT':
    # R-c: two objects around one list
    return TT(t.cores)


def bad_results(psi: 'TT', mats):
    out = []
    for i in range(len(mats)):
        tmp = psi
        tmp.cores[-1] = mats[i]
        out.append(tmp)
    return out


def good_results(psi: 'TT', mats):
    out = []
    for i in range(len(mats)):
        tmp = psi.copy()
        tmp.cores[-1] = mats[i]
        out.append(tmp)
    return out


_CACHE = {}
_LIMITS = (1, 2, 3)


def bad_cached_eye(dims):
    # R-f: memoised result: every call with equal dims returns one and the same object
    key = tuple(dims)
    if key not in _CACHE:
        _CACHE[key] = TT([np.eye(n).reshape(1, n, n, 1) for n in dims])
    return _CACHE[key]


def good_reads_module_constant(dims):
    # negative control: reading a module-level constant, and a local with the same role, is not state
    cache = {}
    cache[tuple(dims)] = _LIMITS[0]
    return TT([np.eye(n).reshape(1, n, n, 1) for n in dims])


def bad_collect(x, results=[]):
    # R-f: a mutable default that is filled and handed out: the second call returns the results of the first one as well
    results.append(x.copy())
    return results


def _good_collect_helper(x, results=[]):
    # negative control: a private helper whose only call site passes the list never uses its default
    results.append(x.copy())
    return results


def good_collect(x):
    return _good_collect_helper(x, [])


def bad_swapped_dims(x):
    # R-c (metadata): the result is handed the operand's own row_dims / col_dims list objects
    y = x.copy()
    y.row_dims, y.col_dims = x.col_dims, x.row_dims
    return y


def good_swapped_dims_in_place(x):
    # negative control: an in-place swap of an object's own lists shares nothing with another object
    x.row_dims, x.col_dims = x.col_dims, x.row_dims
    return x
