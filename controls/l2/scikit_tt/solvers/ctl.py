"""Positive / negative controls for the Layer-2 leg-typing and slot-typestate rules.  Synthetic code, never executed."""
import numpy as np
from scikit_tt.tensor_train import TT


def __left(i, stack, operator, solution, conj_bra=True, swap=False):
    if i == 0:
        stack[i] = np.array([1], ndmin=3)
    else:
        bra = np.conj(solution.cores[i - 1][:, :, 0, :]) if conj_bra else solution.cores[i - 1][:, :, 0, :]
        stack[i] = np.tensordot(stack[i - 1], solution.cores[i - 1][:, :, 0, :], axes=(0, 0))
        if swap:
            # ket index meets the operator ROW index
            stack[i] = np.tensordot(stack[i], operator.cores[i - 1], axes=([0, 2], [0, 1]))
        else:
            stack[i] = np.tensordot(stack[i], operator.cores[i - 1], axes=([0, 2], [0, 2]))
        stack[i] = np.tensordot(stack[i], bra, axes=([0, 2], [0, 1]))


def env_good(operator: 'TT', solution: 'TT'):
    stack = [None] * operator.order
    for i in range(operator.order):
        __left(i, stack, operator, solution)
    return stack


def env_missing_conj(operator: 'TT', solution: 'TT'):
    stack = [None] * operator.order
    for i in range(operator.order):
        __left(i, stack, operator, solution, conj_bra=False)
    return stack


def env_wrong_axis(operator: 'TT', solution: 'TT'):
    stack = [None] * operator.order
    for i in range(operator.order):
        __left(i, stack, operator, solution, swap=True)
    return stack


def stale_env(operator: 'TT', solution: 'TT'):
    sol = solution.copy()
    stack = [None] * operator.order
    for i in range(operator.order):
        __left(i, stack, operator, sol)
    # core 0 is replaced, but the environments built from it are used afterwards
    sol.cores[0] = 2 * sol.cores[0]
    return np.tensordot(stack[2], operator.cores[2], axes=(1, 0))


def unset_env(operator: 'TT', solution: 'TT'):
    stack = [None] * operator.order
    for i in range(operator.order - 1):
        __left(i, stack, operator, solution)
    return np.tensordot(stack[operator.order - 1], operator.cores[operator.order - 1], axes=(1, 0))


def blocks_overwrite(a: 'TT', b: 'TT'):
    core = np.zeros([1, a.row_dims[0], a.col_dims[0], 1])
    core[0:a.ranks[0], :, :, 0:a.ranks[1]] = a.cores[0]
    core[0:b.ranks[0], :, :, 0:b.ranks[1]] = b.cores[0]
    return core


def blocks_additive(a: 'TT', b: 'TT'):
    core = np.zeros([1, a.row_dims[0], a.col_dims[0], 1], dtype=complex)
    core[0:a.ranks[0], :, :, 0:a.ranks[1]] = a.cores[0]
    core[0:b.ranks[0], :, :, 0:b.ranks[1]] += b.cores[0]
    return core


def complex_into_real(a: 'TT', b: 'TT'):
    core = np.zeros([1, a.row_dims[0], a.col_dims[0], 1])
    core[0:a.ranks[0], :, :, 0:a.ranks[1]] = a.cores[0]
    return core


def inner_solve(operator, initial_guess, right_hand_side):
    # stands for solvers.sle.als (intercepted by the analysis: the exact solution of operator y = right_hand_side)
    raise NotImplementedError


def power_stale_denominator(operator: 'TT', initial_guess: 'TT', operator_gevp: 'TT'=None, repeats: int=10, sigma: float=0.999):
    # the right-hand side B x_old is re-used in the denominator of the Rayleigh quotient of x_new
    shift = operator - sigma * operator_gevp
    x = initial_guess
    value = 0
    for i in range(repeats):
        rhs = operator_gevp.dot(x)
        x = inner_solve(shift, x, rhs)
        x = (1 / x.norm()) * x
        value = x.transpose(conjugate=True).dot(operator).dot(x) / x.transpose(conjugate=True).dot(rhs)
    return value, x


def power_good(operator: 'TT', initial_guess: 'TT', operator_gevp: 'TT'=None, repeats: int=10, sigma: float=0.999):
    # the same iteration as the library's, written differently: unnormalised quotient, operator applied first
    shift = operator + (-sigma) * operator_gevp
    x = initial_guess
    value = 0
    for i in range(repeats):
        y = inner_solve(shift, x, operator_gevp.dot(x))
        ay, by = operator.dot(y), operator_gevp.dot(y)
        value = y.transpose(conjugate=True).dot(ay) / y.transpose(conjugate=True).dot(by)
        x = y * (1 / y.norm())
    return value, x
