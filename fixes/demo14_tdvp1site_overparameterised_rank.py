import numpy as np, scikit_tt.tensor_train as tt, scikit_tt.solvers.ode as ode, scipy.linalg as sl, warnings
warnings.filterwarnings('ignore')
np.random.seed(0)
dims=[4,2]
H=tt.rand(dims,dims,ranks=2); H=H+H.transpose(conjugate=True)
# bond rank 4 although the right unfolding has only 2 columns (over-parameterised rank); value-wise a perfectly valid state
x=tt.rand(dims,[1,1],ranks=[1,4,1]); x=(1/x.norm())*x
sol=ode.tdvp1site(H,x,0.01,2)
assert len(sol)==3 and all(c.ndim==4 for c in sol[-1].cores)
print("ranks", sol[-1].ranks)
