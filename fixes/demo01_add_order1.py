import numpy as np, scikit_tt.tensor_train as tt
np.random.seed(0)
a=tt.rand([3],[2]); b=tt.rand([3],[2])
err=np.abs((a+b).full()-(a.full()+b.full())).max()
print("order-1 sum error", err); assert err<1e-12
a=tt.rand([3,2],[2,1],ranks=[1,2,1]); b=tt.rand([3,2],[2,1],ranks=[1,3,1])
assert np.abs((a+b).full()-(a.full()+b.full())).max()<1e-12
