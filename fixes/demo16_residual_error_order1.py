import numpy as np, scikit_tt.tensor_train as tt, warnings
warnings.filterwarnings('ignore')
np.random.seed(0)
A=tt.rand([3],[3]); x=tt.rand([3],[1]); b=tt.rand([3],[1])
r=tt.residual_error(A,x,b)
want=np.linalg.norm(A.matricize()@x.matricize()-b.matricize())
print(r,want); assert abs(r-want)<1e-12
A=tt.rand([3,2],[3,2],ranks=2); x=tt.rand([3,2],[1,1],ranks=2); b=tt.rand([3,2],[1,1],ranks=3)
assert abs(tt.residual_error(A,x,b)-np.linalg.norm(A.matricize()@x.matricize()-b.matricize()))<1e-12
