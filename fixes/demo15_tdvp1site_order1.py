import numpy as np, scikit_tt.solvers.ode as ode, scipy.linalg as sl, warnings
from scikit_tt.tensor_train import TT
warnings.filterwarnings('ignore')
np.random.seed(0)
n=4
Hm=np.random.rand(n,n)+1j*np.random.rand(n,n); Hm=Hm+Hm.conj().T
H=TT([Hm.reshape(1,n,n,1)])
x=np.random.rand(n)+1j*np.random.rand(n); x/=np.linalg.norm(x)
X=TT([x.reshape(1,n,1,1)])
h=0.1
sol=ode.tdvp1site(H,X,h,2)
e=np.linalg.norm(sol[-1].matricize()-sl.expm(-2j*h*Hm)@x); print("order-1 tdvp1site error", e); assert e<1e-12
