import numpy as np, scikit_tt.tensor_train as tt
np.random.seed(0)
t=tt.rand([1,1,3,1,2],[1,1,1,1,1],ranks=[1,2,2,3,2,1]); f0=t.full().copy(); shapes=[c.shape for c in t.cores]
s=t.squeeze()
assert [c.shape for c in t.cores]==shapes, "squeeze changed the cores of self: %s"%[c.shape for c in t.cores]
assert np.abs(t.full()-f0).max()<1e-12
assert np.abs(s.full().squeeze()-f0.squeeze()).max()<1e-12
print("ok")
