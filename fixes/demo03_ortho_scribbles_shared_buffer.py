import numpy as np, scikit_tt.tensor_train as tt
from scikit_tt.tensor_train import TT
np.random.seed(0)
# tensordot result shares core buffers with its operands; in-place orthonormalisation of the result
# must not change the operands (rank-1 bonds: LAPACK works in place on the reshaped view)
t=tt.rand([2,3,2],[1,1,1],ranks=[1,1,2,1]); u=tt.rand([2,2],[1,1],ranks=[1,2,1]); f0=t.full().copy(); g0=u.full().copy()
r=t.tensordot(u,1); r.ortho_left(); r.ortho_right()
e=max(np.abs(t.full()-f0).max(), np.abs(u.full()-g0).max()); print("tensordot operands changed by", e); assert e<1e-12
t=tt.rand([2,2,2],[1,1,1],ranks=[1,1,1,1]); f0=t.full().copy()
d=t.diag([0]); d.ortho_left(); d.ortho_right(); e=np.abs(t.full()-f0).max(); print("diag operand changed by", e); assert e<1e-12
t=tt.rand([2,3],[1,1],ranks=[1,1,1]); u=tt.rand([2,2],[1,1],ranks=[1,1,1]); g0=u.full().copy()
r=t.concatenate(u); r.ortho_left(); r.ortho_right(); e=np.abs(u.full()-g0).max(); print("concatenate operand changed by", e); assert e<1e-12
# svd(overwrite=True) on a tensordot result
t=tt.rand([2,3,2],[1,1,1],ranks=[1,1,1,1]); u=tt.rand([2,2],[1,1],ranks=[1,1,1]); g0=u.full().copy(); f0=t.full().copy()
r=t.tensordot(u,1); r.svd(1, ortho_l=False, ortho_r=False, overwrite=True); e=max(np.abs(t.full()-f0).max(), np.abs(u.full()-g0).max()); print("svd(overwrite=True) changed other objects by", e); assert e<1e-12
