import numpy as np, itertools, warnings
warnings.filterwarnings('ignore')
import scikit_tt.slim as slim
def dense_gen(state_space, scr, tcr, cyclic):
    d=len(state_space); N=int(np.prod(state_space)); G=np.zeros((N,N))
    states=list(itertools.product(*[range(n) for n in state_space])); idx={s:k for k,s in enumerate(states)}
    for s in states:
        for i in range(d):
            for (a,b,r) in scr[i]:
                if s[i]==a:
                    t=list(s); t[i]=b; G[idx[tuple(t)],idx[s]]+=r; G[idx[s],idx[s]]-=r
        for i in range(d if cyclic else d-1):
            j=(i+1)%d
            for (a,b,c,e,r) in tcr[i]:
                if s[i]==a and s[j]==c:
                    t=list(s); t[i]=b; t[j]=e; G[idx[tuple(t)],idx[s]]+=r; G[idx[s],idx[s]]-=r
    return G
ss=[2,2,2,2]
scr=[[[0,1,1.0]] for _ in ss]
tcr=[ [[0,1,0,1,1.0]], [[0,1,0,1,2.0],[1,0,1,0,3.0],[0,1,1,0,0.5]], [[1,0,0,1,1.5]], [[0,1,1,0,0.7],[1,0,0,1,0.2]] ]
for perm in ([0,1,2,3],[1,0,2,3]):
    t=[tcr[k] for k in perm[:3]]+[tcr[3]]
    op=slim.slim_mme(ss,scr,t,threshold=1e-12); G=dense_gen(ss,scr,t,True)
    e=np.abs(op.matricize()-G).max(); print("cyclic chain with bond ranks",op.ranks,"error",e); assert e<1e-10
