"""C15: HOCUR must reproduce the transformed data tensor whenever the requested ranks are at least its true ranks, for any list of basis functions.

A basis function is a `Function` from R^d to R (transform.Function).  `__hocur_extract_matrix` evaluated the functions of the LAST submatrix on the whole
d x m data matrix at once, which equals the snapshot-wise evaluation only for functions that happen to be written column-wise.  For a function defined at
a point, e.g. t -> sum(t**2), the call reduces over all snapshots, the extracted rows are constant, and hocur raises LinAlgError (singular submatrix) or
returns a wrong tensor, while basis_decomposition (snapshot-wise) is exact.

exit 0: hocur(x, basis, ranks >= true ranks) equals the definition;  exit 1: it raises or differs.
"""
import sys
import warnings

import numpy as np

warnings.filterwarnings('ignore')
import scikit_tt.data_driven.transform as tdt


class Radial(tdt.Function):
    """f(t) = sum_i t_i^2, written for one point t in R^d as the Function contract describes"""

    def __call__(self, t):
        return np.sum(np.asarray(t) ** 2)


class Coord(tdt.Function):
    def __init__(self, i):
        super().__init__()
        self.i = i

    def __call__(self, t):
        return t[self.i]


rng = np.random.default_rng(0)
x = rng.random((2, 6))
basis = [[tdt.ConstantFunction(0), Coord(0)], [tdt.ConstantFunction(0), Radial()]]
ref = np.array([[[basis[0][a](x[:, j]) * basis[1][b](x[:, j]) for j in range(6)] for b in range(2)] for a in range(2)])
full = tdt.basis_decomposition(x, basis).full().reshape(2, 2, 6)
print('basis_decomposition vs definition:', np.abs(full - ref).max())
print('true ranks of the unfoldings:', np.linalg.matrix_rank(ref.reshape(2, 12)), np.linalg.matrix_rank(ref.reshape(4, 6)))
try:
    h = tdt.hocur(x, basis, ranks=[1, 2, 4, 1], repeats=3, multiplier=10, progress=False)
except Exception as e:          # noqa
    print('hocur raised', type(e).__name__, e)
    sys.exit(1)
err = np.abs(h.full().reshape(2, 2, 6) - ref).max()
print('hocur (ranks [1, 2, 4, 1]) vs definition:', err)
sys.exit(0 if err < 1e-10 else 1)
