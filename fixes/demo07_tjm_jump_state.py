import numpy as np, scikit_tt.tensor_train as tt, scikit_tt.solvers.ode as ode
from scikit_tt.tensor_train import TT
np.random.seed(4)
L=3
sx=np.array([[0,1],[1,0]],dtype=complex); sz=np.array([[1,0],[0,-1]],dtype=complex); I=np.eye(2,dtype=complex)
cores=[np.zeros([1,2,2,2],dtype=complex)]+[np.zeros([2,2,2,2],dtype=complex) for _ in range(L-2)]+[np.zeros([2,2,2,1],dtype=complex)]
cores[0][0,:,:,0]=sz; cores[0][0,:,:,1]=I
for i in range(1,L-1): cores[i][0,:,:,0]=I; cores[i][1,:,:,0]=sz; cores[i][1,:,:,1]=I
cores[-1][0,:,:,0]=I; cores[-1][1,:,:,0]=sz
H=TT(cores)
# over-parameterised state: ranks larger than the orthonormalised ones
state=tt.rand([2]*L,[1]*L,ranks=[1,3,3,1]); state=(1/state.norm())*state
r0=list(state.ranks); f0=state.full().copy()
out=ode.tjm_jump_process_tdvp(H,state,[sx],[0.1],0.01)
print("state ranks", r0, "->", state.ranks, "value change", np.abs(state.full()-f0).max())
assert state.ranks==r0 and np.abs(state.full()-f0).max()<1e-12
