import numpy as np, scikit_tt.tensor_train as tt, scikit_tt.solvers.ode as ode
np.random.seed(2)
H=tt.rand([2,2,2],[2,2,2],ranks=2); x0=tt.rand([2,2,2],[1]*3,ranks=2); pv=tt.rand([2,2,2],[1]*3,ranks=[1,2,2,1])
pv_full=pv.full().copy(); r0=list(pv.ranks)
sol=ode.hod(H,x0,0.01,2,previous_value=pv,normalize=0,progress=False,max_rank=1)
e=np.abs(pv.full()-pv_full).max(); print("previous_value changed by", e, "ranks", r0, "->", pv.ranks); assert e<1e-12 and pv.ranks==r0
