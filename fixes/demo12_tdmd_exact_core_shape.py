import numpy as np, scikit_tt.tensor_train as tt, warnings
warnings.filterwarnings('ignore')
import scikit_tt.data_driven.tdmd as tdmd
np.random.seed(0)
x=tt.rand([3,4,6],[1,1,1],ranks=[1,2,3,1]); y=tt.rand([3,4,6],[1,1,1],ranks=[1,2,3,1])
ev,modes=tdmd.tdmd_exact(x,y)
print([c.shape for c in modes.cores], modes.row_dims, modes.ranks)
assert all(c.ndim==4 for c in modes.cores)
assert modes.full().shape[:3]==(3,4,len(ev))
