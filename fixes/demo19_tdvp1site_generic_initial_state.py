"""C11: the one-site TDVP integrator reproduces exp(-i t H) x0 up to rounding whenever the TT ranks of the state are maximal, for initial states of any kind.

tdvp1site built its first environments from the cores of the initial state as given.  The projected evolution exp(-i t P^H H P) is the projection of the
global one only if the frame P is an isometry, i.e. if the cores right of the evolved site are right-orthonormal; for a generic (not orthonormalised) initial
state of maximal rank the result was off by several per cent, while the same state after x0.ortho_right() (the same tensor) is propagated exactly.

exit 0: relative error < 1e-10 for the generic state;  exit 1 otherwise.
"""
import sys
import warnings

import numpy as np
import scipy.linalg as sl

warnings.filterwarnings('ignore')
from scikit_tt.tensor_train import TT
import scikit_tt.solvers.ode as ode

rng = np.random.default_rng(1)
worst = 0.0
for dims, ranks in (([2, 2, 2], [1, 2, 2, 1]), ([2, 2, 2, 2], [1, 2, 4, 2, 1]), ([3, 2], [1, 2, 1])):
    d = len(dims)
    cores = [rng.standard_normal((1 if k == 0 else 3, dims[k], dims[k], 1 if k == d - 1 else 3)) for k in range(d)]
    A = TT(cores)
    H = A + A.transpose()                      # real symmetric TT operator
    Hd = H.matricize()
    x = TT([rng.standard_normal((ranks[k], dims[k], 1, ranks[k + 1])) + 1j * rng.standard_normal((ranks[k], dims[k], 1, ranks[k + 1])) for k in range(d)])
    h, n = 0.05, 3
    ref = sl.expm(-1j * h * n * Hd) @ x.matricize()
    for gauge in ('generic', 'right-orthonormal'):
        x0 = x.copy() if gauge == 'generic' else x.copy().ortho_right()
        before = x0.matricize().copy()
        sol = ode.tdvp1site(H, x0, h, n)
        err = np.linalg.norm(sol[-1].matricize() - ref) / np.linalg.norm(ref)
        assert np.array_equal(x0.matricize(), before), 'initial state modified'
        print(dims, ranks, gauge, 'relative error', err)
        worst = max(worst, err)
sys.exit(0 if worst < 1e-10 else 1)
