import numpy as np, scikit_tt.tensor_train as tt, warnings
warnings.filterwarnings('ignore')
import scikit_tt.solvers.ode as ode, scipy.linalg as sl
np.random.seed(1)
def crand(rd,cd,ranks):
    g=tt.rand(rd,cd,ranks=ranks)
    for i in range(g.order): g.cores[i]=g.cores[i]+1j*np.random.rand(*g.cores[i].shape)
    return g
dims=[2,3,2]
H=crand(dims,dims,2); H=H+H.transpose(conjugate=True); Hm=H.matricize()
x0=crand(dims,[1]*3,[1,2,2,1]); x0=(1/x0.norm())*x0; x0=x0.ortho_right()
ex=sl.expm(-1j*0.03*Hm)@x0.matricize()
sol=ode.tdvp2site(H,x0,0.01,3,threshold=0,max_rank=np.inf)
e=np.linalg.norm(sol[-1].matricize()-ex); print("tdvp2site error on a full-rank state", e); assert e<1e-10
