import numpy as np, scikit_tt.tensor_train as tt, warnings
warnings.filterwarnings('ignore')
from scikit_tt.tensor_train import TT
import scikit_tt.solvers.evp as evp
np.random.seed(7)
def crand(rd,cd,ranks):
    g=tt.rand(rd,cd,ranks=ranks)
    for i in range(g.order): g.cores[i]=g.cores[i]+1j*np.random.rand(*g.cores[i].shape)
    return g
dims=[2,3,2,2]; d=4
A=crand(dims,dims,2); A=A+A.transpose(conjugate=True); B=crand(dims,dims,2); B=B@B.transpose(conjugate=True)+tt.eye(dims)
Am=A.matricize(); Bm=B.matricize()
x=crand(dims,[1]*d,[1,2,3,2,1])
def frame(x,i):
    r1,n,_,r2=x.cores[i].shape
    cols=[]
    for k in range(r1*n*r2):
        c=np.zeros(r1*n*r2,dtype=complex); c[k]=1
        y=x.copy(); y.cores[i]=c.reshape(r1,n,1,r2); cols.append(y.matricize())
    return np.array(cols).T
class O: pass
trains=O(); trains.operator=A; trains.operator_gevp=B; trains.solution=x.copy(); trains.previous=[]
stacks=O(); stacks.op_left=[None]*d; stacks.op_right=[None]*d; stacks.op_gevp_left=[None]*d; stacks.op_gevp_right=[None]*d; stacks.previous_left=[]; stacks.previous_right=[]
L=getattr(evp,'__construct_left_stacks'); R=getattr(evp,'__construct_right_stacks'); Mf=getattr(evp,'__construct_micro_matrices')
for i in range(d-1,-1,-1): R(i,trains,stacks)
for i in range(d): L(i,trains,stacks)
worst=0
for i in range(d):
    M,Mg=Mf(i,trains,stacks,0); P=frame(x,i)
    worst=max(worst,np.abs(M-P.conj().T@Am@P).max(),np.abs(Mg-P.conj().T@Bm@P).max())
print("max |micro - P^H A P| over cores:", worst); assert worst<1e-10
# end to end: maximal-rank complex guess gives the exact largest eigenpair, value == Rayleigh quotient
dims=[2,3,2]; A=crand(dims,dims,2); A=A+A.transpose(conjugate=True); Am=A.matricize(); w,v=np.linalg.eigh(Am)
g=crand(dims,[1]*3,[1,2,2,1])
ev,et,it=evp.als(A,g,repeats=10,solver='eigh',sigma=w[-1]); xx=et.matricize(); rq=((xx.conj()@Am@xx)/(xx.conj()@xx)).real
print("returned",ev,"rayleigh",rq,"max eig",w[-1]); assert abs(ev-rq)<1e-8 and abs(ev-w[-1])<1e-8
