import numpy as np, scikit_tt.tensor_train as tt
A=np.array([[1,2],[3,4]])*1j
c=tt.build_core([[A,0],[0,A]], iscomplex=True); assert np.abs(c[0,:,:,0]-A).max()==0 and np.abs(c[1,:,:,1]-A).max()==0, "complex core all zero"
c=tt.build_core([[A,0],[0,A]]); assert np.iscomplexobj(c) and np.abs(c[0,:,:,0]-A).max()==0
c=tt.build_core([A,0,A], iscomplex=True); assert np.abs(c[0,:,:,0]-A).max()==0, "vector form complex zero"
c=tt.build_core([A,0,A]); assert np.iscomplexobj(c) and np.abs(c[2,:,:,0]-A).max()==0, "vector form dropped imaginary part"
c=tt.build_core([A.imag,0,A.imag]); assert not np.iscomplexobj(c) and np.abs(c[2,:,:,0]-A.imag).max()==0
print("ok")
