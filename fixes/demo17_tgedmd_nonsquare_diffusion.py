import numpy as np, itertools, warnings
warnings.filterwarnings('ignore')
import scikit_tt.data_driven.tgedmd as tg, scikit_tt.data_driven.transform as tdt
np.random.seed(0)
d,m,E=2,40,3
X=np.random.randn(d,m); b=np.random.randn(d,m); sigma=np.random.randn(d,E,m)
basis=[[tdt.ConstantFunction(0),tdt.Identity(0),tdt.Monomial(0,2)],[tdt.ConstantFunction(1),tdt.Identity(1)]]
ev,_,_=tg.amuset_hosvd(X,basis,sigma,b=b,threshold=1e-10)
# dense projected generator: Psi (n x m), dPsi = L Psi, M = S^-1 U^T dPsi V  (same cut)
idx=list(itertools.product(range(3),range(2)))
Psi=np.array([[basis[0][i](X[:,l])*basis[1][j](X[:,l]) for l in range(m)] for i,j in idx])
dPsi=np.array([[tg.generator_on_product(basis,(i,j),X[:,l],b[:,l],sigma[:,:,l]) for l in range(m)] for i,j in idx])
U,S,Vt=np.linalg.svd(Psi,full_matrices=False); k=np.sum(S/S[0]>1e-10) if False else np.sum(S>1e-10); U,S,Vt=U[:,:k],S[:k],Vt[:k]
Md=Vt@dPsi.T@U@np.diag(1/S)
evd=np.sort(np.linalg.eigvals(Md))[::-1]
print(np.sort(ev.real)[::-1][:4], evd.real[:4]); assert np.allclose(np.sort(ev.real)[::-1], np.sort(evd.real)[::-1], atol=1e-8)
