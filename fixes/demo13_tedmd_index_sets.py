import numpy as np, scikit_tt.tensor_train as tt, warnings
warnings.filterwarnings('ignore')
import scikit_tt.data_driven.transform as tdt, scikit_tt.data_driven.tedmd as tedmd
np.random.seed(3)
d=2; m=40
X=np.random.randn(d,m+1)
basis=[[tdt.ConstantFunction(0),tdt.Identity(0),tdt.Monomial(0,2)],[tdt.ConstantFunction(1),tdt.Identity(1)]]
xi=[np.arange(0,20),np.arange(10,35)]; yi=[np.arange(1,21),np.arange(11,36)]
ev,et=tedmd.amuset_hosvd(X,xi,yi,basis,threshold=1e-10)
assert et[0] is not et[1], "one object returned for every index-set pair"
for k in range(2):
    evk,etk=tedmd.amuset_hosvd(X,xi[k],yi[k],basis,threshold=1e-10)
    assert np.abs(ev[k]-evk).max()<1e-10 and np.abs(et[k].full()-etk.full()).max()<1e-10, "pair %d differs from the single call"%k
ev,et=tedmd.amuset_hocur(X,xi[0],yi[0],basis,max_rank=10)
assert et.row_dims[-1]==et.cores[-1].shape[1], "hocur eigentensor row_dims stale: %s vs %s"%(et.row_dims,[c.shape for c in et.cores])
ev,et=tedmd.amuset_hocur(X,xi,yi,basis,max_rank=10); assert et[0] is not et[1]
print("ok")
ev,et,sv,lst=tedmd.amuset_hosvd(X,xi[0],yi[0],basis,threshold=1e-10,st_tf=True)
assert lst is not et and lst.row_dims[-1]==lst.cores[-1].shape[1] and et.row_dims[-1]==et.cores[-1].shape[1]
print("ok st_tf")
