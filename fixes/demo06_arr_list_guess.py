import numpy as np, scikit_tt.tensor_train as tt
import scikit_tt.data_driven.transform as tdt, scikit_tt.data_driven.regression as reg
np.random.seed(3)
d=2; m=40
X=np.random.randn(d,m+1); y=np.random.randn(2,m+1)
basis=[[tdt.ConstantFunction(0),tdt.Identity(0),tdt.Monomial(0,2)],[tdt.ConstantFunction(1),tdt.Identity(1)]]
g=[tt.rand([3,2],[1,1],ranks=[1,2,1]) for _ in range(2)]
f0=[t.full().copy() for t in g]
sol=reg.arr(X,y,basis,g,repeats=1,progress=False)
e=max(np.abs(t.full()-f).max() for t,f in zip(g,f0)); print("list guess changed by", e); assert e<1e-12 and sol[0] is not g[0]
