import numpy as np, scikit_tt.tensor_train as tt, warnings
warnings.filterwarnings('ignore')
import scikit_tt.solvers.evp as evp
np.random.seed(1)
def crand(rd,cd,ranks):
    g=tt.rand(rd,cd,ranks=ranks)
    for i in range(g.order): g.cores[i]=g.cores[i]+1j*np.random.rand(*g.cores[i].shape)
    return g
dims=[2,3,2]
A=crand(dims,dims,2); A=A+A.transpose(conjugate=True); A=A@A.transpose(conjugate=True)+tt.eye(dims); Am=A.matricize(); w,v=np.linalg.eigh(Am)
g=crand(dims,[1]*3,[1,2,2,1])
ev,et=evp.power_method(A,g.copy(),repeats=30,sigma=w[0]-0.01); x=et.matricize(); rq=(x.conj()@Am@x/(x.conj()@x))
print("returned",ev,"true rayleigh quotient",rq,"nearest eigenvalue",w[0]); assert abs(ev-rq)<1e-8*abs(rq)
