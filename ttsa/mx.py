"""Matrix-expression normal forms: products of decomposition factors, so that value-level identities such as

    (Q U_R) diag(s) V_R  =  Q R  =  M          (QR followed by an SVD of the small factor is a thin SVD of M)
    Z^H diag(s) W^H      =  (W diag(s) Z)^H    (SVD of the conjugate-transposed unfolding)
    (Q U_R)^H (Q U_R)    =  I                  (a product of isometries is an isometry)

are decided by rewriting instead of by matching one particular way of writing the code.

A matrix expression is a tuple of factors; a factor is (kind, uid, op, sel):
    kind   'src'  an opaque matrix (uid identifies the value)
           'U','S','V'   factors of  svd(X):  X = U diag(S) V   (thin or full: U^H U = I, V V^H = I)
           'Q','R'       qr(X):  X = Q R, Q^H Q = I            'Rr','Qr'   rq(X):  X = Rr Qr, Qr Qr^H = I
           'Sinv'        diag(1 / S)
    op     ''  'T'  'C'  'H'   (transpose, conjugate, both); diagonal real factors ignore it
    sel    None, or the key of the selector applied to the shared (bond) index of the factor (truncation)

`canon` applies, to a fixpoint:   U S V -> X,   V^H S U^H -> X^H,   Q R -> X,   R^H Q^H -> X^H,   Rr Qr -> X,   Qr^H Rr^H -> X^H,
U^H U -> I,   V V^H -> I,   Q^H Q -> I,   Qr Qr^H -> I,   S Sinv -> I   (only for factors of one decomposition carrying the same selector; the
reconstruction rules only for unselected = untruncated factors), where X is the expression of the decomposed matrix."""
from . import arr as A
from .arr import Arr

FLIP_T = {'': 'T', 'T': '', 'C': 'H', 'H': 'C'}
FLIP_C = {'': 'C', 'C': '', 'T': 'H', 'H': 'T'}
FLIP_H = {'': 'H', 'H': '', 'T': 'C', 'C': 'T'}
DIAG = ('S', 'Sinv')


def reg():
    return A.CTX.__dict__.setdefault('mx_inputs', {})


def src(key):
    return (('src', key, '', None),)


def of(a):
    """expression of a 2-D array (opaque source atom if nothing is known)"""
    if not isinstance(a, Arr) or a.ndim != 2:
        return None
    m = a.tags.get('mx')
    if m is not None:
        return m
    A.CTX.keep.append(a)
    return src(id(a))


def fix(f):
    k, u, op, sel = f
    if k in DIAG:
        return (k, u, '', sel)
    return f


def T(m):
    return tuple(fix((k, u, FLIP_T[op], s)) for (k, u, op, s) in reversed(m))


def C(m):
    return tuple(fix((k, u, FLIP_C[op], s)) for (k, u, op, s) in m)


def H(m):
    return tuple(fix((k, u, FLIP_H[op], s)) for (k, u, op, s) in reversed(m))


def mul(a, b):
    if a is None or b is None:
        return None
    return canon(tuple(a) + tuple(b))


def _inp(uid, hermitian):
    x = reg().get(uid)
    if x is None:
        return None
    return H(x) if hermitian else x


def canon(m):
    m = list(m)
    changed = True
    guard = 0
    while changed and guard < 200:
        changed = False
        guard += 1
        n = len(m)
        for i in range(n):
            f = m[i]
            # ---- pairs
            if i + 1 < n:
                g = m[i + 1]
                same = f[1] == g[1] and f[3] == g[3]
                if same:
                    pair = (f[0], f[2], g[0], g[2])
                    if pair in (('U', 'H', 'U', ''), ('U', 'T', 'U', 'C'), ('V', '', 'V', 'H'), ('V', 'C', 'V', 'T'), ('Q', 'H', 'Q', ''), ('Q', 'T', 'Q', 'C'),
                                ('Qr', '', 'Qr', 'H'), ('Qr', 'C', 'Qr', 'T')) or {f[0], g[0]} == {'S', 'Sinv'}:
                        m[i:i + 2] = []
                        changed = True
                        break
                    if f[3] is None:
                        x = None
                        if pair == ('Q', '', 'R', ''):
                            x = _inp(f[1], False)
                        elif pair == ('R', 'H', 'Q', 'H'):
                            x = _inp(f[1], True)
                        elif pair == ('Rr', '', 'Qr', ''):
                            x = _inp(f[1], False)
                        elif pair == ('Qr', 'H', 'Rr', 'H'):
                            x = _inp(f[1], True)
                        elif pair == ('R', 'T', 'Q', 'T'):
                            x = T(_inp(f[1], False)) if _inp(f[1], False) is not None else None
                        elif pair == ('Q', 'C', 'R', 'C'):
                            x = C(_inp(f[1], False)) if _inp(f[1], False) is not None else None
                        if x is not None:
                            m[i:i + 2] = list(x)
                            changed = True
                            break
            # ---- truncated triples: U[:, sel] diag(S[sel]) V[sel, :] of one decomposition with one selector = its truncation
            if i + 2 < n:
                g, h = m[i + 1], m[i + 2]
                if f[1] == g[1] == h[1] and f[3] is not None and f[3] == g[3] == h[3] and g[0] == 'S' and f[0] != 'trunc':
                    tri = (f[0], f[2], h[0], h[2])
                    op = {('U', '', 'V', ''): '', ('V', 'H', 'U', 'H'): 'H', ('V', 'T', 'U', 'T'): 'T', ('U', 'C', 'V', 'C'): 'C'}.get(tri)
                    if op is not None:
                        m[i:i + 3] = [('trunc', (f[1], f[3]), op, None)]
                        changed = True
                        break
            # ---- triples
            if i + 2 < n:
                g, h = m[i + 1], m[i + 2]
                if f[1] == g[1] == h[1] and f[3] is None and g[3] is None and h[3] is None and g[0] == 'S':
                    tri = (f[0], f[2], h[0], h[2])
                    x = None
                    if tri == ('U', '', 'V', ''):
                        x = _inp(f[1], False)
                    elif tri == ('V', 'H', 'U', 'H'):
                        x = _inp(f[1], True)
                    elif tri == ('V', 'T', 'U', 'T'):
                        y = _inp(f[1], False)
                        x = T(y) if y is not None else None
                    elif tri == ('U', 'C', 'V', 'C'):
                        y = _inp(f[1], False)
                        x = C(y) if y is not None else None
                    if x is not None:
                        m[i:i + 3] = list(x)
                        changed = True
                        break
    return tuple(m)


def untruncate(m):
    """replace every truncated reconstruction by the matrix that was decomposed (what the product would be without the cut)"""
    m = canon(m)
    for _ in range(20):
        if not any(f[0] == 'trunc' for f in m):
            return m
        out = []
        for f in m:
            if f[0] == 'trunc':
                x = reg().get(f[1][0])
                if x is None:
                    return None
                x = {'': x, 'H': H(x), 'T': T(x), 'C': C(x)}[f[2]]
                out.extend(x)
            else:
                out.append(f)
        m = canon(tuple(out))            # (the decomposed matrix may itself contain the truncated result of an earlier step)
    return None


def origin_array(uid, depth=0):
    """the array whose matricisation was (possibly through QR / RQ pre-factorisations and transpositions) decomposed by decomposition `uid`, or None"""
    m = reg().get(uid)
    if m is None or depth > 6:
        return None
    m = canon(m)
    if len(m) != 1:
        return None
    k, u, op, sel = m[0]
    if k == 'src':
        if isinstance(u, tuple) and u[0] == 'unf':
            return A.CTX.__dict__.get('mx_roots', {}).get(u[1])
        return None
    if k in ('R', 'Rr') and sel is None:
        return origin_array(u, depth + 1)
    return None


def swap_inverse(m):
    """replace diag(1/s) by diag(s) and vice versa (the pseudoinverse has the structure of the reconstruction with the singular values inverted)"""
    if m is None:
        return None
    return tuple((('S' if f[0] == 'Sinv' else 'Sinv' if f[0] == 'S' else f[0]),) + tuple(f[1:]) for f in m)


def truncations(m):
    return [f[1] for f in canon(m) if f[0] == 'trunc']


def fully_known(m):
    """the expression consists of decomposition factors only (no opaque matrix): failing to prove a property of it is then a verdict, not ignorance"""
    return m is not None and all(f[0] != 'src' for f in m)


def equal(a, b):
    if a is None or b is None:
        return None
    return canon(a) == canon(b)


def is_identity(m):
    return m is not None and canon(m) == ()


def left_isometry(m):
    """X^H X = I ?   True / None (not provable)"""
    if m is None:
        return None
    return True if is_identity(H(m) + tuple(m)) else None


def right_isometry(m):
    if m is None:
        return None
    return True if is_identity(tuple(m) + H(m)) else None


def show(m):
    if m is None:
        return '?'
    if not m:
        return 'I'
    out = []
    for k, u, op, s in m:
        nm = f'{k}{u if not isinstance(u, tuple) else ""}' if k != 'src' else f'M{str(u)[-4:]}'
        out.append(nm + ({'': '', 'T': '^T', 'C': '^*', 'H': '^H'}[op]) + ('[sel]' if s is not None else ''))
    return ' '.join(out)


# ---------------------------------------------------------------------------------------------- unfoldings of higher-order arrays
def unfolding(a, split):
    """expression of the matricisation  (axes[:split] | axes[split:])  of an array"""
    if not isinstance(a, Arr):
        return None
    if a.ndim == 2 and split == 1:
        return of(a)
    u = a.tags.get('mx_unf')
    if u is not None and u[1] == split:
        return u[0]
    A.CTX.keep.append(a)
    return src(('unf', id(a.buf), tuple(str(s) for s in a.shape), split))
