"""Elementary-operator algebra for single-site matrices built from np.eye(n, k=..), unit vectors and projectors (C12-D2):
finite linear combinations of shifts S(c) = sum_b |b+c><b| and ket-bras |a><b| with concrete integer labels, and tensor products of two of them."""


class Op:
    def __init__(self, terms=None):
        self.terms = {k: v for k, v in (terms or {}).items() if v != 0}

    def __add__(self, o):
        t = dict(self.terms)
        for k, v in o.terms.items():
            t[k] = t.get(k, 0) + v
        return Op(t)

    def __neg__(self):
        return Op({k: -v for k, v in self.terms.items()})

    def __sub__(self, o):
        return self + (-o)

    def scale(self, c):
        return Op({k: v * c for k, v in self.terms.items()})

    def dot(self, o):
        t = {}
        for k1, v1 in self.terms.items():
            for k2, v2 in o.terms.items():
                k = mul(k1, k2)
                if k is not None:
                    t[k] = t.get(k, 0) + v1 * v2
        return Op(t)

    def outer(self, o):
        t = {}
        for k1, v1 in self.terms.items():
            for k2, v2 in o.terms.items():
                t[('T', k1, k2)] = t.get(('T', k1, k2), 0) + v1 * v2
        return Op(t)

    def same(self, o, tol=1e-12):
        keys = set(self.terms) | set(o.terms)
        return all(abs(self.terms.get(k, 0) - o.terms.get(k, 0)) <= tol for k in keys)

    def __repr__(self):
        def show(k):
            if k[0] == 'S':
                return 'I' if k[1] == 0 else f'Shift({k[1]:+d})'
            if k[0] == 'K':
                return f'|{k[1]}><{k[2]}|'
            return f'{show(k[1])} (x) {show(k[2])}'
        return ' + '.join(f'{v:g}*{show(k)}' for k, v in sorted(self.terms.items(), key=str)) or '0'


def mul(k1, k2):
    if k1[0] == 'S' and k2[0] == 'S':
        return ('S', k1[1] + k2[1])
    if k1[0] == 'S' and k2[0] == 'K':
        return ('K', k2[1] + k1[1], k2[2])
    if k1[0] == 'K' and k2[0] == 'S':
        return ('K', k1[1], k1[2] - k2[1])
    if k1[0] == 'K' and k2[0] == 'K':
        return ('K', k1[1], k2[2]) if k1[2] == k2[1] else None
    return None


def shift(c):
    return Op({('S', c): 1})


def ketbra(a, b):
    return Op({('K', a, b): 1})
