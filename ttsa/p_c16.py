"""C16  MANDy and ARR (DESIGN.md 3/C16): pseudoinverse split at the snapshot core with the caller's threshold, contraction with y over the snapshots,
metadata; ARR environment typing, slot typestate, rank facts, frame.  data_driven/regression.py interpreted over the Layer-2 array domain."""
import itertools
import math

from . import arr as A
from . import l2, l2rules
from .arr import Arr, mode_leg
from .core import AnalysisError, Finding, Run, norm_text
from .shape import sz_eq

MOD = 'data_driven.regression'
TDT = 'data_driven.transform'


class BasisFn:
    def __init__(self, *label):
        self.label = label

    def __call__(self, x):
        if isinstance(x, Arr) and x.ndim == 2 and 'role' in x.tags:
            # a basis function is a map R^d -> R: calling it on the d x m data matrix equals the snapshot-wise evaluation only for functions written column-wise
            A.CTX.event('whole-matrix-call', array=x, detail=f'a basis function is called on the whole data matrix `{x.tags["role"]}` instead of snapshot by snapshot: for a function '
                        'defined at a point (t -> sum(t**2), t -> max(t[0], 0)) the result is one number (or a wrong array) that is broadcast over all snapshots')
            return Arr((x.shape[1],), None, 'real', None, {'basis': ('whole-matrix',), 'point': x, 'vectorised': True}, 'basis-value')
        return Arr((), [], 'real', None, {'basis': self.label, 'point': x}, 'basis-value')


def basis_modes(item, depth=0):
    out = set()
    if isinstance(item, Arr):
        if 'basis' in item.tags:
            out.add(item.tags['basis'][0])
        for e in item.tags.get('elements', []) if depth < 3 else []:
            out |= basis_modes(e, depth + 1)
    return out


def check(repo, tier):
    run = Run('C16', tier, repo, 'data_driven/regression.py interpreted from source over symbolic data (symbolic snapshot count and ranks, concrete numbers of coordinates / functions / outputs).')
    run.rule('D1', 'MANDy: the transformed data tensor is pseudo-inverted at its snapshot core with the caller\'s threshold; skipping the right-orthonormalisation is sound because the skipped '
             'core is an identity; the last core is contracted with y over the snapshot index; metadata updated with the store (class invariant of the result)')
    run.rule('D2', 'ARR: every environment / micro-matrix contraction is well-typed (basis index of mode i with the mode-i index of the solution, bonds of the same tensor train, snapshot index '
             'shared not summed); no environment is read unset or stale; economic QR/RQ never raise a rank; reshapes respect the index structure; result satisfies the class invariant')
    run.rule('D3', 'frame: data and the initial guess (single or list) are not modified; one result per output row')
    run.rule('D4', 'mandy_kb: the kernel coefficients solve gram z^T = y^T (both the Cholesky-type solve and the least-squares fallback) with the Gram matrix of x with itself; '
             'the solver that needs a regular matrix is reached only through a test that looks at the Gram matrix (or inside a try block)')
    run.trusted = ['NumPy/SciPy transfer functions']
    run.bounds = 'MANDy: 2-3 coordinates, 2-3 functions; ARR: orders 2-3, repeats 1-2, single guess and list of two distinct guesses, two output rows'

    def F(qual, rule, what, msg):
        fn = repo.fn(qual)
        return Finding('C16', rule, fn.where, what, msg, fn.file, fn.node.lineno)
    # ------------------------------------------------------------------ MANDy
    for which, d, p, thr in itertools.product(('mandy_cm', 'mandy_fm'), (2, 3), (2, 3), (0.0, 1e-6)):
        if tier == 'quick' and d == 3 and p == 3:
            continue
        entry = f'{MOD}.{which}'
        scen = f'{which}(coordinates={d}, functions={p}, threshold={thr})'

        def body(sc):
            m = sc.atom('m')
            x = Arr([d, m], None, 'real', None, {'role': 'x'}, 'x')
            y = Arr([d, m], None, 'real', None, {'role': 'y'}, 'y')
            phi = [BasisFn(k) for k in range(p)]
            sc.inputs = (x, y, m)
            return sc.call(entry, x, y, phi, threshold=thr)
        for ch, sc, res, exc in l2rules.explore_data(run, 'C16', 'D1', repo, body, scen, {'data_driven.transform', 'data_driven.regression'}, typed=False):
            if exc is not None:
                run.oblige('D1', (entry, scen), False)
                l2rules.raised_finding(run, 'C16', 'D1', repo, entry, scen, exc)
                continue
            l2rules.relative_cut_obligations(run, 'C16', 'D1', repo, sc, scen, {MOD, 'tensor_train'})
            l2rules.whole_matrix_call_obligations(run, 'C16', 'D1', repo, sc, scen, {MOD, 'data_driven.transform'})
            x, y, m = sc.inputs
            ok = l2rules.invariant_obligation(run, 'C16', 'D1', repo, sc, res, entry, scen, 'coefficient tensor', chain=False)
            bad = []
            nmodes = d if which == 'mandy_cm' else p
            calls = [e for e in sc.events('call') if e['callee'].name in ('pinv', 'svd') and hasattr(e['args'][0] if e['args'] else None, '_attrs')]
            unknown = []
            if not calls:
                unknown.append('neither TT.pinv nor TT.svd is applied to the transformed data tensor')
            else:
                c = calls[0]
                names = ['self', 'index', 'threshold', 'ortho_l', 'ortho_r', 'overwrite'] if c['callee'].name == 'pinv' else ['self', 'index', 'threshold', 'max_rank', 'ortho_l', 'ortho_r', 'overwrite']
                argd = dict(zip(names, c['args']))
                argd.update(c['kwargs'])
                index = argd.get('index')
                if index != nmodes:
                    bad.append(f'{c["callee"].name} splits at index {index} instead of the snapshot core {nmodes}')
                if argd.get('threshold', 0.0) != thr:
                    bad.append(f'{c["callee"].name} is called with threshold {argd.get("threshold", "default")} instead of the caller\'s {thr}')
                if argd.get('ortho_r', True) is False:
                    psi = c['args'][0]
                    tail = list(psi._attrs['cores'][index:]) if hasattr(psi, '_attrs') and isinstance(index, int) else []
                    # (the cores as they were when the call was made: with overwrite=True the call itself replaces them)
                    for off_, _c in enumerate(tail):
                        first = [e_ for e_ in sc.events('core-store') if e_['tt'] is psi and e_['slot'] == index + off_]
                        if first and isinstance(first[0].get('old'), Arr):
                            tail[off_] = first[0]['old']
                    for cc in tail:
                        v = cc
                        while isinstance(v, Arr) and v.tags.get('const') not in ('eye', 'eye-reshaped') and v.parents and v.buf is v.parents[0].buf:
                            v = v.parents[0]
                        if not (isinstance(v, Arr) and v.tags.get('const') in ('eye', 'eye-reshaped')):
                            bad.append('ortho_r=False although a skipped core is not an identity (not right-orthonormal)')
            # value level: the last two cores are  U diag(1/s) V E y^T  with U, s, V of ONE decomposition of the orthonormalised (last mode core, snapshot core) pair
            if ok and res._attrs['order'] == nmodes + 1 and not bad:
                from . import mx
                from .p_c03 import working_object
                t_obj, init = working_object(sc)
                steps = l2rules.sweep_steps(sc, t_obj, init) if t_obj is not None else []
                rc = res._attrs['cores']
                got = l2rules.pair_mx(rc[-2], rc[-1])
                got = mx.canon(got) if got is not None else None
                yT = ('src', id(y), 'T', None)
                central = [st for st in steps if st[0] == [nmodes - 1, nmodes]]
                if got is None or not central:
                    unknown.append('no central decomposition step on the (last mode core, snapshot core) pair was found')
                elif not got or got[-1] != yT:
                    unknown.append(f'the last two cores are  {mx.show(got)}: y^T is not the last factor')
                else:
                    sb, su, _n = l2rules.value_preservation(sc, t_obj, init, truncating=bool(thr), skip_last=True)
                    bad += sb
                    unknown += su
                    slots, before, after = central[-1]
                    sw = mx.swap_inverse(got[:-1])
                    sw = mx.untruncate(sw) if thr else mx.canon(sw)
                    want = l2rules.pair_mx(before[nmodes - 1], before[nmodes])
                    want = mx.untruncate(want) if thr else mx.canon(want)
                    if not any(f[0] == 'Sinv' for f in got):
                        (bad if any(f[0] == 'S' for f in got) else unknown).append(f'the last two cores are  {mx.show(got)}: the singular values are not inverted')
                    elif sw is None or want is None:
                        unknown.append('truncated factors of an unregistered decomposition')
                    elif sw != want:
                        new_atoms = {f[:2] for f in sw if f[0] == 'src'} - {f[:2] for f in want if f[0] == 'src'}
                        (unknown if new_atoms else bad).append(f'with diag(1/s) replaced by diag(s) and y^T removed the last two cores give  {mx.show(sw)}  but the decomposed pair is  {mx.show(want)}')
            if unknown and not bad:
                raise AnalysisError(f'{scen}: undecided: ' + '; '.join(unknown[:2]))
            if ok:
                if res._attrs['order'] != nmodes + 1:
                    bad.append(f'result has order {res._attrs["order"]} instead of {nmodes + 1}')
                else:
                    last = res._attrs['cores'][-1]
                    anc = A.ancestors([last])
                    if not any(a.tags.get('role') == 'y' for a in anc.values()):
                        bad.append('the last core does not depend on y')
                    if not sz_eq(last.shape[1], d):
                        bad.append(f'the last core has mode size {last.shape[1]} instead of the number of outputs {d}')
                    def trace_y(arr):
                        """(is a (transposed) view of y, transposed?)"""
                        src, transposed = arr, False
                        while isinstance(src, Arr) and src.tags.get('role') != 'y' and src.parents and src.origin in ('transpose', 'copy', 'astype', 'asarray'):
                            if src.origin == 'transpose':
                                transposed = not transposed
                            src = src.parents[0]
                        return (isinstance(src, Arr) and src.tags.get('role') == 'y'), transposed
                    found = False
                    for e in sc.events('contract'):
                        for side in (0, 1):
                            op = e['a'] if side == 0 else e['b']
                            is_y, transposed = trace_y(op)
                            if not is_y or op.ndim != 2:
                                continue
                            found = True
                            # the contracted axis of the y operand must be its snapshot axis (axis 1 of y, i.e. axis 0 of y.T)
                            snap_axis = 0 if transposed else 1
                            if list(e['axes'][side]) != [snap_axis]:
                                bad.append('y is not contracted over its snapshot index')
                    if not found:
                        raise AnalysisError(f'{scen}: the last core depends on y but the way y enters is not a contraction the analysis recognises')
            run.oblige('D1', (entry, scen), not bad, sample={'rule': 'D1', 'scenario': scen, 'verdict': 'held' if not bad else 'VIOLATED'} if thr == 0.0 and d == 2 and p == 2 else None)
            if bad:
                run.add(F(entry, 'D1', 'MANDy structure', f'{scen}: ' + '; '.join(sorted(set(bad))[:3])))
    # ------------------------------------------------------------------ mandy_kb
    entry = f'{MOD}.mandy_kb'
    scen = 'mandy_kb(2 modes)'

    def body(sc):
        m = sc.atom('m')
        x = Arr([2, m], None, 'real', None, {'role': 'x'}, 'x')
        y = Arr([3, m], None, 'real', None, {'role': 'y'}, 'y')
        basis = [[BasisFn(i, k) for k in range(2)] for i in range(2)]
        sc.inputs = (x, y, m)
        return sc.call(entry, x, y, basis)
    for ch, sc, res, exc in l2.explore(repo, body, typed=False):
        if exc is not None:
            run.oblige('D4', (entry, scen, tuple(ch)), False)
            l2rules.raised_finding(run, 'C16', 'D4', repo, entry, scen, exc)
            continue
        x, y, m = sc.inputs
        bad = []
        if not (isinstance(res, Arr) and res.ndim == 2 and sz_eq(res.shape[0], 3) and sz_eq(res.shape[1], m)):
            bad.append(f'result shape {getattr(res, "shape", None)} instead of (outputs, snapshots)')
        solves = sc.events('solve') + sc.events('lstsq')
        if len(solves) != 1:
            bad.append(f'{len(solves)} linear solves on this path')
        else:
            e = solves[0]
            ganc = A.ancestors([e['matrix']])
            if any(a.tags.get('role') == 'y' for a in ganc.values()) or not any(a.tags.get('role') == 'x' for a in ganc.values()):
                bad.append('the system matrix is not the Gram matrix of x')
            ranc = A.ancestors([e['rhs']])
            if not any(a.tags.get('role') == 'y' for a in ranc.values()):
                bad.append('the right-hand side is not y^T')
            # a solver that needs a regular matrix (solve / Cholesky) may only be reached through a test that looks at the Gram matrix (its condition number,
            # rank, smallest eigenvalue ...) or inside a try block: the Gram matrix of few snapshots can be singular whatever the shapes are
            if e['kind'] == 'solve':
                gid = id(e['matrix'])
                guards = [g for g in sc.events('branch') if not g.get('decided')]
                looks = False
                for g in guards:
                    ops = [o for o in ((g.get('expr') or (None, ()))[1] or ()) if isinstance(o, Arr)] + ([g['value']] if isinstance(g.get('value'), Arr) else [])
                    if any(gid in A.ancestors([o]) or o is e['matrix'] for o in ops):
                        looks = True
                fnode = repo.fn(entry).node
                import ast as _ast
                ln = getattr(e.get('node'), 'lineno', None)
                in_try = any(isinstance(t, _ast.Try) and any(getattr(n_, 'lineno', None) == ln for b_ in t.body for n_ in _ast.walk(b_)) for t in _ast.walk(fnode)) if ln else False
                if not looks and not in_try:
                    bad.append('a solver that requires a regular matrix is applied to the Gram matrix on a path where no test looks at the matrix '
                               '(only shapes / constants decide): a singular Gram matrix of few, linearly dependent snapshots reaches it')
        run.oblige('D4', (entry, scen, tuple(ch)), not bad)
        if bad:
            run.add(F(entry, 'D4', 'kernel-based MANDy', f'{scen} [branch {ch}]: ' + '; '.join(bad[:3])))
    # ------------------------------------------------------------------ ARR
    entry = f'{MOD}.arr'
    mods = {MOD}
    RCOND = 3.5e-5          # (a value that is neither the default nor any constant of the module)
    n_contr = 0
    for order, rep, aslist in itertools.product((2, 3), (1, 2), (False, True)):
        if tier == 'quick' and order == 3 and rep == 2 and aslist:
            continue
        scen = f'arr(order={order}, repeats={rep}, initial guess as {"list of two tensor trains" if aslist else "one tensor train"})'

        def body(sc):
            m = sc.atom('m')
            x = Arr([2, m], [(A.opaque_leg(2, 'coord'),), (mode_leg('snap', m, +1, 'snapshot'),)], 'real', None, {'role': 'x'}, 'x')
            y = Arr([2, m], None, 'real', None, {'role': 'y'}, 'y')
            nfun = [2 + (i % 2) for i in range(order)]
            basis = [[BasisFn(i, k) for k in range(nfun[i])] for i in range(order)]

            def hook(items, n):
                ms = set()
                for it_ in items:
                    ms |= basis_modes(it_)
                if len(ms) == 1 and isinstance(n, int) and all('basis' in i_.tags or i_.tags.get('elements') for i_ in items):
                    if all(i_.ndim == 0 or True for i_ in items) and items and items[0].ndim <= 1 and n == nfun[list(ms)[0]]:
                        (mi,) = ms
                        return (mode_leg(mi, n, -1, f'basis[{mi}]'),)
                return None
            sc.ctx.array_leg_hook = hook
            if aslist:
                guess = [sc.tt(f'g{k}', order, 'vec', row=nfun, dtype='real') for k in range(2)]
            else:
                guess = sc.tt('g', order, 'vec', row=nfun, dtype='real')
            sc.inputs = (x, y, guess)
            gl = guess if aslist else [guess]
            sc.old = [list(g._attrs['cores']) for g in gl]
            sc.old_ranks = [list(g._attrs['ranks']) for g in gl]
            return sc.call(entry, x, y, basis, guess, repeats=rep, rcond=RCOND, progress=False)
        def gram_rule(sc):
            # ... and it acts on the singular values of the micro matrix itself: the normal equations (lstsq of M M^T) square them, the same rcond then cuts at sqrt(rcond)
            for e in sc.events('lstsq'):
                if e.get('gram') and e.get('cond') is not None and l2rules.in_modules(e, mods):
                    where, cons, f_, ln = l2rules.ev_where(repo, e, mods)
                    run.oblige('D2', (where, cons, 'rcond on the micro matrix'), False)
                    run.add(Finding('C16', 'D2', where, cons, f'{scen}: a micro least-squares problem is solved through its normal equations (lstsq of M M^T) with the caller\'s rcond: the cut-off '
                                    f'acts on the squared singular values, i.e. singular values below sqrt(rcond) = {RCOND ** 0.5:g} relative to the largest are discarded instead of those below {RCOND:g}', f_, ln))
        try:
            paths_ = l2.explore(repo, body, typed=True)
        except AnalysisError as ae_:
            for _c, sc_, _r, _x in list.__iter__(getattr(ae_, 'paths', [])):
                gram_rule(sc_)
            raise
        for ch, sc, res, exc in paths_:
            gram_rule(sc)
            # the cut-off ratio of every micro least-squares problem is the caller's rcond (both half sweeps, every row)
            ls = [e for e in sc.events('lstsq') if l2rules.in_modules(e, mods)]
            wrong = [e for e in ls if e.get('cond') != RCOND]
            run.oblige('D2', (entry, scen, 'rcond'), not wrong)
            if wrong:
                where, cons, f_, ln = l2rules.ev_where(repo, wrong[0], mods)
                run.add(Finding('C16', 'D2', where, cons, f'{scen}: {len(wrong)} of {len(ls)} micro least-squares problems are solved with the cut-off ratio {wrong[0].get("cond")!r} instead of the '
                                f'caller\'s rcond={RCOND}', f_, ln))
            n_contr += l2rules.typing_obligations(run, 'C16', 'D2', repo, sc, scen, mods)
            if exc is not None:
                run.oblige('D2', (entry, scen), False)
                l2rules.raised_finding(run, 'C16', 'D2', repo, entry, scen, exc)
                continue
            l2rules.stale_obligation(run, 'C16', 'D2', repo, sc, entry, scen, mods)
            x, y, guess = sc.inputs
            gl = guess if aslist else [guess]
            bad = []
            if not (isinstance(res, list) and len(res) == 2 and len({id(t) for t in res}) == 2):
                bad.append('the result is not a list with one distinct tensor train per output row')
            else:
                for k, t in enumerate(res):
                    if not l2rules.invariant_obligation(run, 'C16', 'D2', repo, sc, t, entry, scen, f'solution {k}'):
                        continue
                    g = gl[k if aslist else 0]
                    for b in range(1, order):
                        if not l2rules.rank_le(sc, t._attrs['ranks'][b], sc.old_ranks[k if aslist else 0][b]):
                            bad.append(f'solution {k}: rank {t._attrs["ranks"][b]} of bond {b} is not bounded by the rank of the guess')
                    if any(t is g_ for g_ in gl):
                        bad.append(f'solution {k} is the guess object itself')
            # sweep coverage: per output row and repeat the micro least-squares problems are solved for cores 0 .. d-2 (forward) and d-1 .. 0 (backward); a core the
            # forward half sweep skips keeps the triangular factor its neighbour dropped.  (consecutive repetitions of a site count once; a solution that does not
            # go straight into a core slot is "no verdict")
            ls_res = {id(e['result']) for e in sc.events('lstsq') if l2rules.in_modules(e, mods)}
            stores = [e for e in sc.events('core-store') if isinstance(e['value'], Arr)]
            seq = [(id(e['tt']), e['slot']) for e in stores if id(e['value']) in ls_res or any(id(p_) in ls_res for p_ in e['value'].parents)]
            if ls_res and seq:
                def collapse(xs):
                    out = []
                    for x_ in xs:
                        if not out or out[-1] != x_:
                            out.append(x_)
                    return out
                per_row = {}
                for t_, k_ in seq:
                    per_row.setdefault(t_, []).append(k_)
                want = collapse((list(range(0, order - 1)) + list(range(order - 1, -1, -1))) * rep)
                wrong = [ks for ks in per_row.values() if collapse(ks) != want]
                run.oblige('D2', (entry, scen, 'sweep coverage'), not wrong)
                if wrong:
                    run.add(F(entry, 'D2', 'ARR sweep order', f'{scen}: the micro least-squares problems of one output row are solved for cores {wrong[0]}, expected {want} '
                              f'(a core that is not re-solved keeps what the orthonormalisation of its neighbour left in it)'))
            run.oblige('D2', (entry, scen, 'results'), not bad)
            if bad:
                run.add(F(entry, 'D2', 'ARR results', f'{scen}: ' + '; '.join(sorted(set(bad))[:3])))
            # D3 guess untouched
            bad = []
            for k, g in enumerate(gl):
                if any(a is not b for a, b in zip(g._attrs['cores'], sc.old[k])) or not all(sz_eq(a, b) for a, b in zip(g._attrs['ranks'], sc.old_ranks[k])):
                    bad.append(f'guess {k} was modified')
            run.oblige('D3', (entry, scen), not bad)
            if bad:
                run.add(F(entry, 'D3', 'initial guess modified', f'{scen}: ' + '; '.join(bad)))
    l2rules.frame_obligations(run, 'C16', 'D3', repo, [f'{MOD}.arr', f'{MOD}.mandy_cm', f'{MOD}.mandy_fm', f'{MOD}.mandy_kb'])
    run.analysed = {'typed_contractions': n_contr}
    run.floor('typed contractions in ARR', n_contr, 40)
    return run
