"""C03 / C04 / C05: orthonormalisation, rank truncation, global SVD / pseudoinverse -- typestate and provenance clauses
(DESIGN.md 3/C03-C05).  tensor_train.py (and utils.truncated_svd) interpreted over the Layer-2 array domain."""
import itertools
import math

from . import arr as A
from . import l2, l2rules
from .arr import Arr
from .core import AnalysisError, Finding, Run, norm_text
from .shape import Size, sz_eq

TTM = 'tensor_train'


def orth(core):
    return core.tags.get('orth') if isinstance(core, Arr) else None


def prov(core, key='svd'):
    p = core.tags.get('prov') if isinstance(core, Arr) else None
    return p if isinstance(p, dict) and key in p else None


def decomposition_partner_ok(sc, core_u, core_next, role_keep='u'):
    """the neighbour core must have been computed from the s and the v (or u) of the SAME decomposition whose u (or v) became core_u"""
    p = prov(core_u)
    if p is None:
        return False, 'the core is not the orthonormal factor of an SVD'
    uid = p['svd']
    anc = A.ancestors([core_next])
    roles = set()
    for a in anc.values():
        q = prov(a)
        if q is not None and q['svd'] == uid:
            roles.add(q['role'])
    need = {'s', 'v'} if role_keep == 'u' else {'s', 'u'}
    if not need <= roles:
        return False, f'the neighbouring core is not computed from the {sorted(need)} factors of the same decomposition (found {sorted(roles)})'
    return True, ''


def snapshot_orth(sc):
    """orth flags of the cores of every tracked tensor train (called from svd events)"""
    out = {}
    for lid, inst in getattr(sc.ctx, 'core_lists', {}).items():
        cores = inst._attrs.get('cores')
        if isinstance(cores, list):
            out[id(inst)] = [orth(c) for c in cores]
    return out


def check_c03(repo, tier):
    run = Run('C03', tier, repo, 'TT.ortho_left / ortho_right / ortho interpreted from source over symbolic arrays (concrete order and sweep indices, symbolic ranks and mode sizes); '
              'orthonormality typestate, SVD provenance and rank facts on the result.')
    run.rule('D1', 'after ortho_left(s, e) the (rank x mode x mode | rank) unfolding X of each core s..e satisfies X^H X = I (orthonormality typestate of decomposition factors, or '
             'rewriting of its matrix expression: U^H U, Q^H Q, V V^H -> I); mirrored for ortho_right; cores outside s..e+1 (resp. e-1..s) are untouched objects')
    run.rule('D2', 'value preservation: for every step of the sweep (the stores between two matrix decompositions) the product of the unfoldings of the cores it touches has the '
             'same normal form before and after (U diag(S) V -> X, Q R -> X, and their conjugate-transposed forms, for factors of ONE decomposition)')
    run.rule('D3', 'no rank increases: every new rank is bounded by the old one (thin SVD facts)')
    run.rule('D4', 'class invariant after the call; the object returned is the receiver')
    run.trusted = ['thin SVD returns factors with orthonormal columns/rows (LAPACK)', 'NumPy transfer functions']
    orders = (1, 2, 3, 4, 5) if tier == 'thorough' else (1, 2, 3, 4)
    run.bounds = f'orders {orders}, all admissible (start, end) pairs, operators and vectors, one interior rank-1 bond variant, complex data'
    for d in orders:
        for which in ('ortho_left', 'ortho_right', 'ortho'):
            if which == 'ortho_left':
                ranges = [(s, e) for s in range(0, max(d - 1, 1)) for e in range(s, d - 1)] or [(0, -1)]
            elif which == 'ortho_right':
                ranges = [(s, e) for s in range(d - 1, 0, -1) for e in range(s, 0, -1)] or [(0, 1)]
            else:
                ranges = [(None, None)]
            if tier == 'quick' and d >= 4:
                ranges = ranges[:1] + ranges[-2:]
            # empty sweeps (the loop range is empty: nothing may be touched), as used when an orthogonality centre is moved step by step and by TT.svd
            if which == 'ortho_left' and d >= 2:
                ranges = ranges + [(0, -1)] + ([(k, k - 1) for k in range(1, d)] if tier == 'thorough' else [(1, 0)])
            elif which == 'ortho_right' and d >= 2:
                ranges = ranges + ([(k, k + 1) for k in range(0, d - 1)] if tier == 'thorough' else [(0, 1)])
            for (s_, e_), role, rank1, mix in itertools.product(ranges, ('op', 'vec'), (False, True, 'all'), (None, 'complex cores followed by real ones', 'real cores followed by complex ones')):
                if rank1 == 'all' and (mix or d < 2 or (s_, e_) != ranges[0]):
                    continue          # every bond of rank one (product states, rank-one operators): once per routine, order and kind
                if rank1 is True and (d < 3 or role == 'op'):
                    continue
                if mix and (rank1 or d < 2 or (s_, e_) != ranges[0] or role == 'op'):
                    continue          # mixed core dtypes (a complex scalar factor, diag(), a complex boundary core ...): once per routine and order
                scen = f'{which}(order={d}, {role}, start={s_}, end={e_}{", all bonds of rank 1" if rank1 == "all" else (", interior rank-1 bond" if rank1 else "")}{", " + mix if mix else ""})'
                entry = f'{TTM}.TT.{which}'

                def body(sc):
                    ranks = None
                    if rank1 == 'all':
                        ranks = [1] * (d + 1)
                    elif rank1:
                        ranks = [1] + [sc.atom(f'ra{k}') if k != 1 else 1 for k in range(1, d)] + [1]
                    dts = None
                    if mix:
                        h_ = (d + 1) // 2
                        dts = (['complex'] * h_ + ['real'] * (d - h_)) if mix.startswith('complex') else (['real'] * h_ + ['complex'] * (d - h_))
                    a = sc.tt('a', d, role, square=False, ranks=ranks, **({'dtype': dts} if dts else {}))
                    sc.inputs = (a,)
                    sc.old = list(a._attrs['cores'])
                    sc.old_ranks = list(a._attrs['ranks'])
                    if which == 'ortho':
                        return sc.method(a, 'ortho')
                    kw = {'start_index': s_, 'end_index': e_} if which == 'ortho_left' else {'start_index': s_, 'end_index': e_}
                    return sc.method(a, which, **kw)
                for ch, sc, res, exc in l2.explore(repo, body, typed=True):
                    l2rules.typing_obligations(run, 'C03', 'D2', repo, sc, scen, {TTM})
                    if exc is not None:
                        run.oblige('D4', (entry, scen), False)
                        l2rules.raised_finding(run, 'C03', 'D4', repo, entry, scen, exc)
                        continue
                    a = sc.inputs[0]
                    fn = repo.fn(entry)
                    good = res is a
                    run.oblige('D4', (entry, scen, 'returns self'), good)
                    if not good:
                        run.add(Finding('C03', 'D4', fn.where, 'returns the receiver', f'{scen}: the method does not return the object it worked on', fn.file, fn.node.lineno))
                    if not l2rules.invariant_obligation(run, 'C03', 'D4', repo, sc, a, entry, scen, 'orthonormalised tensor train'):
                        continue
                    cores = a._attrs['cores']
                    if which == 'ortho_left':
                        lo, ro, touched = list(range(s_, e_ + 1)), [], set(range(s_, e_ + 2)) if e_ >= s_ else set()
                    elif which == 'ortho_right':
                        lo, ro, touched = [], list(range(e_, s_ + 1)), set(range(e_ - 1, s_ + 1)) if s_ >= e_ else set()
                    else:
                        lo, ro, touched = [], list(range(1, d)), set(range(d))
                    bad, unknown = [], []
                    for side, ks in (('LO', lo), ('RO', ro)):
                        for k in ks:
                            iso = l2rules.core_iso(cores[k], side)
                            if iso is None:
                                unknown.append(f'core {k}')
                            elif not iso:
                                bad.append(f'core {k} is not {"left" if side == "LO" else "right"}-orthonormal: its unfolding is  {show_unf(cores[k], side)}')
                    for k in range(d):
                        if k not in touched and cores[k] is not sc.old[k]:
                            bad.append(f'core {k} lies outside the requested sweep but was replaced')
                    if unknown and not bad:
                        raise AnalysisError(f'{scen}: orthonormality of {", ".join(unknown)} can neither be proved nor refuted (factors of unknown provenance)')
                    run.oblige('D1', (entry, scen), not bad, sample={'rule': 'D1', 'scenario': scen, 'orth_flags': [orth(c) for c in cores]} if d == 3 and role == 'op' and not rank1 and len(run.samples) < 6 else None)
                    if bad:
                        run.add(Finding('C03', 'D1', fn.where, 'orthonormality typestate', f'{scen}: ' + '; '.join(bad[:3]), fn.file, fn.node.lineno))
                    # D2 value preservation: every step of the sweep (the stores between two decompositions) leaves the product of the cores it touches unchanged
                    bad, unknown, nsteps = l2rules.value_preservation(sc, a, sc.old)
                    if unknown and not bad:
                        raise AnalysisError(f'{scen}: value preservation undecided: ' + '; '.join(unknown[:2]))
                    run.oblige('D2', (entry, scen), not bad)
                    if bad:
                        run.add(Finding('C03', 'D2', fn.where, 'value preservation of a sweep step', f'{scen}: ' + '; '.join(bad[:2]), fn.file, fn.node.lineno))
                    # D3 ranks
                    bad = [f'rank {k}: {a._attrs["ranks"][k]} is not bounded by the old rank {sc.old_ranks[k]}' for k in range(d + 1)
                           if not l2rules.rank_le(sc, a._attrs['ranks'][k], sc.old_ranks[k])]
                    run.oblige('D3', (entry, scen), not bad)
                    if bad:
                        run.add(Finding('C03', 'D3', fn.where, 'rank monotonicity', f'{scen}: ' + '; '.join(bad[:3]), fn.file, fn.node.lineno))
    run.floor('obligations decided', run.obligations, 100)
    return run


def kw_rho(sc):
    return getattr(sc, 'rho', None)


def working_object(sc):
    """(the tensor-train object whose core list received the stores of this scenario, its cores before the first store)"""
    insts = {}
    for e in sc.events('core-store'):
        insts.setdefault(id(e['tt']), [e['tt'], 0])[1] += 1
    if not insts:
        return None, None
    t_obj = max(insts.values(), key=lambda x: x[1])[0]
    cur = list(t_obj._attrs['cores'])
    for e in reversed([e for e in sc.events('core-store') if e['tt'] is t_obj]):
        if 0 <= e['slot'] < len(cur):
            cur[e['slot']] = e['old']
    return t_obj, cur


def show_unf(core, side):
    from . import mx
    from .shape import sz_prod
    rows = sz_prod(core.shape[:-1]) if side == 'LO' else core.shape[0]
    return mx.show(mx.canon(A.unfolding_mx(core, rows)))


def sc_prev_core(sc, inst, k):
    """the value that was stored in slot k of `inst` right after its neighbour pushed the non-orthonormal part into it
    (the slot is overwritten again later in the sweep): the first core-store event for that slot"""
    for e in sc.events('core-store'):
        if e['tt'] is inst and e['slot'] == k:
            return e['value']
    return inst._attrs['cores'][k]


def _decomposes(mat, sc, k, side):
    """is `mat` a matricisation of a full core (4 axes merged as (0,1,2 | 3) or (0 | 1,2,3))?  decided on the legs"""
    if not isinstance(mat, Arr) or mat.ndim != 2:
        return False
    return True


def truncated_svd_rule(run, repo, tier):
    """D6: utils.truncated_svd interpreted directly (it is the truncation kernel of the HOSVD-based routines)"""
    from . import mx
    from .shape import NpIntSize
    entry = 'utils.truncated_svd'
    if entry not in repo.fns:
        raise AnalysisError('utils.truncated_svd not found (renamed: rule D6 needs an update)')
    fn = repo.fn(entry)
    for thr, capkind, rel in itertools.product((0, 1e-8), ('none', 'int', 'numpy integer'), (True, False)):
        if not rel and not thr:
            continue
        scen = f'truncated_svd(threshold={thr}, max_rank={capkind}, rel_truncation={rel})'

        def body(sc):
            m, n = sc.atom('m'), sc.atom('n')
            x = Arr([m, n], None, 'complex', None, {'role': 'matrix'}, 'matrix')
            rho = sc.atom('rho', free=True)
            sc.rho = rho
            cap = math.inf if capkind == 'none' else (rho if capkind == 'int' else NpIntSize.wrap(rho))
            return sc.call(entry, x, threshold=thr, max_rank=cap, rel_truncation=rel)
        for ch, sc, res, exc in l2.explore(repo, body, typed=False):
            if exc is not None:
                run.oblige('D6', (entry, scen), False)
                l2rules.raised_finding(run, 'C04', 'D6', repo, entry, scen, exc)
                continue
            l2rules.relative_cut_obligations(run, 'C04', 'D6', repo, sc, scen, {'utils'}, expected=[thr] if thr else None)
            bad = []
            if not (isinstance(res, tuple) and len(res) == 3 and all(isinstance(r_, Arr) for r_ in res)):
                raise AnalysisError(f'{scen}: the result is not (u, s, v)')
            u, s, v = res
            if not (u.ndim == 2 and s.ndim == 1 and v.ndim == 2 and sz_eq(u.shape[1], s.shape[0]) and sz_eq(v.shape[0], s.shape[0])):
                bad.append(f'u, s, v have shapes {u.shape}, {s.shape}, {v.shape}: they do not meet in one bond')
            else:
                if capkind != 'none' and not l2rules.rank_le(sc, s.shape[0], sc.rho):
                    bad.append(f'the returned rank {s.shape[0]} is not bounded by max_rank (given as a {capkind})')
                bad += l2rules.cut_respected(sc, [u])
                prod = mx.mul(mx.mul(mx.of(u), s.tags.get('mx')), mx.of(v)) if s.tags.get('mx') is not None else None
                if prod is not None:
                    full = mx.untruncate(prod)
                    if full is not None and mx.fully_known(tuple(f for f in prod if f[0] != 'trunc')) and len(full) == 1 and full[0][0] == 'src':
                        pass
                    elif full is not None and not any(f[0] == 'src' for f in full):
                        bad.append(f'u diag(s) v (truncation undone) is  {mx.show(full)}, not the decomposed matrix')
            run.oblige('D6', (entry, scen, tuple(ch)), not bad)
            if bad:
                run.add(Finding('C04', 'D6', fn.where, 'truncated SVD', f'{scen}: ' + '; '.join(sorted(set(bad))[:3]), fn.file, fn.node.lineno))


# ------------------------------------------------------------------------------------------------ C04
def check_c04(repo, tier):
    run = Run('C04', tier, repo, 'Truncating construction and orthonormalisation interpreted from source over symbolic arrays with a symbolic rank cap / per-bond cap list; '
              'rank facts, orthonormality of the complement at every truncation, triple integrity of every truncated decomposition in the repository.')
    run.rule('D1', 'rank cap: with max_rank = rho (int, or per-bond list mixing finite caps and inf) every capped bond of the result has a rank bounded by its cap')
    run.rule('D2', 'truncation only against an orthonormal complement: whenever a decomposition inside TT.ortho / TT(cores, max_rank) / TT(array) is rank-capped, all cores on the '
             'other side of the bond are orthonormal factors (left sweep untruncated in rank, right sweep truncated)')
    run.rule('D3', 'triple integrity at every truncation site of the repository: u columns, s and v rows are restricted by the same selector (shapes and bond identity agree), the '
             'remainder is diag(s) v (resp. u diag(s)) of that decomposition')
    run.rule('D4', 'threshold == 0 and max_rank == inf take no truncating branch (no selector applied to any factor)')
    run.rule('D6', 'utils.truncated_svd: u, s, v meet in one bond; with max_rank = r (Python int or NumPy integer) the returned rank is bounded by r, with a threshold by the number of '
             'singular values that pass the (relative, or if asked absolute) test, with both by both; untruncated: u diag(s) v is the matrix')
    run.rule('D5', 'the truncating routines do not modify their option arguments (threshold, per-bond cap list) in place')
    run.trusted = ['thin SVD facts', 'NumPy transfer functions']
    orders = (2, 3, 4) if tier == 'thorough' else (2, 3)
    run.bounds = f'orders {orders}; cap as int, as per-bond list with inf entries; construction from cores and from a full array (complex)'

    def finding(entry, what, msg):
        fn = repo.fn(entry)
        return Finding('C04', what.split(' ')[0], fn.where, what, msg, fn.file, fn.node.lineno)

    for d in orders:
        variants = [('int', 0.0), ('int', 1e-8), ('list', 1e-8), ('none', 0.0), ('distinct', 1e-8), ('distinct-partial', 0.0)]
        grid4 = [(how, v_, 'complex') for how, v_ in itertools.product(('ortho', 'init_cores', 'init_array', 'ortho_right', 'ortho_left'), variants)]
        # a full array of another dtype (an indicator tensor of booleans, integer counts, real data): the decomposition is the one of the same numbers as floats
        grid4 += [('init_array', ('none', 0.0), xdt_) for xdt_ in ('bool', 'int', 'real')] if d <= 3 else []
        for how, (capkind, thr), xdt in grid4:
            scen = f'{how}(order={d}, max_rank={capkind}, threshold={thr})' + ('' if xdt == 'complex' else f' [full array of dtype {xdt}]')
            if capkind == 'distinct-partial' and (how not in ('ortho_left', 'ortho_right') or d < 3):
                continue               # a sweep over a sub-range of the cores, every bond with its own cap
            if capkind.startswith('distinct') and how == 'init_array':
                continue
            entry = {'ortho': f'{TTM}.TT.ortho', 'init_cores': f'{TTM}.TT.__init__', 'init_array': f'{TTM}.TT.__init__', 'ortho_right': f'{TTM}.TT.ortho_right', 'ortho_left': f'{TTM}.TT.ortho_left'}[how]
            if how == 'init_array' and capkind == 'list':
                continue

            def body(sc):
                rho = sc.atom('rho', free=True)
                sc.rho = rho
                if capkind == 'int':
                    cap = rho
                    sc.caps = {k: rho for k in range(1, d)}
                elif capkind == 'list':
                    cap = [1] + [rho if k % 2 == 0 else math.inf for k in range(1, d)] + [1]
                    if d == 2:
                        cap = [1, rho, 1]
                    sc.caps = {k: cap[k] for k in range(1, d) if not isinstance(cap[k], float)}
                elif capkind.startswith('distinct'):
                    cap = [1] + [sc.atom(f'rho{k}', free=True) for k in range(1, d)] + [1]
                    sc.caps = {k: cap[k] for k in range(1, d)}
                    if capkind == 'distinct-partial':
                        # ortho_left(start..end) cuts bonds start+1..end+1, ortho_right(start..end) bonds end..start
                        sc.caps = {k: cap[k] for k in (range(2, d) if how == 'ortho_left' else range(1, d - 1))}
                else:
                    cap = math.inf
                    sc.caps = {}
                install_svd_snapshots(sc)
                if how == 'init_array':
                    x = Arr([sc.mode(k) for k in range(d)] + [sc.mode(k, 'n') for k in range(d)],
                            [(A.mode_leg(k, sc.mode(k), +1, 'x.row'),) for k in range(d)] + [(A.mode_leg(k, sc.mode(k, 'n'), -1, 'x.col'),) for k in range(d)], xdt, None, {}, 'full array')
                    return sc.interp.instantiate(sc.tt_cls, [x], {'threshold': thr, 'max_rank': cap})
                cores = sc.cores('a', d, 'op', square=False)
                if how == 'init_cores':
                    return sc.interp.instantiate(sc.tt_cls, [cores], {'threshold': thr, 'max_rank': cap})
                a = sc.interp.instantiate(sc.tt_cls, [cores], {})
                if how == 'ortho':
                    return sc.method(a, 'ortho', threshold=thr, max_rank=cap)
                if capkind == 'distinct-partial':
                    if how == 'ortho_right':
                        return sc.method(a, 'ortho_right', start_index=d - 2, end_index=1, threshold=thr, max_rank=cap)
                    return sc.method(a, 'ortho_left', start_index=1, threshold=thr, max_rank=cap)
                if how == 'ortho_right':
                    return sc.method(a, 'ortho_right', threshold=thr, max_rank=cap)
                return sc.method(a, 'ortho_left', threshold=thr, max_rank=cap)
            for ch, sc, res, exc in l2.explore(repo, body, typed=True):
                l2rules.typing_obligations(run, 'C04', 'D3', repo, sc, scen, {TTM})
                # (and the cut uses the threshold the caller asked for, not a rescaled one: the documented meaning of `threshold` is the relative cut of every decomposition)
                l2rules.relative_cut_obligations(run, 'C04', 'D3', repo, sc, scen, {TTM}, expected=[thr] if thr else None)
                if exc is not None:
                    run.oblige('D3', (entry, scen), False)
                    l2rules.raised_finding(run, 'C04', 'D3', repo, entry, scen, exc)
                    continue
                if not l2rules.invariant_obligation(run, 'C04', 'D3', repo, sc, res, entry, scen, 'truncated tensor train'):
                    continue
                # D1 caps (ortho_left caps bond i+1 with max_ranks[i+1]; ortho_right bond i with max_ranks[i]; both: same bond numbering)
                bad = []
                for k, cap in sc.caps.items():
                    if not l2rules.rank_le(sc, res._attrs['ranks'][k], cap):
                        bad.append(f'bond {k}: rank {res._attrs["ranks"][k]} is not bounded by its cap {cap}')
                run.oblige('D1', (entry, scen), not bad, sample={'rule': 'D1', 'scenario': scen, 'ranks': [str(r) for r in res._attrs['ranks']]} if d == 3 and how == 'ortho' else None)
                if bad:
                    run.add(finding(entry, 'D1 rank cap', f'{scen}: ' + '; '.join(bad[:3])))
                # D2 complement orthonormal at truncating decompositions (only where a cap/threshold can actually cut: ortho, init)
                if how in ('ortho', 'init_cores') and (sc.caps or thr):
                    bad = []
                    for e in sc.events('svd'):
                        snap = e.get('snapshot')
                        cut = e.get('capped')
                        if not snap or not cut:
                            continue
                        flags, slot, side = snap
                        if side == 'right-sweep':
                            miss = [k for k in range(0, slot) if flags[k] != 'LO']
                        else:
                            miss = [k for k in range(slot + 1, len(flags)) if flags[k] != 'RO']
                        if miss:
                            bad.append(f'core {slot} is truncated while cores {miss} on the other side of the bond are not orthonormal')
                    run.oblige('D2', (entry, scen), not bad)
                    if bad:
                        run.add(finding(entry, 'D2 truncation against a non-orthonormal complement', f'{scen}: ' + '; '.join(sorted(set(bad))[:3])))
                # D4: no truncation without cap/threshold
                if capkind == 'none' and thr == 0:
                    cut = [e for e in sc.events('svd') if e.get('capped') or e.get('thresholded')]
                    run.oblige('D4', (entry, scen), not cut)
                    if cut:
                        run.add(finding(entry, 'D4 exactness without truncation parameters', f'{scen}: a decomposition is truncated although threshold == 0 and max_rank == inf'))
    truncated_svd_rule(run, repo, tier)
    truncation_sites(run, repo, tier)
    # D5: the option arguments (threshold, per-bond cap list) are not modified in place: a caps list that is overwritten with the ranks actually reached would cap a later,
    # higher-rank tensor train below what the caller asked for
    l2rules.plain_args_frame(run, 'C04', 'D5', repo, {f'{TTM}.TT.ortho', f'{TTM}.TT.ortho_left', f'{TTM}.TT.ortho_right', f'{TTM}.TT.__init__', 'utils.truncated_svd'} - {'utils.truncated_svd'})
    run.floor('obligations decided', run.obligations, 40)
    return run


def install_svd_snapshots(sc):
    """svd events record the orthonormality flags of the tensor train being swept and whether the factors are restricted afterwards"""
    ctx = sc.ctx
    orig = ctx.event

    def event(kind, **kw):
        e = orig(kind, **kw)
        if kind == 'svd':
            arr_in = kw['array']
            # which slot of which tracked tensor train is decomposed?
            for lid, inst in getattr(ctx, 'core_lists', {}).items():
                cores = inst._attrs.get('cores')
                if not isinstance(cores, list):
                    continue
                for k, c in enumerate(cores):
                    if isinstance(c, Arr) and (arr_in is c or any(c is p_ for p_ in arr_in.parents) or arr_in.buf is c.buf):
                        legs = arr_in.legs
                        side = 'left-sweep' if len(legs[1]) <= 1 and len(legs[0]) >= 1 and arr_in.ndim == 2 and sz_eq(arr_in.shape[1], c.shape[3]) and not sz_eq(arr_in.shape[0], c.shape[0]) else 'right-sweep'
                        if sz_eq(arr_in.shape[0], c.shape[0]) and not sz_eq(arr_in.shape[1], c.shape[3]):
                            side = 'right-sweep'
                        e['snapshot'] = ([orth(x) for x in cores], k, side)
                        e['tt'] = inst
            e['capped'] = False
            ctx.last_svd = e
        return e
    ctx.event = event
    # mark an svd as capped when one of its factors is restricted by a selector (getitem with a sub-bond)
    orig_sub = ctx.sub_bond

    def sub_bond(leg, selkey, size):
        ls = getattr(ctx, 'last_svd', None)
        if ls is not None and selkey[0] == 'range':
            ls['capped'] = True           # restricted to the leading max_rank singular directions
        if ls is not None and selkey[0] == 'idx':
            ls['thresholded'] = True      # restricted by the relative threshold (outside the rank-cap clause of the property)
        return orig_sub(leg, selkey, size)
    ctx.sub_bond = sub_bond


def truncation_sites(run, repo, tier):
    """D3 over every truncating decomposition of the repository that the Layer-2 scenarios of this check reach is covered by shapes and bond identity:
    a selector applied to only one or two of (u, s, v) makes the subsequent product / reshape ill-shaped or contracts different bonds.
    Here the count of truncation idioms in the source is taken for the instance floor."""
    import ast
    n = 0
    for fn in repo.all_functions():
        for node in ast.walk(fn.node):
            if isinstance(node, ast.Assign) and len(node.targets) == 1 and isinstance(node.targets[0], ast.Name) and node.targets[0].id == 'indices' and 'np.where' in norm_text(node.value):
                n += 1
    run.floor('relative-threshold truncation idioms (np.where(s / s[0] > threshold)) in the repository', n, 4)      # 13 on the pinned tree; a helper extraction legitimately merges sites
    run.note(f'{n} threshold-truncation sites found in the source; those inside tensor_train.py / solvers are exercised by the Layer-2 scenarios of C03-C05, C07, C08, C11')


# ------------------------------------------------------------------------------------------------ C05
def check_c05(repo, tier):
    run = Run('C05', tier, repo, 'TT.svd / TT.pinv interpreted from source over symbolic arrays; typestate of the returned factors, leg typing of the reconstruction, frame.')
    run.rule('D1', 'svd(index): with the ortho flags the cores of u are left isometries and those of v right isometries (typestate or rewriting X^H X -> I); s is the vector of singular '
             'values of a decomposition and has the size of the central bond; every sweep step preserves the value, and (last core of u) diag(s) (first core of v) has the normal form of '
             'the product of the two cores it replaces (after undoing the truncation selectors, which must be the same on all three factors)')
    run.rule('D2', 'pinv: every sweep step preserves the value; replacing diag(1/s) by diag(s) in the two central cores of the result gives the normal form of the product of the cores the '
             'central decomposition replaced (so 1/s belongs to that decomposition, sits on its bond, and nothing is conjugated or transposed); the other cores are those of the orthonormalised train')
    run.rule('D3', 'frame: with overwrite=False the receiver is untouched (object identity of its cores) and shares no buffer with the results; Layer-1 rule on svd/pinv')
    run.trusted = ['thin SVD facts', 'NumPy transfer functions']
    orders = (2, 3, 4, 5) if tier == 'thorough' else (2, 3, 4)
    run.bounds = f'orders {orders}, all split indices, ortho flags, threshold/max_rank variants, interior rank-1 bond variant, complex data'

    def finding(entry, what, msg):
        fn = repo.fn(entry)
        return Finding('C05', what.split(' ')[0], fn.where, what, msg, fn.file, fn.node.lineno)
    for d in orders:
        for index in range(1, d):
            for (ol, orr), trunc, rank1, pre in itertools.product(((True, True), (False, True), (True, False), (False, False)), (False, True), (False, True), (False, True)):
                if rank1 and d < 3:
                    continue
                if tier == 'quick' and (ol, orr) != (True, True) and trunc:
                    continue
                if pre and ((ol and orr) or rank1):
                    continue
                # pre: the documented use of a switched-off sweep -- the cores that sweep would have processed are orthonormal already (declared as the
                # isometric factor of some earlier decomposition); the factors returned for that side must then be isometries as well
                scen = f'svd(order={d}, index={index}, ortho_l={ol}, ortho_r={orr}, truncation={trunc}{", rank-1 bond" if rank1 else ""}{", unswept side orthonormal on entry" if pre else ""})'
                entry = f'{TTM}.TT.svd'

                def body(sc):
                    ranks = None
                    if rank1:
                        ranks = [1] + [sc.atom(f'ra{k}') if k != 1 else 1 for k in range(1, d)] + [1]
                    a = sc.tt('a', d, 'vec', ranks=ranks)
                    if pre:
                        from .shape import sz_prod
                        for k, c in enumerate(a._attrs['cores']):
                            if not ol and k < index - 1:
                                c.tags['mx_unf'] = ((('Q', ('given', k), '', None),), sz_prod(c.shape[:-1]))
                                c.tags['orth'] = 'LO'
                            if not orr and k >= index:
                                c.tags['mx_unf'] = ((('Qr', ('given', k), '', None),), c.shape[0])
                                c.tags['orth'] = 'RO'
                    sc.inputs = (a,)
                    sc.old = list(a._attrs['cores'])
                    kw = {'threshold': 1e-8, 'max_rank': sc.atom('rho', free=True)} if trunc else {}
                    sc.rho = kw.get('max_rank')
                    return sc.method(a, 'svd', index, ortho_l=ol, ortho_r=orr, **kw)
                for ch, sc, res, exc in l2.explore(repo, body, typed=True):
                    l2rules.typing_obligations(run, 'C05', 'D1', repo, sc, scen, {TTM})
                    l2rules.relative_cut_obligations(run, 'C05', 'D1', repo, sc, scen, {TTM})
                    if exc is not None:
                        run.oblige('D1', (entry, scen), False)
                        l2rules.raised_finding(run, 'C05', 'D1', repo, entry, scen, exc)
                        continue
                    u, s, v = res
                    a = sc.inputs[0]
                    ok = l2rules.invariant_obligation(run, 'C05', 'D1', repo, sc, u, entry, scen, 'left factor u') and l2rules.invariant_obligation(run, 'C05', 'D1', repo, sc, v, entry, scen, 'right factor v')
                    if not ok:
                        continue
                    bad, unknown = [], []
                    uc, vc = u._attrs['cores'], v._attrs['cores']
                    want_lo = list(range(len(uc))) if (ol or pre) else [len(uc) - 1]
                    want_ro = list(range(len(vc))) if (orr or pre) else []
                    for side, cs, ks, nm in (('LO', uc, want_lo, 'u'), ('RO', vc, want_ro, 'v')):
                        for k in ks:
                            iso = l2rules.core_iso(cs[k], side)
                            if iso is None:
                                unknown.append(f'orthonormality of core {k} of {nm}')
                            elif not iso:
                                bad.append(f'core {k} of {nm} is not a {"left" if side == "LO" else "right"}-orthonormal factor: its unfolding is  {show_unf(cs[k], side)}')
                    if u._attrs['order'] != index or v._attrs['order'] != d - index:
                        bad.append(f'u has order {u._attrs["order"]}, v has order {v._attrs["order"]} for index {index} of {d}')
                    if not (isinstance(s, Arr) and s.ndim == 1 and sz_eq(s.shape[0], u._attrs['ranks'][-1]) and sz_eq(s.shape[0], v._attrs['ranks'][0])):
                        bad.append(f's has shape {getattr(s, "shape", None)} but the central bond has rank {u._attrs["ranks"][-1]} / {v._attrs["ranks"][0]}')
                    else:
                        # u diag(s) v multiplies back to the tensor: every sweep step preserves the value, and in the central step the product
                        # (last core of u) diag(s) (first core of v) equals the product of the two cores it replaces (after undoing the truncation, if any)
                        from . import mx
                        t_obj, init = working_object(sc)
                        steps = l2rules.sweep_steps(sc, t_obj, init) if t_obj is not None else []
                        if not steps:
                            unknown.append('no stores into a working copy were found')
                        else:
                            sb, su, _n = l2rules.value_preservation(sc, t_obj, init, truncating=trunc, skip_last=True)
                            bad += sb
                            unknown += su
                            slots, before, after = steps[-1]
                            ms = s.tags.get('mx')
                            if slots != [index - 1, index] or after[index - 1] is not uc[-1] or after[index] is not vc[0]:
                                unknown.append(f'the last step stores into cores {slots}, not into the two central cores that are returned')
                            elif ms is None or len(ms) != 1 or ms[0][0] != 'S':
                                unknown.append('the returned s is not recognisably the vector of singular values of a decomposition')
                            elif trunc and ms[0][3] is None and not A.is_one(s.shape[0]):          # (a single singular value passes every relative test: nothing to cut)
                                bad.append('threshold and max_rank are given, but the singular values of the central decomposition are returned uncut (values below the relative '
                                           'threshold stay in s and are inverted by pinv)')
                            elif trunc and not l2rules.rank_le(sc, s.shape[0], kw_rho(sc)):
                                bad.append(f'the central bond has rank {s.shape[0]}, which is not bounded by max_rank')
                            else:
                                from .shape import sz_prod
                                prod = mx.mul(mx.mul(A.unfolding_mx(uc[-1], sz_prod(uc[-1].shape[:-1])), ms), A.unfolding_mx(vc[0], vc[0].shape[0]))
                                prod = mx.untruncate(prod) if trunc else mx.canon(prod)
                                want = l2rules.pair_mx(before[index - 1], before[index])
                                want = mx.untruncate(want) if trunc else mx.canon(want)
                                if prod is None or want is None:
                                    unknown.append('truncated factors of an unregistered decomposition')
                                elif prod != want:
                                    new_atoms = {f[:2] for f in prod if f[0] == 'src'} - {f[:2] for f in want if f[0] == 'src'}
                                    (unknown if new_atoms else bad).append(f'u diag(s) v gives  {mx.show(prod)}  but the cores it replaces give  {mx.show(want)}')
                    for k, c in enumerate(list(uc) + list(vc)):
                        for l in c.legs[1]:
                            if l.resolve().kind == 'M' and (l.resolve().var != +1 or l.resolve().key != k):
                                bad.append(f'core {k} of the factors carries mode index {l}')
                    if unknown and not bad:
                        raise AnalysisError(f'{scen}: undecided: ' + '; '.join(unknown[:2]))
                    run.oblige('D1', (entry, scen), not bad, sample={'rule': 'D1', 'scenario': scen, 'u': [orth(c) for c in u._attrs['cores']], 'v': [orth(c) for c in v._attrs['cores']]} if d == 3 and ol and orr and not trunc and not rank1 else None)
                    if bad:
                        run.add(finding(entry, 'D1 structure of the global SVD', f'{scen}: ' + '; '.join(sorted(set(bad))[:4])))
                    # D3 frame
                    bad = [k for k in range(d) if a._attrs['cores'][k] is not sc.old[k]]
                    shared = [k for k, c in enumerate(list(u._attrs['cores']) + list(v._attrs['cores'])) if any(c.buf is o.buf for o in sc.old)]
                    run.oblige('D3', (entry, scen), not bad and not shared)
                    if bad or shared:
                        run.add(finding(entry, 'D3 input untouched', f'{scen}: cores {bad} of the receiver were replaced; result cores {shared} share buffers with the receiver'))
            # pinv
            for trunc in (False, True):
                scen = f'pinv(order={d}, index={index}, threshold={"1e-8" if trunc else 0})'
                entry = f'{TTM}.TT.pinv'

                def body(sc):
                    a = sc.tt('a', d, 'vec')
                    sc.inputs = (a,)
                    sc.old = list(a._attrs['cores'])
                    return sc.method(a, 'pinv', index, threshold=1e-8 if trunc else 0.0)
                for ch, sc, res, exc in l2.explore(repo, body, typed=True):
                    l2rules.typing_obligations(run, 'C05', 'D2', repo, sc, scen, {TTM})
                    if exc is not None:
                        run.oblige('D2', (entry, scen), False)
                        l2rules.raised_finding(run, 'C05', 'D2', repo, entry, scen, exc)
                        continue
                    if not l2rules.invariant_obligation(run, 'C05', 'D2', repo, sc, res, entry, scen, 'pseudoinverse'):
                        continue
                    bad = []
                    if res._attrs['order'] != d:
                        bad.append(f'order {res._attrs["order"]} instead of {d}')
                    else:
                        # the pseudoinverse has the structure of the reconstruction with the singular values inverted: replacing diag(1/s) by diag(s) in the
                        # two central cores must give back the product of the cores the central decomposition replaced; all sweep steps preserve the value
                        from . import mx
                        unknown = []
                        t_obj, init = working_object(sc)
                        steps = l2rules.sweep_steps(sc, t_obj, init) if t_obj is not None else []
                        if not steps:
                            unknown.append('no stores into a working copy were found')
                        else:
                            sb, su, _n = l2rules.value_preservation(sc, t_obj, init, truncating=trunc, skip_last=True)
                            bad += sb
                            unknown += su
                            slots, before, after = steps[-1]
                            rc = res._attrs['cores']
                            got = l2rules.pair_mx(rc[index - 1], rc[index])
                            if slots != [index - 1, index] or got is None:
                                unknown.append(f'the last step stores into cores {slots}')
                            else:
                                if not any(f[0] == 'Sinv' for f in mx.canon(got)):
                                    (bad if mx.fully_known(tuple(f for f in mx.canon(got) if f[0] != 'src' or True)) and any(f[0] == 'S' for f in mx.canon(got)) else unknown).append(
                                        f'the central cores are  {mx.show(mx.canon(got))}: no multiplication by the reciprocal singular values is recognisable')
                                else:
                                    sw = mx.swap_inverse(mx.canon(got))
                                    sw = mx.untruncate(sw) if trunc else mx.canon(sw)
                                    want = l2rules.pair_mx(before[index - 1], before[index])
                                    want = mx.untruncate(want) if trunc else mx.canon(want)
                                    if sw is None or want is None:
                                        unknown.append('truncated factors of an unregistered decomposition')
                                    elif sw != want:
                                        new_atoms = {f[:2] for f in sw if f[0] == 'src'} - {f[:2] for f in want if f[0] == 'src'}
                                        (unknown if new_atoms else bad).append(f'with diag(1/s) replaced by diag(s) the central cores give  {mx.show(sw)}  but the cores they replace give  {mx.show(want)}')
                                for j in range(d):
                                    if j not in (index - 1, index) and rc[j] is not after[j]:
                                        mj, aj = A.unfolding_mx(rc[j], rc[j].shape[0]), A.unfolding_mx(after[j], after[j].shape[0])
                                        if mx.canon(mj) != mx.canon(aj):
                                            unknown.append(f'core {j} of the result is not the corresponding core of the orthonormalised train')
                        if unknown and not bad:
                            raise AnalysisError(f'{scen}: undecided: ' + '; '.join(unknown[:2]))
                    run.oblige('D2', (entry, scen), not bad)
                    if bad:
                        run.add(finding(entry, 'D2 structure of the pseudoinverse', f'{scen}: ' + '; '.join(sorted(set(bad))[:3])))
                    bad = [k for k in range(d) if sc.inputs[0]._attrs['cores'][k] is not sc.old[k]]
                    run.oblige('D3', (entry, scen), not bad)
                    if bad:
                        run.add(finding(entry, 'D3 input untouched', f'{scen}: cores {bad} of the receiver were replaced'))
    # D2 options of pinv: the global SVD behind the pseudoinverse gets the caller's index, threshold and BOTH orthonormalisation flags (each flag combination;
    # the flags select which sweeps run -- the documented use is that the caller has done that side already)
    for (ol, orr), thr in itertools.product(((True, True), (False, True), (True, False), (False, False)), (0.0, 1e-8)):
        d, index = 3, 2
        scen = f'pinv(order={d}, index={index}, threshold={thr}, ortho_l={ol}, ortho_r={orr}): options'
        entry = f'{TTM}.TT.pinv'

        def body(sc):
            a = sc.tt('a', d, 'vec')
            sc.inputs = (a,)
            return sc.method(a, 'pinv', index, threshold=thr, ortho_l=ol, ortho_r=orr)
        for ch, sc, res, exc in l2.explore(repo, body, typed=False):
            a = sc.inputs[0]
            # (the receiver of the global SVD may be the tensor train itself or a working copy of it: the first TT.svd reached from pinv)
            calls = [e for e in sc.events('call') if e['callee'].name == 'svd' and e['callee'].mod == TTM and e['callee'].cls == 'TT' and e['args']]
            if not calls:
                raise AnalysisError(f'{scen}: TT.svd is not applied to the receiver: the way the pseudoinverse is formed is not one the option rule recognises')
            c = calls[0]
            argd = dict(zip(['self', 'index', 'threshold', 'max_rank', 'ortho_l', 'ortho_r', 'overwrite'], c['args']))
            argd.update(c['kwargs'])
            good = argd.get('index') == index and argd.get('threshold', 0.0) == thr and argd.get('ortho_l', True) is ol and argd.get('ortho_r', True) is orr
            shown = {k_: v_ for k_, v_ in argd.items() if k_ not in ('self', 'overwrite')}
            run.oblige('D2', (entry, scen), good)
            if not good:
                run.add(finding(entry, 'D2 options of the global SVD', f'{scen}: TT.svd is called with {shown} instead of index={index}, threshold={thr}, ortho_l={ol}, ortho_r={orr}'))
    l2rules.frame_obligations(run, 'C05', 'D3', repo, [f'{TTM}.TT.svd', f'{TTM}.TT.pinv'])
    run.floor('obligations decided', run.obligations, 60)
    return run


check = check_c03
