"""Symbolic sizes: polynomials with integer coefficients over size atoms (DESIGN.md 2.2).

Atoms denote generic positive integers.  Equality is exact polynomial identity.  Order comparisons are decided at a fixed
generic point (distinct large primes) when only *generic* atoms are involved; atoms introduced as `free` (a user-chosen rank
cap, a data-dependent number of kept singular values) have no known order relative to others except through recorded
upper-bound facts, and comparing them raises UnknownTruth (the caller explores both outcomes).
"""
from .interp import UnknownTruth

_PRIMES = [10007, 10009, 10037, 10039, 10061, 10067, 10069, 10079, 10091, 10093, 10099, 10103, 10111, 10133, 10139, 10141, 10151, 10159,
           10163, 10169, 10177, 10181, 10193, 10211, 10223, 10243, 10247, 10253, 10259, 10267, 10271, 10273, 10289, 10301, 10303, 10313,
           10321, 10331, 10333, 10337, 10343, 10357, 10369, 10391, 10399, 10427, 10429, 10433, 10453, 10457, 10459, 10463, 10477, 10487]


class Atoms:
    """registry of atoms of one scenario"""

    def __init__(self):
        self.value = {}      # atom -> generic value
        self.free = set()
        self.upper = {}      # atom -> list of Size upper bounds (facts  atom <= bound)
        self.origin = {}
        self.n = 0

    def new(self, name, free=False, upper=(), origin=None):
        if free and any(Size.of(u, self).is_const() and Size.of(u, self).const() == 1 for u in upper):
            return Size.of(1, self)          # 1 <= atom <= 1
        base, k = name, 0
        while name in self.value:
            k += 1
            name = f'{base}_{k}'
        self.value[name] = _PRIMES[self.n % len(_PRIMES)] + 20000 * (self.n // len(_PRIMES))
        self.n += 1
        if free:
            self.free.add(name)
        self.upper[name] = [Size.of(u) for u in upper]
        self.origin[name] = origin
        return Size({((name, 1),): 1}, self)

    def le(self, a, b, depth=0, facts_only=False):
        """is a <= b provable from the recorded facts (or, for generic atoms, true at the generic point)?  a, b Sizes"""
        a, b = Size.of(a, self), Size.of(b, self)
        if a == b:
            return True
        if depth > 6:
            return False
        at = a.single_atom()
        if at is not None:
            for u in self.upper.get(at, []):
                if self.le(u, b, depth + 1, facts_only):
                    return True
        if a.is_const() and b.is_const():
            return a.const() <= b.const()
        if dominates(b, a):
            return True
        # b = min(x, y) exactly (an atom created by sz_min): a <= b iff a <= x and a <= y
        bt = b.single_atom()
        if bt is not None and bt in getattr(self, 'min_of', {}):
            if all(self.le(a, u, depth + 1, facts_only) for u in self.min_of[bt]):
                return True
        return False


class Size:
    __slots__ = ('terms', 'reg')

    def __init__(self, terms, reg=None):
        self.terms = {m: c for m, c in terms.items() if c != 0}
        self.reg = reg

    @staticmethod
    def of(x, reg=None):
        if isinstance(x, Size):
            return x
        if isinstance(x, bool):
            x = int(x)
        if isinstance(x, int):
            return Size({(): x}, reg)
        if isinstance(x, float) and x == x and x not in (float('inf'), float('-inf')) and x == int(x):
            return Size({(): int(x)}, reg)
        raise TypeError(f'not a size: {x!r}')

    # ---- structure
    def is_const(self):
        return all(m == () for m in self.terms)

    def const(self):
        return self.terms.get((), 0)

    def single_atom(self):
        if len(self.terms) == 1:
            (m, c), = self.terms.items()
            if c == 1 and len(m) == 1 and m[0][1] == 1:
                return m[0][0]
        return None

    def atoms(self):
        return {a for m in self.terms for a, _ in m}

    def has_free(self):
        return bool(self.reg and (self.atoms() & self.reg.free))

    def generic(self):
        tot = 0
        for m, c in self.terms.items():
            v = c
            for a, e in m:
                v *= self.reg.value[a] ** e
            tot += v
        return tot

    def lower_bound(self):
        """a lower bound of the polynomial over all admissible atom values (generic atoms >= 2, free atoms >= 1); None if a
        non-constant term has a negative coefficient"""
        tot = 0
        for m, c in self.terms.items():
            if not m:
                tot += c
                continue
            if c < 0:
                return None
            v = c
            for a, e in m:
                v *= (1 if (self.reg is not None and a in self.reg.free) else 2) ** e
            tot += v
        return tot

    def _reg(self, o):
        return self.reg or (o.reg if isinstance(o, Size) else None)

    # ---- arithmetic
    def __add__(self, o):
        try:
            o = Size.of(o)
        except TypeError:
            return NotImplemented
        t = dict(self.terms)
        for m, c in o.terms.items():
            t[m] = t.get(m, 0) + c
        return simp(Size(t, self._reg(o)))

    __radd__ = __add__

    def __neg__(self):
        return Size({m: -c for m, c in self.terms.items()}, self.reg)

    def __sub__(self, o):
        try:
            return self + (-Size.of(o))
        except TypeError:
            return NotImplemented

    def __rsub__(self, o):
        return (-self) + o

    def __mul__(self, o):
        try:
            o = Size.of(o)
        except TypeError:
            return NotImplemented
        t = {}
        for m1, c1 in self.terms.items():
            for m2, c2 in o.terms.items():
                d = dict(m1)
                for a, e in m2:
                    d[a] = d.get(a, 0) + e
                m = tuple(sorted(d.items()))
                t[m] = t.get(m, 0) + c1 * c2
        return simp(Size(t, self._reg(o)))

    __rmul__ = __mul__

    def __pow__(self, k):
        if not isinstance(k, int) or k < 0:
            return NotImplemented
        r = Size({(): 1}, self.reg)
        for _ in range(k):
            r = r * self
        return r

    def divide(self, o):
        """exact division by a monomial (or equal polynomial); returns None if not exact"""
        o = Size.of(o)
        if o == self:
            return Size({(): 1}, self.reg)
        if len(o.terms) != 1:
            return None
        (mo, co), = o.terms.items()
        t = {}
        for m, c in self.terms.items():
            if c % co:
                return None
            d = dict(m)
            for a, e in mo:
                if d.get(a, 0) < e:
                    return None
                d[a] -= e
                if d[a] == 0:
                    del d[a]
            t[tuple(sorted(d.items()))] = c // co
        return simp(Size(t, self._reg(o)))

    def __truediv__(self, o):
        if type(o).__name__ == 'Arr':
            return NotImplemented          # size / numerical value: the array's reflected operator gives a numerical value
        r = self.divide(o)
        if r is None:
            raise UnknownTruth(f'size division {self} / {o} is not exact')
        return r

    def __floordiv__(self, o):
        """n // B: exact division where it is one; otherwise, for a single free data size n and a constant B > 1, a fresh unknown q with q <= n -- the REMAINDER
        n - B q is dropped, which is recorded (event 'floor-div') for the rules that ask whether every item is processed"""
        if type(o).__name__ == 'Arr':
            return NotImplemented
        r = self.divide(o)
        if r is not None:
            return r
        if self.reg is not None and isinstance(o, Size) and o.single_atom() in getattr(self.reg, 'min_of', {}):
            # n // min(n, B): one block when n <= B (exact), n // B blocks of B otherwise
            ops = self.reg.min_of[o.single_atom()]
            consts = [x.const() for x in ops if x.is_const()]
            if len(consts) == 1 and consts[0] > 1 and any(x == self for x in ops):
                o = consts[0]
        if self.reg is not None and isinstance(o, int) and not isinstance(o, bool) and o > 1 and self.single_atom() is not None:
            memo = self.reg.__dict__.setdefault('floordivs', {})
            key = (self.single_atom(), o)
            if key not in memo:
                memo[key] = self.reg.new('q', free=True, upper=[self], origin=f'floor division {self} // {o}')
                try:
                    from . import arr as _A
                    if _A.CTX is not None:
                        _A.CTX.event('floor-div', dividend=self, divisor=o, quotient=memo[key],
                                     detail=f'{self} // {o}: the remainder {self} mod {o} is not part of the quotient')
                except ImportError:
                    pass
            return memo[key]
        raise UnknownTruth(f'size division {self} // {o} is not exact')

    def __rtruediv__(self, o):
        r = Size.of(o, self.reg).divide(self)
        if r is None:
            raise UnknownTruth(f'size division {o} / {self} is not exact')
        return r

    __rfloordiv__ = __rtruediv__

    def __mod__(self, o):
        if self.divide(o) is not None:
            return 0
        try:
            from . import arr as _A
            if _A.CTX is not None:
                _A.CTX.event('size-mod', dividend=self, divisor=o)          # (the code looks at the remainder: a blocked loop may handle it)
        except ImportError:
            pass
        raise UnknownTruth(f'{self} mod {o}')

    def __int__(self):
        if self.is_const():
            return self.const()
        raise TypeError(f'symbolic size {self} used where a concrete integer is required')

    __index__ = __int__

    # ---- comparison
    def __eq__(self, o):
        try:
            o = Size.of(o)
        except TypeError:
            return False
        return self.terms == o.terms

    def __ne__(self, o):
        return not self.__eq__(o)

    def __hash__(self):
        return hash(tuple(sorted(self.terms.items())))

    def _cmp(self, o, op):
        try:
            o = Size.of(o, self.reg)
        except TypeError:
            import math
            if isinstance(o, float) and math.isinf(o):
                return {'<': o > 0, '<=': o > 0, '>': o < 0, '>=': o < 0}[op]
            if isinstance(o, float):
                # comparison with a non-integral float: generic sizes are large
                return {'<': False, '<=': False, '>': True, '>=': True}[op] if not self.is_const() else \
                    {'<': self.const() < o, '<=': self.const() <= o, '>': self.const() > o, '>=': self.const() >= o}[op]
            return NotImplemented
        if self == o:
            return op in ('<=', '>=')
        if True:
            reg = self.reg or o.reg
            if reg is not None:
                if reg.le(self, o):
                    if op in ('<=',):
                        return True
                    if op in ('>',):
                        return False
                if reg.le(o, self):
                    if op in ('>=',):
                        return True
                    if op in ('<',):
                        return False
                # free atoms are positive integers: comparisons with constants <= 0 are decided
                if o.is_const() and o.const() <= 0 and all(c > 0 for c in self.terms.values()):
                    return op in ('>', '>=')
                if self.is_const() and self.const() <= 0 and all(c > 0 for c in o.terms.values()):
                    return op in ('<', '<=')
            d_ = self - o
            if isinstance(d_, Size):
                lb, ub = d_.lower_bound(), (-d_).lower_bound()
                if lb is not None:
                    if lb > 0:
                        return op in ('>', '>=')
                    if lb >= 0 and op in ('>=', '<'):
                        return op == '>='
                if ub is not None:
                    if ub > 0:
                        return op in ('<', '<=')
                    if ub >= 0 and op in ('<=', '>'):
                        return op == '<='
            if dominates(self, o):        # self >= o for all positive integer values of the atoms, and self != o structurally
                strict = dominates(self - 1, o) if not isinstance(self - 1, int) else False
                if op == '>=':
                    return True
                if op == '<':
                    return False
                if strict:
                    return op == '>'
            if dominates(o, self):
                strict = dominates(o - 1, self) if not isinstance(o - 1, int) else False
                if op == '<=':
                    return True
                if op == '>':
                    return False
                if strict:
                    return op == '<'
            raise UnknownTruth(f'order of {self} and {o} is not determined')

    def __lt__(self, o): return self._cmp(o, '<')
    def __le__(self, o): return self._cmp(o, '<=')
    def __gt__(self, o): return self._cmp(o, '>')
    def __ge__(self, o): return self._cmp(o, '>=')

    def __bool__(self):
        if self.is_const():
            return self.const() != 0
        return True

    def __repr__(self):
        if not self.terms:
            return '0'
        parts = []
        for m, c in sorted(self.terms.items(), key=lambda x: (len(x[0]), str(x[0]))):
            mono = '*'.join(a if e == 1 else f'{a}^{e}' for a, e in m)
            if not mono:
                parts.append(str(c))
            elif c == 1:
                parts.append(mono)
            else:
                parts.append(f'{c}*{mono}')
        return '+'.join(parts).replace('+-', '-')


def dominates(p, q):
    """sufficient test for p >= q for all assignments of positive integers to the atoms:
    every negative term of p - q is covered by a positive term whose monomial it divides, with at least its coefficient"""
    p, q = Size.of(p), Size.of(q)
    d = {}
    for m, c in p.terms.items():
        d[m] = d.get(m, 0) + c
    for m, c in q.terms.items():
        d[m] = d.get(m, 0) - c
    pos = {m: c for m, c in d.items() if c > 0}
    neg = {m: -c for m, c in d.items() if c < 0}
    for m, c in neg.items():
        dm = dict(m)
        for mp, cp in sorted(pos.items(), key=lambda x: len(x[0])):
            if cp <= 0:
                continue
            dp = dict(mp)
            if all(dp.get(a, 0) >= e for a, e in dm.items()):
                use = min(c, cp)
                pos[mp] -= use
                c -= use
                if c == 0:
                    break
        if c > 0:
            return False
    return True


def simp(s):
    """constants come back as python ints"""
    if not isinstance(s, Size):
        return s
    if s.is_const():
        return s.const()
    return s


def sz_eq(a, b):
    try:
        return Size.of(a) == Size.of(b)
    except TypeError:
        return a == b


def sz_prod(xs, reg=None):
    r = 1
    for x in xs:
        r = r * x
    return r


class NpIntSize(Size):
    """a size that arrives as a NumPy integer scalar (np.int64(r): an entry of a ranks array): isinstance(x, int) is False for it"""
    __slots__ = ()

    @staticmethod
    def wrap(x):
        return NpIntSize(dict(x.terms), x.reg)


def sz_min(reg, a, b, origin=None):
    """min of two sizes: a concrete int when decidable, else a fresh atom with both upper bounds"""
    import math
    if isinstance(a, float) and math.isinf(a):
        return b
    if isinstance(b, float) and math.isinf(b):
        return a
    sa, sb = Size.of(a, reg), Size.of(b, reg)
    if sa == sb:
        return simp(sa)
    if sa.is_const() and sb.is_const():
        return min(sa.const(), sb.const())
    if reg.le(sa, sb, facts_only=True):
        return simp(sa)
    if reg.le(sb, sa, facts_only=True):
        return simp(sb)
    # order unknown for the quantified inputs: a fresh atom bounded by both (the analysis then covers both outcomes at once);
    # the same pair always yields the same atom (u.shape[1], s.shape[0], v.shape[0] are capped to one common size)
    key = frozenset((sa, sb))
    memo = reg.__dict__.setdefault('min_memo', {})
    if key in memo:
        return memo[key]
    memo[key] = reg.new('k', free=True, upper=[sa, sb], origin=origin or f'min({sa},{sb})')
    at = memo[key].single_atom() if isinstance(memo[key], Size) else None
    if at is not None:
        reg.__dict__.setdefault('min_of', {})[at] = (sa, sb)
    return memo[key]
    return reg.new('k', free=True, upper=[sa, sb], origin=origin or f'min({sa},{sb})')
