"""C01  TT arithmetic equals dense linear algebra -- structural clauses (DESIGN.md 3/C01).
tensor_train.py interpreted over the Layer-2 array domain: block layout of sums, dtype propagation, scalar / transposition
structure, leg order of full / matricize / element, constructors, typing of residual_error."""
import itertools
import math

from . import arr as A
from . import blocks, l2, l2rules
from .arr import Arr, SymIdx
from .core import AnalysisError, Finding, Run, norm_text
from .shape import Size, sz_eq

TTM = 'tensor_train'


def follow(v):
    """(input core identity, accumulated scalar factor) of a value obtained from an input core by copies / scalar multiples / conj"""
    c = 1
    seen = 0
    while isinstance(v, Arr) and seen < 50:
        seen += 1
        if 'scale' in v.tags and v.tags['scale'][1] is not v:
            c = c * v.tags['scale'][0]
            v = v.tags['scale'][1]
            continue
        if 'input' in v.tags:
            return v.tags['input'], c
        if v.origin in ('copy', 'conj', 'astype') and v.parents:
            v = v.parents[0]
            continue
        break
    return None, c


def legs_sig(core):
    return [tuple((l.resolve().kind, l.resolve().key, l.resolve().var, l.resolve().conj) for l in g) for g in core.legs]


DT_PATTERNS = {1: [('real',), ('complex',)], 2: [('real', 'real'), ('real', 'complex'), ('complex', 'real')],
               3: [('real', 'real', 'real'), ('real', 'complex', 'real'), ('complex', 'complex', 'complex'), ('real', 'real', 'complex')]}


def check(repo, tier):
    run = Run('C01', tier, repo, 'tensor_train.py is interpreted from its source over symbolic arrays (concrete order, symbolic ranks and mode sizes, per-core dtype class); '
              'rules on block stores, legs, provenance of cores and dtype events.')
    run.rule('D1', 'sum: every result core is a zero array into which exactly the two operand cores are stored, in bounds, in disjoint blocks or additively (all orders incl. 1)')
    run.rule('D2', 'dtype: no possibly-complex value is stored into a real array by any value-level operation (mixed real/complex operands, per core)')
    run.rule('D3', 'scalar multiple: the cores are copies of the operand cores with scalar factors whose product is the scalar; difference = sum with factor -1 on the second '
             'operand; transpose swaps row/column index (and metadata) of exactly the requested cores and conjugates every core iff asked; conj/copy keep the structure')
    run.rule('D4', 'full: axes are (rows of sites 0..d-1, columns of sites 0..d-1); matricize: (rows in C order) x (columns in C order); element: row index k taken from '
             'indices[k], column index from indices[d+k]')
    run.rule('D5', 'constructors zeros/ones/eye/unit/rand/uniform: class invariant with the requested dims/ranks, boundary ranks 1; eye stores the identity on the (row, column) axes')
    run.rule('D6', 'residual_error: operator column contracted with the lhs mode, stacked blocks conformable; operator product: column of the left factor with row of the right factor, site by site')
    run.rule('D7', 'every returned tensor train satisfies the class invariant (cores[k].shape == (ranks[k], row_dims[k], col_dims[k], ranks[k+1]))')
    run.rule('D8', 'norm: p = 2 is np.linalg.norm of ALL entries of one core of a tensor train whose other cores are orthonormal factors (left of it left-, right of it right-orthonormal) and which was obtained from copies of the '
             'receiver\'s cores (row and column index merged for operators) by value-preserving sweep steps; p = 1 is a maximum over the matricisation of the train with the row index '
             'of every core summed; the receiver is not modified')
    run.trusted = ['NumPy transfer functions (ttsa/fakelib.py)', 'definition of the TT format']
    orders = (1, 2, 3, 4) if tier == 'thorough' else (1, 2, 3)
    run.bounds = f'orders {orders}; operators and vectors; per-core real/complex patterns; symbolic ranks and mode sizes, plus size-1 modes'

    def F(qual, what, msg, line=None):
        fn = repo.fn(qual)
        return Finding('C01', what.split(' ')[0], fn.where, what, msg, fn.file, line or fn.node.lineno)

    def run_scen(name, body, typed=False):
        try:
            return l2.explore(repo, body, typed=typed)
        except AnalysisError:
            raise

    def dtype_events(sc, scen, entry):
        for e in sc.events('complex-loss'):
            where, cons, f, ln = l2rules.ev_where(repo, e, {TTM})
            run.oblige('D2', (where, cons), False)
            run.add(Finding('C01', 'D2', where, cons, f'{scen}: {e["detail"]}', f, ln))

    # ------------------------------------------------------------------ D1/D2/D3: add, sub
    for d in orders:
        pats = DT_PATTERNS.get(d, [('real',) * d, ('complex',) * d, tuple('complex' if k == d - 1 else 'real' for k in range(d))])
        for pa, pb in itertools.product(pats, repeat=2):
            if tier == 'quick' and d == 3 and pa != pats[0] and pb != pats[0]:
                continue
            for op in ('__add__', '__sub__'):
                scen = f'{op}(order={d}, dtypes self={pa}, other={pb})'
                entry = f'{TTM}.TT.{op}'

                def body(sc):
                    a = sc.tt('a', d, 'op', square=False, dtype=list(pa))
                    b = sc.tt('b', d, 'op', square=False, dtype=list(pb), row=a._attrs['row_dims'], col=a._attrs['col_dims'])
                    sc.inputs = (a, b)
                    return sc.method(a, op, b)
                for ch, sc, res, exc in run_scen(scen, body):
                    if exc is not None:
                        run.oblige('D1', (entry, scen), False)
                        l2rules.raised_finding(run, 'C01', 'D1', repo, entry, scen, exc)
                        continue
                    dtype_events(sc, scen, entry)
                    ok = l2rules.invariant_obligation(run, 'C01', 'D7', repo, sc, res, entry, scen)
                    if not ok:
                        continue
                    a, b = sc.inputs
                    want_ranks = [1] + [a._attrs['ranks'][k] + b._attrs['ranks'][k] for k in range(1, d)] + [1]
                    good = all(sz_eq(x, y) for x, y in zip(res._attrs['ranks'], want_ranks))
                    run.oblige('D1', (entry, scen, 'ranks'), good)
                    if not good:
                        run.add(F(entry, 'D1 ranks of the sum', f'{scen}: result ranks {res._attrs["ranks"]}, expected {want_ranks}'))
                    sign = 1
                    for k, c in enumerate(res._attrs['cores']):
                        stores, probs = blocks.analyse(c)
                        ex = c.tags.get('expr') if isinstance(c, Arr) else None
                        vv = c
                        while not stores and isinstance(vv, Arr) and vv.origin in ('astype', 'copy') and vv.parents and not ex:
                            vv = vv.parents[0]
                            ex = vv.tags.get('expr')
                        if not stores and ex and ex[0] in ('add', 'sub') and all(isinstance(o_, Arr) for o_ in ex[1]):
                            # the core is written directly as  A + B  (legitimate where the two blocks coincide, i.e. for order 1): two additive full blocks
                            full = tuple(('all',) for _ in c.shape)
                            second = ex[1][1] if ex[0] == 'add' else -ex[1][1]
                            stores = [{'sel': full, 'value': ex[1][0], 'mode': 'set', 'node': None}, {'sel': full, 'value': second, 'mode': 'add', 'node': None}]
                            if not (d == 1):
                                probs = [('overlap', stores[0], stores[1], 'the cores of the operands are added entry-wise although the sum needs separate blocks')]
                        srcs = [follow(st['value']) for st in stores]
                        names = sorted(str(s[0]) for s in srcs)
                        good = not probs and names == sorted([str(('a', k)), str(('b', k))])
                        run.oblige('D1', (entry, scen, f'core{k}'), good, sample={'rule': 'D1', 'scenario': scen, 'core': k, 'blocks': [str(st['sel']) for st in stores]} if d == 2 and k == 0 and pa == pats[0] and pb == pats[0] else None)
                        if probs:
                            for kind, s1, s2, why in probs:
                                node = (s2 or s1).get('node')
                                run.add(Finding('C01', 'D1', repo.fn(entry).where, norm_text(node, 120) if node is not None else 'block store',
                                                f'{scen}: core {k} of the sum: {why} (blocks {s1["sel"]}' + (f' and {s2["sel"]})' if s2 else ')'), repo.fn(entry).file, getattr(node, 'lineno', None)))
                        elif not good:
                            run.add(F(entry, 'D1 blocks of the sum', f'{scen}: core {k} of the sum is assembled from {names} instead of one block of each operand'))
                        for (src, coef), st in zip(srcs, stores):
                            if src is not None and src[0] == 'b':
                                sign = sign * coef
                            elif src is not None and coef != 1:
                                sign = None
                    want_sign = 1 if op == '__add__' else -1
                    good = sign == want_sign
                    run.oblige('D3', (entry, scen, 'sign'), good)
                    if not good:
                        run.add(F(entry, 'D3 sign of the second operand', f'{scen}: the blocks of the second operand carry the total factor {sign}, expected {want_sign}'))
                    # dtype of each core: complex iff one of the operand cores is complex
                    for k, c in enumerate(res._attrs['cores']):
                        want = 'complex' if 'complex' in (pa[k], pb[k]) else 'real'
                        good = c.dt == want or (c.dt == 'complex' and want == 'real')
                        run.oblige('D2', (entry, scen, f'dtype{k}'), good)
                        if not good:
                            run.add(F(entry, 'D2 dtype of the sum', f'{scen}: core {k} has dtype class {c.dt} but an operand core is {want}'))
    # ------------------------------------------------------------------ D3: scalar multiple, transpose, conj, copy
    for d in orders:
        for scalar in (2.5, 1 - 2j):
            scen = f'__mul__(order={d}, scalar={scalar})'
            for meth in ('__mul__', '__rmul__'):
                entry = f'{TTM}.TT.{meth}'

                def body(sc):
                    a = sc.tt('a', d, 'op', square=False, dtype='real')
                    sc.inputs = (a,)
                    return sc.method(a, meth, scalar)
                for ch, sc, res, exc in run_scen(scen, body):
                    if exc is not None:
                        run.oblige('D3', (entry, scen), False)
                        l2rules.raised_finding(run, 'C01', 'D3', repo, entry, scen, exc)
                        continue
                    if not l2rules.invariant_obligation(run, 'C01', 'D7', repo, sc, res, entry, scen):
                        continue
                    prod, bad = 1, []
                    for k, c in enumerate(res._attrs['cores']):
                        src, coef = follow(c)
                        if src != ('a', k):
                            bad.append(f'core {k} does not stem from core {k} of the operand')
                        prod = prod * coef
                        if c.buf is sc.inputs[0]._attrs['cores'][k].buf:
                            bad.append(f'core {k} shares its buffer with the operand')
                    good = not bad and abs(complex(prod) - complex(scalar)) < 1e-12
                    run.oblige('D3', (entry, scen), good)
                    if not good:
                        run.add(F(entry, 'D3 scalar multiple', f'{scen}: ' + ('; '.join(bad) if bad else f'the product of the core factors is {prod}, expected {scalar}')))
                    want_dt = 'complex' if isinstance(scalar, complex) else 'real'
                    good = any(c.dt == 'complex' for c in res._attrs['cores']) == (want_dt == 'complex')
                    run.oblige('D2', (entry, scen, 'dtype'), good)
                    if not good:
                        run.add(F(entry, 'D2 dtype of the scalar multiple', f'{scen}: no core became complex'))
        # transpose
        core_sets = [None, [0], list(range(d))[-1:], []] if d > 1 else [None, []]          # ([]: an empty selection transposes nothing -- it is not 'no selection given')
        for cores_arg, conjugate in itertools.product(core_sets, (False, True)):
            scen = f'transpose(order={d}, cores={cores_arg}, conjugate={conjugate})'
            entry = f'{TTM}.TT.transpose'

            def body(sc):
                # one site with trivial row/column dimension: its core must be conjugated as well
                row = [sc.mode(k) if k != d - 1 or d == 1 else 1 for k in range(d)]
                col = [sc.mode(k, 'n') if k != d - 1 or d == 1 else 1 for k in range(d)]
                a = sc.tt('a', d, 'op', square=False, dtype='complex', row=row, col=col)
                sc.inputs = (a,)
                sc.sig0 = [legs_sig(c) for c in a._attrs['cores']]
                return sc.method(a, 'transpose', cores=cores_arg, conjugate=conjugate)
            for ch, sc, res, exc in run_scen(scen, body):
                if exc is not None:
                    run.oblige('D3', (entry, scen), False)
                    l2rules.raised_finding(run, 'C01', 'D3', repo, entry, scen, exc)
                    continue
                if not l2rules.invariant_obligation(run, 'C01', 'D7', repo, sc, res, entry, scen):
                    continue
                sel = list(range(d)) if cores_arg is None else cores_arg
                bad = []
                for k, c in enumerate(res._attrs['cores']):
                    s0 = sc.sig0[k]
                    want = [s0[0], s0[2], s0[1], s0[3]] if k in sel else list(s0)
                    if conjugate and k in sel:
                        want = [tuple((kd, key, -var if kd == 'M' else var, (not cj) if kd == 'R' else cj) for kd, key, var, cj in g) for g in want]
                    got = legs_sig(c)
                    if got != want:
                        bad.append(f'core {k}: axes carry {c.legs}')
                    if conjugate and k in sel and c.origin != 'conj' and 'conj' not in [p.origin for p in c.parents] and c.dt == 'complex' and not _was_conjugated(c):
                        bad.append(f'core {k} is not conjugated')
                run.oblige('D3', (entry, scen), not bad, sample={'rule': 'D3', 'scenario': scen, 'verdict': 'held'} if d == 2 and conjugate and cores_arg is None else None)
                if bad:
                    run.add(F(entry, 'D3 transpose structure', f'{scen}: ' + '; '.join(bad[:3])))
                a = sc.inputs[0]
                shared = [k for k, c in enumerate(res._attrs['cores']) if False]
        # conj / copy
        for meth in ('conj', 'copy'):
            scen = f'{meth}(order={d})'
            entry = f'{TTM}.TT.{meth}'

            def body(sc):
                a = sc.tt('a', d, 'op', square=False, dtype='complex')
                sc.inputs = (a,)
                sc.sig0 = [legs_sig(c) for c in a._attrs['cores']]
                return sc.method(a, meth)
            for ch, sc, res, exc in run_scen(scen, body):
                if exc is not None:
                    run.oblige('D3', (entry, scen), False)
                    l2rules.raised_finding(run, 'C01', 'D3', repo, entry, scen, exc)
                    continue
                if not l2rules.invariant_obligation(run, 'C01', 'D7', repo, sc, res, entry, scen):
                    continue
                bad = []
                for k, c in enumerate(res._attrs['cores']):
                    want = sc.sig0[k]
                    if meth == 'conj':
                        want = [tuple((kd, key, -var if kd == 'M' else var, (not cj) if kd == 'R' else cj) for kd, key, var, cj in g) for g in want]
                        if not _was_conjugated(c):
                            bad.append(f'core {k} is not conjugated')
                    if legs_sig(c) != want:
                        bad.append(f'core {k}: axes carry {c.legs}')
                    if meth == 'copy' and c.buf is sc.inputs[0]._attrs['cores'][k].buf:
                        bad.append(f'core {k} of the copy shares its buffer with the original')
                run.oblige('D3', (entry, scen), not bad)
                if bad:
                    run.add(F(entry, f'D3 {meth} structure', f'{scen}: ' + '; '.join(bad[:3])))
    # ------------------------------------------------------------------ D4: full, matricize, element
    for d in orders:
        for role, rank1 in (('op', False), ('vec', False), ('op', True), ('vec', True)):
          if rank1 and d < 2:
              continue
          # (all bonds of rank one: a plain Kronecker / outer product of the core matrices, the case a fast path would single out)
          scen = f'full(order={d}, {role}' + (', all ranks 1' if rank1 else '') + ')'
          entry = f'{TTM}.TT.full'
          if True:
            def body(sc):
                a = sc.tt('a', d, role, square=False, **({'ranks': [1] * (d + 1)} if rank1 else {}))
                return sc.method(a, 'full')
            for ch, sc, res, exc in run_scen(scen, body):
                if exc is not None:
                    run.oblige('D4', (entry, scen), False)
                    l2rules.raised_finding(run, 'C01', 'D4', repo, entry, scen, exc)
                    continue
                want = [('M', k, +1) for k in range(d)] + ([('M', k, -1) for k in range(d)] if role == 'op' else [None] * d)
                got = []
                for g in res.legs:
                    got.append(tuple((l.resolve().kind, l.resolve().key, l.resolve().var) for l in g)[0] if len(g) == 1 else (None if not g else 'group'))
                good = isinstance(res, Arr) and res.ndim == 2 * d and got == want
                run.oblige('D4', (entry, scen), good, sample={'rule': 'D4', 'scenario': scen, 'axes': str(res.legs)} if d == 3 and role == 'op' else None)
                if not good:
                    run.add(F(entry, 'D4 axis order of full()', f'{scen}: the axes of the result carry {res.legs}, expected rows of sites 0..{d - 1} then columns of sites 0..{d - 1}'))
        for role in ('op', 'vec'):
            # mixed unit modes: one site at a time has a column (resp. row) dimension of size one while the others are general
            unit_variants = [None] + ([(side, k) for side in ('col', 'row') for k in range(d)] if role == 'op' and d >= 2 else [])
            for uv in unit_variants:
                scen = f'matricize(order={d}, {role}' + (f', {uv[0]}_dims[{uv[1]}] = 1' if uv else '') + ')'
                entry = f'{TTM}.TT.matricize'

                def body(sc):
                    kw = {}
                    if uv:
                        rows_ = [sc.mode(k) for k in range(d)]
                        cols_ = [sc.mode(k, 'n') for k in range(d)]
                        (cols_ if uv[0] == 'col' else rows_)[uv[1]] = 1
                        kw = {'row': rows_, 'col': cols_}
                    a = sc.tt('a', d, role, square=False, **kw)
                    return sc.method(a, 'matricize')
                for ch, sc, res, exc in run_scen(scen, body):
                    if exc is not None:
                        run.oblige('D4', (entry, scen), False)
                        l2rules.raised_finding(run, 'C01', 'D4', repo, entry, scen, exc)
                        continue
                    rows = [(l.resolve().kind, l.resolve().key, l.resolve().var) for l in res.legs[0]] if res.ndim >= 1 else []
                    cols = [(l.resolve().kind, l.resolve().key, l.resolve().var) for l in res.legs[1]] if res.ndim == 2 else []
                    want_rows = [('M', k, +1) for k in range(d) if not (uv and uv == ('row', k))]
                    want_cols = [('M', k, -1) for k in range(d) if not (uv and uv == ('col', k))]
                    good = rows == want_rows and (cols == want_cols if role == 'op' else res.ndim == 1)
                    run.oblige('D4', (entry, scen), good)
                    if not good:
                        run.add(F(entry, 'D4 index order of matricize()', f'{scen}: result indices {res.legs}, expected (rows of sites 0..{d - 1} in C order) x (columns likewise)'))
        scen = f'element(order={d})'
        entry = f'{TTM}.TT.element'

        def body(sc):
            a = sc.tt('a', d, 'op', square=False)
            idx = [SymIdx(0, a._attrs['row_dims'][k], f'x{k}') for k in range(d)] + [SymIdx(0, a._attrs['col_dims'][k], f'y{k}') for k in range(d)]
            sc.idx = idx
            return sc.method(a, 'element', idx)
        for ch, sc, res, exc in run_scen(scen, body):
            if exc is not None:
                run.oblige('D4', (entry, scen), False)
                l2rules.raised_finding(run, 'C01', 'D4', repo, entry, scen, exc)
                continue
            used, times = {}, {}
            for e in sc.events('index-drop'):
                for l in e['legs']:
                    l = l.resolve()
                    if l.kind == 'M':
                        used[(l.key, l.var)] = e['index']
                        times[(l.key, l.var)] = times.get((l.key, l.var), 0) + 1
            bad = []
            # every core enters the entry exactly once (the first and the last core of an order-1 train are the same core)
            twice = sorted(k for k, n_ in times.items() if n_ > 1)
            if twice:
                bad.append(f'the mode indices {twice} (site, row/column) are selected more than once: a core enters the product twice')
            for k in range(d):
                if used.get((k, +1)) is not sc.idx[k]:
                    bad.append(f'row index of site {k} is taken from {used.get((k, +1))} instead of indices[{k}]')
                if used.get((k, -1)) is not sc.idx[d + k]:
                    bad.append(f'column index of site {k} is taken from {used.get((k, -1))} instead of indices[{d + k}]')
            good = not bad and isinstance(res, Arr) and res.ndim == 0
            run.oblige('D4', (entry, scen), good)
            if not good:
                run.add(F(entry, 'D4 element indexing', f'{scen}: ' + ('; '.join(bad[:3]) or f'result is not a scalar: {res!r}')))
    # ------------------------------------------------------------------ D5: constructors
    for d in orders:
        def ctor(name, mk):
            scen = f'{name}(order={d})'
            entry = f'{TTM}.{name}'
            for ch, sc, res, exc in run_scen(scen, mk):
                if exc is not None:
                    run.oblige('D5', (entry, scen), False)
                    l2rules.raised_finding(run, 'C01', 'D5', repo, entry, scen, exc)
                    continue
                if not l2rules.invariant_obligation(run, 'C01', 'D5', repo, sc, res, entry, scen):
                    continue
                want = sc.want
                bad = []
                for key in ('row_dims', 'col_dims', 'ranks'):
                    if key in want and not (len(want[key]) == len(res._attrs[key]) and all(sz_eq(x, y) for x, y in zip(want[key], res._attrs[key]))):
                        bad.append(f'{key} = {res._attrs[key]}, expected {want[key]}')
                if not (sz_eq(res._attrs['ranks'][0], 1) and sz_eq(res._attrs['ranks'][-1], 1)):
                    bad.append(f'boundary ranks {res._attrs["ranks"][0]}, {res._attrs["ranks"][-1]}')
                if 'check' in want:
                    bad += want['check'](sc, res)
                run.oblige('D5', (entry, scen), not bad)
                if bad:
                    run.add(F(entry, f'D5 {name}', f'{scen}: ' + '; '.join(bad[:3])))

        def dims(sc, w='m'):
            return [sc.mode(k, w) for k in range(d)]

        def ranks(sc):
            return [1] + [sc.atom(f'r{k}') for k in range(1, d)] + [1]

        def mk_zeros(sc, name='zeros'):
            r, c, rk = dims(sc), dims(sc, 'n'), ranks(sc)
            sc.want = {'row_dims': r, 'col_dims': c, 'ranks': rk}
            return sc.call(f'{TTM}.{name}', r, c, rk)
        for nm in ('zeros', 'ones', 'rand'):
            ctor(nm, lambda sc, nm=nm: mk_zeros(sc, nm))

        def mk_zeros_int(sc):
            r, c = dims(sc), dims(sc, 'n')
            rr = sc.atom('r')
            sc.want = {'row_dims': r, 'col_dims': c, 'ranks': [1] + [rr] * (d - 1) + [1]}
            return sc.call(f'{TTM}.zeros', r, c, rr)
        ctor('zeros', mk_zeros_int)

        def mk_eye(sc):
            r = dims(sc)
            sc.want = {'row_dims': r, 'col_dims': r, 'ranks': [1] * (d + 1)}

            def chk(sc, res):
                out = []
                for k, c in enumerate(res._attrs['cores']):
                    st = c.tags.get('stores', [])
                    if len(st) != 1 or not isinstance(st[0]['value'], Arr) or st[0]['value'].tags.get('const') != 'eye' or st[0]['sel'] != (('int', 0), ('all',), ('all',), ('int', 0)):
                        out.append(f'core {k} is not np.eye stored on the (row, column) axes of rank slot (0, 0)')
                return out
            sc.want['check'] = chk
            return sc.call(f'{TTM}.eye', r)
        ctor('eye', mk_eye)

        def mk_unit(sc):
            r = dims(sc)
            inds = [SymIdx(0, r[k], f'i{k}') for k in range(d)]
            sc.want = {'row_dims': r, 'col_dims': [1] * d, 'ranks': [1] * (d + 1)}

            def chk(sc, res):
                out = []
                for k, c in enumerate(res._attrs['cores']):
                    st = c.tags.get('stores', [])
                    if len(st) != 1 or st[0]['sel'] != (('int', 0), ('int', inds[k]), ('int', 0), ('int', 0)) or st[0]['value'] != 1:
                        out.append(f'core {k}: the single 1 is not stored at position inds[{k}] of the row axis ({[s["sel"] for s in st]})')
                return out
            sc.want['check'] = chk
            return sc.call(f'{TTM}.unit', r, inds)
        ctor('unit', mk_unit)

        def mk_uniform(sc):
            r, rk = dims(sc), ranks(sc)
            sc.want = {'row_dims': r, 'col_dims': [1] * d, 'ranks': rk}
            return sc.call(f'{TTM}.uniform', r, ranks=rk)
        ctor('uniform', mk_uniform)

        # tt.canonical and tt.rand(values) are not part of the property statement (canonical raises for e.g. canonical([2, 3], 5): noted in DESIGN.md)
    # ------------------------------------------------------------------ D6: residual_error, operator product (typed)
    n_contr = 0
    for d in orders:
        scen = f'residual_error(order={d})'
        entry = f'{TTM}.residual_error'

        def body(sc):
            Aop = sc.tt('A', d, 'op'); x = sc.tt('x', d, 'vec'); b = sc.tt('b', d, 'vec')
            return sc.call(entry, Aop, x, b)
        for ch, sc, res, exc in run_scen(scen, body, typed=True):
            n_contr += l2rules.typing_obligations(run, 'C01', 'D6', repo, sc, scen, {TTM})
            # no data-dependent cut of the carried factor unless it is relative to the largest singular value (an absolute guard makes the norm inhomogeneous)
            l2rules.relative_cut_obligations(run, 'C01', 'D6', repo, sc, scen, {TTM})
            if exc is not None:
                run.oblige('D6', (entry, scen), False)
                l2rules.raised_finding(run, 'C01', 'D6', repo, entry, scen, exc)
                continue
            good = isinstance(res, Arr) and res.ndim == 0
            run.oblige('D6', (entry, scen, 'scalar'), good)
            if not good:
                run.add(F(entry, 'D6 residual is a scalar', f'{scen}: result {res!r}'))
        for rb in ('op', 'vec'):
            scen = f'__matmul__(order={d}, right operand {rb})'
            entry = f'{TTM}.TT.__matmul__'

            def body(sc):
                a = sc.tt('A', d, 'op'); b = sc.tt('B' if rb == 'op' else 'x', d, rb)
                sc.inputs = (a, b)
                return sc.method(a, '__matmul__', b)
            for ch, sc, res, exc in run_scen(scen, body, typed=True):
                n_contr += l2rules.typing_obligations(run, 'C01', 'D6', repo, sc, scen, {TTM})
                if exc is not None:
                    run.oblige('D6', (entry, scen), False)
                    l2rules.raised_finding(run, 'C01', 'D6', repo, entry, scen, exc)
                    continue
                if not l2rules.invariant_obligation(run, 'C01', 'D7', repo, sc, res, entry, scen):
                    continue
                a, b = sc.inputs
                want_ranks = [a._attrs['ranks'][k] * b._attrs['ranks'][k] for k in range(d + 1)]
                bad = []
                if not all(sz_eq(x, y) for x, y in zip(res._attrs['ranks'], want_ranks)):
                    bad.append(f'ranks {res._attrs["ranks"]}, expected {want_ranks}')
                for k, c in enumerate(res._attrs['cores']):
                    r_ = [(l.resolve().kind, l.resolve().key, l.resolve().var, l.resolve().origin) for l in c.legs[1]]
                    c_ = [(l.resolve().kind, l.resolve().key, l.resolve().var, l.resolve().origin) for l in c.legs[2]]
                    if r_ != [('M', k, +1, 'A.row')]:
                        bad.append(f'core {k}: row index is {c.legs[1]}, expected the row index of the left factor')
                    if rb == 'op' and c_ != [('M', k, -1, 'B.col')]:
                        bad.append(f'core {k}: column index is {c.legs[2]}, expected the column index of the right factor')
                    lr = [l.resolve().key for l in c.legs[0]]
                    if k > 0 and lr != [('A', k), (('B' if rb == 'op' else 'x'), k)]:
                        bad.append(f'core {k}: left rank index {c.legs[0]} is not (rank of left factor, rank of right factor)')
                run.oblige('D6', (entry, scen, 'structure'), not bad)
                if bad:
                    run.add(F(entry, 'D6 structure of the operator product', f'{scen}: ' + '; '.join(bad[:3])))
    norm_rule(run, repo, orders, F)
    run.analysed = {'typed_contractions': n_contr}
    run.floor('obligations decided', run.obligations, 150)
    controls(run, repo)
    return run


def _was_conjugated(c):
    """does the value stem from a conj() application (walk copies)?"""
    seen = 0
    v = c
    while isinstance(v, Arr) and seen < 20:
        seen += 1
        if v.origin == 'conj':
            return True
        if v.parents and v.origin in ('copy', 'getitem', 'astype'):
            v = v.parents[0]
            continue
        if 'input' in v.tags:
            return False
        if v.parents:
            v = v.parents[0]
            continue
        break
    return False


def controls(run, repo):
    from .core import Repo, VERIF
    import os
    crepo = Repo(os.path.join(VERIF, 'controls', 'l2'))

    def body(which):
        def b(sc):
            a = sc.tt('a', 1, 'op', square=False); b_ = sc.tt('b', 1, 'op', square=False, row=a._attrs['row_dims'], col=a._attrs['col_dims'])
            return sc.call(f'solvers.ctl.{which}', a, b_)
        return b
    res = l2.explore(crepo, body('blocks_overwrite'), typed=False)
    probs = []
    for _, sc, r, exc in res:
        if isinstance(r, Arr):
            probs += blocks.analyse(r)[1]
    run.control('D1: two blocks stored with "=" into the same region (controls/l2 blocks_overwrite)', any(p[0] == 'overwrite' for p in probs))
    res = l2.explore(crepo, body('blocks_additive'), typed=False)
    probs = []
    for _, sc, r, exc in res:
        if isinstance(r, Arr):
            probs += blocks.analyse(r)[1]
    run.control('negative control: additive second store is accepted (controls/l2 blocks_additive)', not probs)
    res = l2.explore(crepo, body('complex_into_real'), typed=False)
    run.control('D2: complex block stored into a real array (controls/l2 complex_into_real)', any(sc.events('complex-loss') for _, sc, _, _ in res))


def norm_rule(run, repo, orders, F):
    """D8: structure of TT.norm (the value itself is numerical): what is measured is the receiver, in a form in which the measured core carries the whole norm"""
    from .p_c03 import working_object
    entry = f'{TTM}.TT.norm'
    for d, kind, p, unit in itertools.product(orders, ('op', 'vec'), (2, 1), (False, True)):
        if unit and (p == 2 or d < 2):
            continue          # p = 1 with one row mode of size 1 among larger ones (the row-vector test must look at ALL row modes)
        scen = f'norm(order={d}, {kind}, p={p}{", row mode 1 of size 1" if unit else ""})'

        def body(sc):
            row = [1 if (unit and k == 1) else sc.mode(k) for k in range(d)]
            a = sc.tt('a', d, kind, square=False, dtype='complex' if p == 2 else 'real', **({'row': row} if unit else {}))
            sc.inputs = (a,)
            sc.old = list(a._attrs['cores'])
            return sc.method(a, 'norm', p=p)
        for ch, sc, res, exc in l2.explore(repo, body, typed=True):
            l2rules.typing_obligations(run, 'C01', 'D8', repo, sc, scen, {TTM})
            if exc is not None:
                run.oblige('D8', (entry, scen), False)
                l2rules.raised_finding(run, 'C01', 'D8', repo, entry, scen, exc)
                continue
            a = sc.inputs[0]
            bad, unknown = [], []
            if any(c is not o for c, o in zip(a._attrs['cores'], sc.old)) or len(a._attrs['cores']) != d:
                bad.append('the receiver was modified')
            if not (isinstance(res, Arr) and res.ndim == 0):
                bad.append(f'the result is not a scalar: {res!r}')
            elif p == 2:
                evs = [e for e in sc.events('norm') if id(e['array']) in A.ancestors([res]) or e['array'] is res]
                norms = sc.events('norm')
                if len(norms) != 1:
                    unknown.append(f'{len(norms)} calls of np.linalg.norm')
                else:
                    x = norms[0]['array']
                    root = x
                    while isinstance(root, Arr) and id(root) not in sc.ctx.core_tokens and (root.tags.get('is_reshape') or root.origin == 'getitem') and root.parents:
                        root = root.parents[0]
                    tok = sc.ctx.core_tokens.get(id(root))
                    if tok is None:
                        unknown.append('the measured array is not (a reshape of) a core of a tensor train')
                    else:
                        inst, kc = tok
                        # all entries of the core are measured: the norm argument has as many entries as the core
                        from .shape import sz_prod
                        if not sz_eq(sz_prod(x.shape), sz_prod(root.shape)):
                            bad.append(f'only {x.shape} of the {root.shape} entries of core {kc} are measured')
                        cs = inst._attrs['cores']
                        if len(cs) != d:
                            bad.append(f'the measured train has {len(cs)} cores')
                        # the measured core carries the whole norm iff every core to its left is a left isometry and every core to its right a right isometry
                        iso = {k: l2rules.core_iso(cs[k], 'LO' if k < kc else 'RO') for k in range(len(cs)) if k != kc}
                        notro = [k for k, v in iso.items() if v is False]
                        if notro:
                            bad.append(f'core {kc} is measured, but cores {notro} of that train are not orthonormal factors (left of it: left-orthonormal, right of it: right-orthonormal), so it does not carry the norm')
                        elif any(v is None for v in iso.values()):
                            unknown.append('orthonormality of the measured train')
                        t_obj, init = working_object(sc)
                        if d > 1:
                            if t_obj is not inst:
                                unknown.append('the sweep does not work on the measured train')
                            else:
                                vb, vu, _n = l2rules.value_preservation(sc, inst, init)
                                bad += vb
                                unknown += vu
                        else:
                            init = list(cs)
                        # the train that was swept consists of (reshaped) copies of the receiver's cores
                        for k, c in enumerate(init or []):
                            r0 = c
                            n_ = 0
                            while isinstance(r0, Arr) and r0.parents and n_ < 8 and (r0.tags.get('is_reshape') or r0.origin in ('copy', 'astype')):
                                r0 = r0.parents[0]
                                n_ += 1
                            if k < len(sc.old) and r0 is not sc.old[k]:
                                unknown.append(f'core {k} of the measured train is not recognisably a copy of core {k} of the receiver')
            else:
                anc = A.ancestors([res])
                if res.origin != 'amax' and not any(v.origin == 'amax' for v in anc.values()):
                    unknown.append('no maximum is taken')
                missing = [k for k, c in enumerate(sc.old) if id(c) not in anc]
                if missing:
                    bad.append(f'cores {missing} of the receiver do not enter the 1-norm')
                if any(v.origin in ('norm',) for v in anc.values()):
                    bad.append('a Euclidean norm is computed for p = 1')
                # the maximum runs over column indices only: every row index has been summed over (maximum absolute COLUMN sum; for a vector the sum of all entries)
                arg = res.parents[0] if res.origin == 'amax' and res.parents and isinstance(res.parents[0], Arr) else None
                if arg is None:
                    unknown.append('the argument of the maximum')
                else:
                    left = [l.resolve() for g in arg.legs for l in g if l.resolve().kind == 'M' and l.resolve().var > 0 and not A.is_one(l.resolve().size)]
                    if left:
                        bad.append(f'the maximum is taken over an array that still carries the row indices {left}: the rows were not summed (the train was transposed although it is not a row vector, or the wrong axis was summed)')
            if unknown and not bad:
                raise AnalysisError(f'{scen}: undecided: ' + '; '.join(unknown[:2]))
            run.oblige('D8', (entry, scen), not bad)
            if bad:
                run.add(F(entry, 'D8 norm', f'{scen}: ' + '; '.join(sorted(set(bad))[:3])))
