"""C15  Transformed data tensors (DESIGN.md 3/C15): store layout of basis_decomposition / coordinate_major / function_major, single-core option, Gram matrix.
data_driven/transform.py interpreted over the Layer-2 array domain (symbolic snapshot count, concrete numbers of modes / functions / coordinates)."""
import itertools

from . import arr as A
from . import l2, l2rules, own
from .arr import Arr, SymIdx, SymOff
from .core import AnalysisError, Finding, Run, norm_text
from .shape import sz_eq

MOD = 'data_driven.transform'


class BasisFn:
    def __init__(self, *label):
        self.label = label

    def __call__(self, x):
        if isinstance(x, Arr) and x.ndim == 2:
            # evaluated on the whole data matrix: one value per snapshot (column)
            return Arr((x.shape[1],), None, 'real', None, {'basis': self.label, 'point': x, 'vectorised': True}, 'basis-value')
        return Arr((), [], 'real', None, {'basis': self.label, 'point': x}, 'basis-value')


def point_of(v):
    """(data array role, selection) of the evaluation point of a basis value"""
    p = v.tags.get('point')
    so = p.tags.get('sel_of') if isinstance(p, Arr) else None
    if so:
        return so[0].tags.get('role'), so[1]
    return None, None


def describe_store(st):
    """normalised description of one store: (selection with loop indices named positionally, value description)"""
    loop = {}

    def nm(i):
        if isinstance(i, (SymIdx, SymOff)):
            base = i if isinstance(i, SymIdx) else i.base
            off = 0 if isinstance(i, SymIdx) else i.off
            loop.setdefault(id(base), f'j{len(loop)}')
            return f'{loop[id(base)]}{off:+d}' if off else loop[id(base)]
        return str(i)
    sel = tuple((s[0],) + tuple(nm(x) for x in s[1:]) for s in st['sel'])
    v = st['value']
    if isinstance(v, Arr):
        els = v.tags.get('elements')
        if els:
            items = []
            for e in els:
                role, psel = point_of(e)
                items.append((e.tags.get('basis'), role, tuple((s[0],) + tuple(nm(x) for x in s[1:]) for s in psel) if psel else None))
            val = ('vector', tuple(items), str(v.tags.get('symbolic_length', len(els))))
        elif v.tags.get('const'):
            val = ('const', v.tags['const'])
        else:
            val = ('array', str(v.shape))
    else:
        val = ('scalar', v)
    return sel, val


def core_content_problems(which, par, i, c, nfun, m):
    """entry-level comparison of one mode core with the definition:  core 0: [0, k, 0, j] = psi_{0,k}(x_j);  core i > 0: [j, k, 0, j] = psi_{i,k}(x_j) and
    [j, k, 0, j'] = 0 for j' != j  (diagonal in the snapshot index), whatever way the entries were stored"""
    from . import content
    bad = []
    if not (isinstance(c, Arr) and c.ndim == 4):
        return [f'core {i} is not a 4-dimensional array']
    Q, Q2 = SymIdx(0, m, 'j'), SymIdx(0, m, "j'")
    Q.is_query = Q2.is_query = True
    if not (sz_eq(c.shape[1], nfun) and sz_eq(c.shape[3], m) and (sz_eq(c.shape[0], m) if i > 0 else sz_eq(c.shape[0], 1))):
        return [f'core {i} has shape {c.shape}']
    unknown = 0
    for k in range(nfun):
        got = content.entry(c, [0 if i == 0 else Q, k, 0, Q])
        if which == 'basis_decomposition':
            want = ('basis', (i, k), ('x', (('all',), ('int', Q))))
        elif which == 'coordinate_major':
            want = ('basis', (k,), ('x', (('int', i), ('int', Q))))
        else:
            ao = 1 if par.get('add_one') else 0
            want = ('num', 1) if (ao and k == 0) else ('basis', (i,), ('x', (('int', k - ao), ('int', Q))))
        same = content.same_content(got, want)
        if same is None:
            unknown += 1
        elif not same:
            bad.append(f'core {i}: entry [{"0" if i == 0 else "j"}, {k}, 0, j] is {content.show(got)} instead of {content.show(want)}')
        if i > 0:
            off = content.entry(c, [Q, k, 0, Q2])
            if off is None:
                unknown += 1
            elif off != ('zero',):
                bad.append(f'core {i}: entry [j, {k}, 0, j\'] with j\' != j is {content.show(off)} instead of 0 (the core is not diagonal in the snapshot index)')
    if unknown and not bad:
        raise AnalysisError(f'{which}: the content of core {i} is assembled in a way the entry analysis does not follow ({unknown} entries of unknown provenance)')
    return bad


def check(repo, tier):
    run = Run('C15', tier, repo, 'data_driven/transform.py interpreted from source with a symbolic number of snapshots; basis functions are uninterpreted callables whose results remember which '
              'function was evaluated at which data point; rules on the logged block stores.')
    run.rule('D1', 'layout: core 0 stores, for every snapshot j, the vector of the mode-0 functions at snapshot j into [0, :, 0, j]; core i > 0 stores the vector of the mode-i functions at snapshot j '
             'into [j, :, 0, j] (diagonal in the snapshot index); function-major with add_one stores 1 at slot 0 and the values at slots 1..; the last core is the identity on the snapshot index; '
             'all cores are distinct arrays; the result satisfies the class invariant')
    run.rule('D2', 'single_core = i produces the same stores as core i of the full construction')
    run.rule('D3', 'gram: the result is the Hadamard product over the modes of Theta_1^T Theta_2, Theta_1 built from x_1 and Theta_2 from x_2 with the functions of that mode, contracted over the basis index')
    run.rule('D5', 'HOCUR: every entry of a submatrix extracted for the cross approximation is the entry of the transformed data tensor at the multi-index formed by its row set, '
             'its basis-function index and its column set, i.e. the product over all modes of the selected basis functions at the snapshot of the column set (first, intermediate '
             'and last submatrix); the values are not written into an array of a narrower dtype')
    run.rule('D4', 'the public constructions do not modify their arguments (data, basis lists, rank lists): Layer-1 effect analysis')
    run.trusted = ['NumPy transfer functions']
    run.bounds = ('modes p in {1..5}, 2-3 functions per mode, state dimension 1-4' if tier == 'thorough' else 'modes p in {1,2,3}, 2-3 functions per mode, state dimension 2-3') + ', symbolic snapshot count; add_one on/off'

    def F(qual, rule, what, msg):
        fn = repo.fn(qual)
        return Finding('C15', rule, fn.where, what, msg, fn.file, fn.node.lineno)

    def mk_x(sc, d, dt='real'):
        sc.m = sc.atom('m')
        return Arr([d, sc.m], None, dt, None, {'role': 'x'}, 'x')
    grids = []
    big = tier == 'thorough'
    for p in ((1, 2, 3, 4, 5) if big else (1, 2, 3)):
        grids.append(('basis_decomposition', {'p': p}))
    for d, p in (((1, 1), (1, 3), (2, 1), (2, 2), (3, 2), (4, 3), (2, 4)) if big else ((2, 2), (3, 2))):
        grids.append(('coordinate_major', {'d': d, 'p': p}))
    for d, p, ao in (((1, 1, True), (1, 1, False), (1, 3, True), (2, 1, True), (2, 1, False), (2, 3, True), (2, 3, False), (3, 2, True), (3, 2, False), (4, 4, True), (3, 5, False)) if big
                     else ((2, 1, True), (2, 3, True), (2, 3, False), (3, 2, True))):
        grids.append(('function_major', {'d': d, 'p': p, 'add_one': ao}))
    grids = grids + [(w_, dict(p_, data='integer')) for w_, p_ in grids[:1] + [g_ for g_ in grids if g_[0] != 'basis_decomposition'][:2]]
    for which, par in grids:
        entry = f'{MOD}.{which}'
        xdt = 'int' if par.get('data') == 'integer' else 'real'

        def call(sc, single_core=None):
            if which == 'basis_decomposition':
                x = mk_x(sc, 2, xdt)
                phi = [[BasisFn(i, k) for k in range(2 + (i % 2))] for i in range(par['p'])]
                sc.meta = {'modes': par['p'], 'nfun': [len(f) for f in phi]}
                return sc.call(entry, x, phi, single_core=single_core)
            if which == 'coordinate_major':
                x = mk_x(sc, par['d'], xdt)
                phi = [BasisFn(k) for k in range(par['p'])]
                sc.meta = {'modes': par['d'], 'nfun': [par['p']] * par['d']}
                return sc.call(entry, x, phi, single_core=single_core)
            x = mk_x(sc, par['d'], xdt)
            phi = [BasisFn(i) for i in range(par['p'])]
            sc.meta = {'modes': par['p'], 'nfun': [par['d'] + par['add_one']] * par['p']}
            return sc.call(entry, x, phi, add_one=par['add_one'], single_core=single_core)
        scen = f'{which}({", ".join(f"{k}={v}" for k, v in par.items())})'
        full_stores = None
        for ch, sc, res, exc in l2rules.explore_data(run, 'C15', 'D1', repo, lambda sc: call(sc), scen, {MOD}, typed=False):
            if exc is not None:
                run.oblige('D1', (entry, scen), False)
                l2rules.raised_finding(run, 'C15', 'D1', repo, entry, scen, exc)
                continue
            if not l2rules.invariant_obligation(run, 'C15', 'D1', repo, sc, res, entry, scen, 'transformed data tensor', chain=False):
                continue
            cores = res._attrs['cores']
            nm = sc.meta['modes']
            bad = []
            if len(cores) != nm + 1:
                bad.append(f'{len(cores)} cores for {nm} modes (expected {nm + 1})')
            if len({id(c.buf) for c in cores}) != len(cores):
                bad.append('two cores are the same array (built by list repetition?)')
            for e in sc.events('float-loss') + sc.events('complex-loss'):
                bad.append('values of the basis functions are written into an array of a narrower dtype (they are truncated): ' + e['detail'][:110])
            full_stores = [[describe_store(st) for st in c.tags.get('stores', [])] for c in cores[:nm]]
            for i, c in enumerate(cores[:nm]):
                bad += core_content_problems(which, par, i, c, sc.meta['nfun'][i], sc.m)
            last = cores[-1] if cores else None
            if last is not None:
                v = last
                while isinstance(v, Arr) and v.tags.get('const') not in ('eye', 'eye-reshaped') and v.parents and v.buf is v.parents[0].buf:
                    v = v.parents[0]
                if not (isinstance(v, Arr) and v.tags.get('const') in ('eye', 'eye-reshaped')):
                    bad.append('the last core is not the identity on the snapshot index')
            run.oblige('D1', (entry, scen), not bad, sample={'rule': 'D1', 'scenario': scen, 'stores_core0': [str(s) for s in full_stores[0]][:3] if full_stores else None} if len(run.samples) < 5 else None)
            if bad:
                run.add(F(entry, 'D1', 'store layout', f'{scen}: ' + '; '.join(sorted(set(bad))[:3])))
        # D2 single core
        if full_stores is None:
            continue
        for i in range(len(full_stores)):
            sscen = f'{scen}, single_core={i}'
            for ch, sc, res, exc in l2rules.explore_data(run, 'C15', 'D1', repo, lambda sc: call(sc, single_core=i), scen, {MOD}, typed=False):
                if exc is not None:
                    run.oblige('D2', (entry, sscen), False)
                    l2rules.raised_finding(run, 'C15', 'D2', repo, entry, sscen, exc)
                    continue
                probs = core_content_problems(which, par, i, res, sc.meta['nfun'][i], sc.m) if isinstance(res, Arr) and res.ndim == 4 else [f'the result is not a 4-dimensional core: {res!r}']
                good = not probs
                run.oblige('D2', (entry, sscen), good)
                if not good:
                    run.add(F(entry, 'D2', 'single_core option', f'{sscen}: the returned core is not core {i} of the full construction: ' + '; '.join(sorted(set(probs))[:3])))
    # ------------------------------------------------------------------ D3 gram
    entry = f'{MOD}.gram'
    for p in ((1, 2, 3, 4, 5) if tier == 'thorough' else (1, 2, 3)):
        scen = f'gram({p} modes)'
        for overlapping, xdt in ((False, 'real'), (True, 'real'), (False, 'int')):
            if xdt == 'int' and p != 2:
                continue
            scen = f'gram({p} modes, {"time-lagged views of one trajectory" if overlapping else "independent data sets"}{", integer data" if xdt == "int" else ""})'

            def body(sc):
                m1, m2 = sc.atom('m1'), sc.atom('m2')
                if overlapping:
                    z = Arr([2, m1 + 1], None, 'real', None, {}, 'z')
                    x1 = z[:, :-1]
                    x2 = z[:, 1:]
                    x1.tags['role'], x2.tags['role'] = 'x_1', 'x_2'
                else:
                    x1 = Arr([2, m1], None, xdt, None, {'role': 'x_1'}, 'x_1')
                    x2 = Arr([2, m2], None, xdt, None, {'role': 'x_2'}, 'x_2')
                basis = [[BasisFn(i, k) for k in range(2 + (i % 2))] for i in range(p)]
                sc.inputs = (x1, x2)
                return sc.call(entry, x1, x2, basis)
            paths = l2.explore(repo, body, typed=False)
            for ch, sc, res, exc in paths:
                if exc is not None:
                    run.oblige('D3', (entry, scen), False)
                    l2rules.raised_finding(run, 'C15', 'D3', repo, entry, scen, exc)
                    continue
                x1, x2 = sc.inputs
                bad = []
                if not (isinstance(res, Arr) and res.ndim == 2 and sz_eq(res.shape[0], x1.shape[1]) and sz_eq(res.shape[1], x2.shape[1])):
                    bad.append(f'result shape {getattr(res, "shape", None)} is not (snapshots of x_1, snapshots of x_2)')
                for e in sc.events('float-loss') + sc.events('complex-loss'):
                    bad.append('values of the basis functions are written into an array of a narrower dtype (they are truncated): ' + e['detail'][:110])
                muls = [e for e in sc.events('inplace-op') if e['op'] == 'mul' and e['target'].buf is res.buf] if isinstance(res, Arr) else []
                if len(muls) != p:
                    bad.append(f'{len(muls)} Hadamard factors accumulated for {p} modes')
                from . import content
                Qa, Qb = SymIdx(0, x1.shape[1], 'a'), SymIdx(0, x2.shape[1], 'b')
                Qa.is_query = Qb.is_query = True
                unknown = 0
                for i, e in enumerate(muls):
                    # factor i at (a, b) must be  sum_k psi_{i,k}(x_1[:, a]) psi_{i,k}(x_2[:, b])  -- however it is computed (matrix product of the evaluation
                    # matrices, sum of outer products, ...)
                    got = content.entry(e['value'], [Qa, Qb])
                    nfun = 2 + (i % 2)
                    want = content.sum_([content.prod_([('basis', (i, k), ('x_1', (('all',), ('int', Qa)))), ('basis', (i, k), ('x_2', (('all',), ('int', Qb))))]) for k in range(nfun)])
                    if got is not None and got[0] == 'prod':
                        got = ('sum', (got,))
                    same = content.same_content(got, want)
                    if same is None:
                        unknown += 1
                    elif not same:
                        bad.append(f'factor {i}: entry (a, b) is  {content.show(got)[:300]}  instead of  {content.show(want)[:300]}')
                if unknown and not bad:
                    raise AnalysisError(f'{scen}: {unknown} Hadamard factor(s) are computed in a way the entry analysis does not follow')
                run.oblige('D3', (entry, scen, tuple(ch)), not bad)
                if bad:
                    run.add(F(entry, 'D3', 'Gram matrix', f'{scen}: ' + '; '.join(sorted(set(bad))[:3])))
    # ------------------------------------------------------------------ D4 frame on arguments of any kind
    an = own.analyse(repo)
    for (qual, ct), sm in sorted(an.summ.items(), key=lambda kv: kv[0][0]):
        fn = repo.fns[qual]
        if fn.mod != MOD or not fn.public or fn.cls is not None:
            continue
        effects = {}
        for path, sites in list(sm.rebinds.items()) + list(sm.bufwrites.items()):
            root = path.split('.')[0].rstrip('[]')
            if root in fn.params:
                effects.setdefault(root, set()).update(sites)
        run.oblige('D4', (qual,), not effects)
        for root, sites in effects.items():
            s0 = sorted(sites)[0]
            run.add(Finding('C15', 'D4', fn.where, f'{root} <- {s0[0]}', f'argument `{root}` is modified in place ({s0[1]}:{s0[2]} {s0[3]}): a later call with the same object sees different settings', fn.file, fn.node.lineno))
    from .p_c06 import rule_f
    ff, nf = rule_f(repo, prop='C15')
    ff = [f for f in ff if f.where.split('::')[0] == MOD]
    for f in ff:
        f.rule = 'D4'
        run.add(f)
    run.oblige('D4', ('no module-level state in transform.py',), not ff)
    # ------------------------------------------------------------------ D5 HOCUR: the submatrices handed to the cross approximation are entries of the tensor
    hocur_submatrix_rule(run, repo, tier, F)
    run.floor('obligations decided', run.obligations, 30)
    return run


def hocur_submatrix_rule(run, repo, tier, F):
    """D5: transform.__hocur_extract_matrix interpreted with concrete index sets over a small data matrix; every entry compared with the definition of the tensor"""
    from . import content
    entry = f'{MOD}.__hocur_extract_matrix'
    if entry not in repo.fns:
        raise AnalysisError(f'{entry} not found (the HOCUR helper was renamed: rule D5 needs an update)')
    M = 3                                               # snapshots
    nfuns = [2, 3, 2, 2]

    def want_entry(p, rows, k, cols, snap):
        """product over the modes: rows fix modes 0..t-1, k is the function index of mode t, cols fix modes t+1..p-1"""
        t = len(rows)
        sel = list(rows) + [k] + list(cols)
        assert len(sel) == p
        return content.prod_([('basis', (q, sel[q]), ('x', (('all',), ('int', snap)))) for q in range(p)])
    cases = []
    for p in ((2, 3, 4) if tier == 'thorough' else (2, 3)):
        # first submatrix: no row sets; column sets = (indices of modes 1..p-1, snapshot)
        cols = [[(j + q) % nfuns[q + 1] for q in range(p - 1)] + [(2 * j + 1) % M] for j in range(3)]
        cases.append((p, 'first', None, cols))
        # last submatrix: row sets = indices of modes 0..p-1; the snapshot index is the row-inner index
        rows = [[(i + 2 * q) % nfuns[q] for q in range(p)] for i in range(2)]
        cases.append((p, 'last', rows, None))
        for t in range(1, p):
            rows = [[(i + q) % nfuns[q] for q in range(t)] for i in range(2)]
            cols = [[(j + 2 * q + 1) % nfuns[t + 1 + q] for q in range(p - t - 1)] + [(j + 2) % M] for j in range(3)]
            cases.append((p, f'intermediate (mode {t})', rows, cols))
    cases = cases + [(p_, w_, r_, c_, 'integer') for (p_, w_, r_, c_) in cases if p_ == 3]
    for p, which, rows, cols, *dk in cases:
        xdt = 'int' if dk else 'real'
        scen = f'__hocur_extract_matrix({p} modes, {which} submatrix, {len(rows) if rows else 1} row set(s), {len(cols) if cols else 1} column set(s){", integer data" if dk else ""})'

        def body(sc):
            x = Arr([2, M], None, xdt, None, {'role': 'x'}, 'x')
            phi = [[BasisFn(q, k) for k in range(nfuns[q])] for q in range(p)]
            return sc.call(entry, x, phi, [list(r) for r in rows] if rows is not None else None, [list(c) for c in cols] if cols is not None else None)
        for ch, sc, res, exc in l2.explore(repo, body, typed=False):
            if exc is not None:
                run.oblige('D5', (entry, scen), False)
                l2rules.raised_finding(run, 'C15', 'D5', repo, entry, scen, exc)
                continue
            bad, unknown = [], 0
            for e in sc.events('float-loss') + sc.events('complex-loss'):
                bad.append('values of the basis functions are written into an array of a narrower dtype (they are truncated): ' + e['detail'][:110])
            if which == 'first':
                mode, nr, nc = nfuns[0], 1, len(cols)
            elif which == 'last':
                mode, nr, nc = M, len(rows), 1
            else:
                mode, nr, nc = nfuns[len(rows[0])], len(rows), len(cols)
            if not (isinstance(res, Arr) and res.ndim == 2 and sz_eq(res.shape[0], nr * mode) and sz_eq(res.shape[1], nc)):
                bad.append(f'the submatrix has shape {getattr(res, "shape", None)} instead of ({nr} * {mode}, {nc})')
            else:
                for i in range(nr):
                    for k in range(mode):
                        for j in range(nc):
                            got = content.entry(res, [i * mode + k, j])
                            if which == 'first':
                                want = want_entry(p, [], k, cols[j][:-1], cols[j][-1])
                            elif which == 'last':
                                want = content.prod_([('basis', (q, rows[i][q]), ('x', (('all',), ('int', k)))) for q in range(p)])
                            else:
                                want = want_entry(p, rows[i], k, cols[j][:-1], cols[j][-1])
                            same = content.same_content(got, want)
                            if same is None:
                                unknown += 1
                            elif not same:
                                bad.append(f'entry [{i} * {mode} + {k}, {j}] is  {content.show(got)[:200]}  instead of  {content.show(want)[:200]}')
            if unknown and not bad:
                raise AnalysisError(f'{scen}: {unknown} entries of the submatrix are computed in a way the entry analysis does not follow')
            run.oblige('D5', (entry, scen), not bad, sample={'rule': 'D5', 'scenario': scen, 'entry_0_0': content.show(content.entry(res, [0, 0]))} if p == 3 and which.startswith('inter') and not dk and isinstance(res, Arr) else None)
            if bad:
                run.add(F(entry, 'D5', 'HOCUR submatrix', f'{scen}: ' + '; '.join(sorted(set(bad))[:3])))
