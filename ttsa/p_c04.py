from .p_c03 import check_c04 as check  # noqa
