"""TT-level free algebra with several operator symbols and inner products (used for solvers.evp.power_method, C08-D5).

Operators are linear combinations of *words* over operator atoms ('A', 'B', ...; the empty word is the identity); vectors are linear combinations of
word * atom with sympy coefficients; `transpose(conjugate=True)` of a vector is a covector (coefficients conjugated, words reversed and daggered), a covector
times an operator is a covector, a covector times a vector is a scalar: a sesquilinear combination of uninterpreted inner products
<atom | word | atom'>.  Two programs that compute the same quantity by a different sequence of these operations get the same normal form; nothing is
assumed about the operators (no symmetry, no commutation)."""
import hashlib

import sympy as sp

from .alg import S, is_scalar
from .interp import Raised

DIMS = ['m0', 'm1', 'm2']


def _dag(word):
    return tuple((w[:-2] if w.endswith('^H') else w + '^H') for w in reversed(word))


class Reg:
    """names of the uninterpreted inner products / norms, so that findings can print them"""

    def __init__(self):
        self.names = {}

    def sym(self, kind, key, **assume):
        h = kind + hashlib.md5(repr(key).encode()).hexdigest()[:8]
        self.names[h] = key
        return sp.Symbol(h, **assume)


class Op2:
    order = 3

    def __init__(self, terms, reg):
        self.terms = {}
        for k, v in terms.items():
            v = sp.expand(v)
            if v != 0:
                self.terms[k] = v
        self.reg = reg
        self.row_dims, self.col_dims = list(DIMS), list(DIMS)
        self.ranks = [1, 'r1', 'r2', 1]
        self.touched = []

    @staticmethod
    def atom(name, reg):
        return Op2({(name,): sp.Integer(1)}, reg)

    @staticmethod
    def eye(reg):
        return Op2({(): sp.Integer(1)}, reg)

    def key(self):
        return tuple(sorted((k, sp.srepr(v)) for k, v in self.terms.items()))

    def copy(self):
        return Op2(self.terms, self.reg)

    def isoperator(self):
        return True

    def __add__(self, o):
        if not isinstance(o, Op2):
            raise TypeError('operator + non-operator')
        t = dict(self.terms)
        for k, v in o.terms.items():
            t[k] = t.get(k, 0) + v
        return Op2(t, self.reg)

    def __sub__(self, o):
        if not isinstance(o, Op2):
            raise TypeError('operator - non-operator')
        return self + (-1) * o

    def __mul__(self, c):
        if not is_scalar(c):
            raise TypeError('operator * non-scalar')
        c = S(c)
        return Op2({k: v * c for k, v in self.terms.items()}, self.reg)

    __rmul__ = __mul__

    def __neg__(self):
        return self * -1

    def dot(self, o):
        if isinstance(o, Op2):
            t = {}
            for k1, v1 in self.terms.items():
                for k2, v2 in o.terms.items():
                    t[k1 + k2] = t.get(k1 + k2, 0) + v1 * v2
            return Op2(t, self.reg)
        if isinstance(o, Vec2):
            t = {}
            for k1, v1 in self.terms.items():
                for (k2, a), v2 in o.terms.items():
                    t[(k1 + k2, a)] = t.get((k1 + k2, a), 0) + v1 * v2
            return Vec2(t, self.reg)
        raise TypeError('operator applied to something that is neither an operator nor a vector')

    __matmul__ = dot

    def transpose(self, conjugate=False):
        if not conjugate:
            raise Raised('NotInThisAlgebra', 'plain transpose of an operator')
        return Op2({_dag(k): sp.conjugate(v) for k, v in self.terms.items()}, self.reg)


class Vec2:
    order = 3

    def __init__(self, terms, reg):
        self.terms = {}
        for k, v in terms.items():
            v = sp.expand(v)
            if v != 0:
                self.terms[k] = v
        self.reg = reg
        self.row_dims, self.col_dims = list(DIMS), [1, 1, 1]
        self.ranks = [1, 's1', 's2', 1]
        self.touched = []

    @staticmethod
    def atom(name, reg):
        return Vec2({((), ('x', name)): sp.Integer(1)}, reg)

    def key(self):
        return tuple(sorted((repr(k), sp.srepr(v)) for k, v in self.terms.items()))

    def copy(self):
        return Vec2(self.terms, self.reg)

    def isoperator(self):
        return False

    def same(self, o):
        if not isinstance(o, Vec2):
            return False
        return all(sp.simplify(self.terms.get(k, 0) - o.terms.get(k, 0)) == 0 for k in set(self.terms) | set(o.terms))

    def __add__(self, o):
        if not isinstance(o, Vec2):
            raise TypeError('vector + non-vector')
        t = dict(self.terms)
        for k, v in o.terms.items():
            t[k] = t.get(k, 0) + v
        return Vec2(t, self.reg)

    def __sub__(self, o):
        if not isinstance(o, Vec2):
            raise TypeError('vector - non-vector')
        return self + (-1) * o

    def __mul__(self, c):
        if not is_scalar(c):
            raise TypeError('vector * non-scalar')
        c = S(c)
        return Vec2({k: v * c for k, v in self.terms.items()}, self.reg)

    __rmul__ = __mul__

    def __truediv__(self, c):
        if not is_scalar(c):
            raise TypeError('vector / non-scalar')
        return self * (1 / S(c))

    def norm(self, p=2):
        if p != 2:
            raise Raised('NotInThisAlgebra', 'norm other than the Euclidean one')
        return sp.sqrt(self.transpose(conjugate=True).dot(self))          # ||x||^2 = <x|x>

    def transpose(self, conjugate=False):
        if not conjugate:
            raise Raised('NotInThisAlgebra', 'plain transpose of a vector (a bilinear form)')
        return CoVec2({(a, _dag(w)): sp.conjugate(v) for (w, a), v in self.terms.items()}, self.reg)

    def ortho(self, *a, **k):
        self.touched.append('ortho')
        return self

    ortho_left = ortho_right = ortho

    def dot(self, o):
        raise TypeError('vector.dot(...): a vector (column dimensions 1) cannot be applied to anything')

    def __repr__(self):
        return ' + '.join(f'({v})*{"".join(w)}|{a}>' for (w, a), v in sorted(self.terms.items(), key=repr)) or '0'


class CoVec2:
    order = 3

    def __init__(self, terms, reg):
        self.terms = {k: sp.expand(v) for k, v in terms.items() if sp.expand(v) != 0}
        self.reg = reg
        self.row_dims, self.col_dims = [1, 1, 1], list(DIMS)

    def dot(self, o):
        if isinstance(o, Op2):
            t = {}
            for (a, w), v in self.terms.items():
                for k2, v2 in o.terms.items():
                    t[(a, w + k2)] = t.get((a, w + k2), 0) + v * v2
            return CoVec2(t, self.reg)
        if isinstance(o, Vec2):
            tot = sp.Integer(0)
            for (a, w), v in self.terms.items():
                for (w2, b), v2 in o.terms.items():
                    pos = {'positive': True} if (a == b and not (w + w2)) else {}          # <y|y> > 0
                    tot += v * v2 * self.reg.sym('I', (a, w + w2, b), **pos)
            return sp.expand(tot)
        raise TypeError('covector applied to something that is neither an operator nor a vector')

    __matmul__ = dot

    def transpose(self, conjugate=False):
        if not conjugate:
            raise Raised('NotInThisAlgebra', 'plain transpose of a covector')
        return Vec2({(_dag(w), a): sp.conjugate(v) for (a, w), v in self.terms.items()}, self.reg)


def solve(op, rhs, reg):
    """what the inner linear solver denotes: the solution of  op y = rhs  (independent of the initial guess)"""
    return Vec2({((), ('solve', op.key(), rhs.key())): sp.Integer(1)}, reg)


def describe(expr, reg):
    s = str(expr)
    for h, key in reg.names.items():
        if h in s and h.startswith('I'):
            a, w, b = key
            s = s.replace(h, f'<{_short(a)}|{"".join(w) or "1"}|{_short(b)}>')
        elif h in s:
            s = s.replace(h, f'norm#{h[1:5]}')
    return s


def _short(a):
    if a[0] == 'x':
        return a[1]
    return 'y#' + hashlib.md5(repr(a).encode()).hexdigest()[:4]
