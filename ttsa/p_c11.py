"""C11  TDVP and Krylov propagators (DESIGN.md 3/C11).  solvers/ode.py (tdvp*, krylov) interpreted over the Layer-2 array domain
(environment typing, slot typestate, liveness of evolutions, time accounting) and over the TT algebra (Lanczos recurrences)."""
import itertools
import math

from . import arr as A
from . import l2, l2rules
from .arr import Arr
from .core import AnalysisError, Finding, Run, norm_text

ODE = 'solvers.ode'
H = 0.5     # step size used in the scenarios (a power of two: coefficient arithmetic is exact)


def run_tdvp(repo, which, d, steps, dtype='complex', capped=False, normalize=0):
    def body(sc):
        Hop = sc.tt('A', d, 'op', dtype=dtype)
        x = sc.tt('x', d, 'vec', dtype=dtype)
        sc.inputs = {'A': Hop, 'x': x}
        if which == 'tdvp1site':
            return sc.call(f'{ODE}.tdvp1site', Hop, x, H, steps, normalize=normalize)
        mr = sc.atom('rho', free=True) if capped else math.inf
        if which == 'tdvp2site':
            return sc.call(f'{ODE}.tdvp2site', Hop, x, H, steps, threshold=1e-10 if capped is True else 0, max_rank=mr, normalize=normalize)
        return sc.call(f'{ODE}.tdvp', Hop, x, H, steps, threshold=0, max_rank=sc.atom('rho', free=True), normalize=normalize)
    return l2.explore(repo, body, max_paths=5000)


def frame_at_evolutions(sc):
    """D9: a local evolution exp(-i t P^H H P) y is the projection of the global one only if P is an isometry, i.e. if at the moment of the evolution every core
    left of the evolved site(s) is a left- and every core right of them a right-orthonormal factor.  The core lists are replayed along the event log.
    Returns a list of (event, message); only cores whose expression is FULLY KNOWN not to be an isometry count (an untouched input core, U diag(s), ...)."""
    evs = sc.ctx.events
    # initial core list of every tensor train that receives stores
    final, stores = {}, {}
    for e in evs:
        if e['kind'] == 'core-store':
            final[id(e['tt'])] = e['tt']
            stores.setdefault(id(e['tt']), []).append(e)
    cur = {}
    for tid, t in final.items():
        c = list(t._attrs['cores'])
        for e in reversed(stores[tid]):
            if 0 <= e['slot'] < len(c):
                c[e['slot']] = e['old']
        cur[tid] = c
    out = []
    for n, e in enumerate(evs):
        if e['kind'] == 'core-store':
            c = cur[id(e['tt'])]
            if 0 <= e['slot'] < len(c):
                c[e['slot']] = e['value']
            continue
        if e['kind'] != 'expm_multiply':
            continue
        nxt = next((x for x in evs[n + 1:] if x['kind'] == 'core-store'), None)
        if nxt is None:
            continue
        cores = cur[id(nxt['tt'])]
        sites = sorted({l.resolve().key for g in e['vector'].legs for l in g if l.resolve().kind == 'M' and isinstance(l.resolve().key, int)})
        if not sites:
            continue          # (evolution of a bond matrix: its frame is the one of the site evolution before it)
        lo, hi = sites[0], sites[-1]
        badc = [k for k in range(len(cores)) if (k < lo and l2rules.core_iso(cores[k], 'LO') is False) or (k > hi and l2rules.core_iso(cores[k], 'RO') is False)]
        if badc:
            out.append((e, f'site(s) {sites} are evolved while cores {badc} of the state are not orthonormal factors (left of the site: left-, right of it: right-orthonormal): '
                           f'the projected operator is then not the projection of H onto the tangent space'))
    return out


def split_preserves_block(sc, truncating):
    """D10 (two-site update): the evolved two-site block is split by a decomposition, and the two cores stored right after it multiply back to the block
    (U diag(s) V -> X; with a rank cap / threshold: after undoing the truncation selectors).  A rescaled or otherwise altered factor (s / ||s||, a dropped
    conjugation, factors of another decomposition) changes the state although the step is meant to be a pure re-factorisation.
    Returns (violations, undecided)."""
    from . import mx
    evs = sc.ctx.events
    bad, unknown = [], []
    for n, e in enumerate(evs):
        if e['kind'] != 'svd' or e.get('fn') is None or not e['fn'].name.endswith('update_core_tdvp2site'):
            continue
        stores = []
        for x in evs[n + 1:]:
            if x['kind'] == 'core-store':
                stores.append(x)
                if len(stores) == 2:
                    break
            elif x['kind'] in ('svd', 'expm_multiply'):
                break
        if len(stores) != 2 or stores[1]['slot'] != stores[0]['slot'] + 1 or stores[0]['tt'] is not stores[1]['tt']:
            unknown.append('the two cores of the split are not stored right after the decomposition')
            continue
        got = l2rules.pair_mx(stores[0]['value'], stores[1]['value'])
        want = mx.reg().get(e['uid'])
        if got is None or want is None:
            unknown.append('no matrix expression for the split')
            continue
        got = mx.untruncate(got) if truncating else mx.canon(got)
        want = mx.canon(want)
        if got is None:
            unknown.append('truncated factors of an unregistered decomposition')
        elif got != want:
            new_atoms = {f[:2] for f in got if f[0] == 'src'} - {f[:2] for f in want if f[0] == 'src'}
            # an unknown factor that is the singular values of THIS decomposition after an arithmetic operation (s / ||s||, 2 * s, s ** 2): the split is altered
            anc = A.ancestors([stores[0]['value'], stores[1]['value']])
            altered = False
            for _k, key in new_atoms:
                a_ = anc.get(key) if isinstance(key, int) else None
                hops = 0
                while isinstance(a_, Arr) and hops < 6 and not altered:
                    ex_ = a_.tags.get('expr')
                    if ex_ and ex_[0] in ('truediv', 'mul', 'pow', 'add', 'sub'):
                        for o_ in ex_[1]:
                            pv_ = o_.tags.get('prov') if isinstance(o_, Arr) else None
                            if isinstance(pv_, dict) and pv_.get('svd') == e['uid'] and pv_.get('role') == 's':
                                altered = True
                    a_ = a_.parents[0] if a_.parents else None
                    hops += 1
            if altered:
                bad.append(f'the singular values of the decomposition are changed by an arithmetic operation before they are stored: the cores multiply to  {mx.show(got)}  instead of the decomposed block')
            else:
                (unknown if new_atoms else bad).append(f'the cores stored after the decomposition multiply to  {mx.show(got)}  instead of the decomposed block  {mx.show(want)}')
    return bad, unknown


def normalisation_currency(res, nz=None):
    """with normalize > 0 every returned state k >= 1 is scaled by a norm that was computed during step k (from the state that step produced), not by one that an
    earlier state was already scaled with.  Returns (violations, undecided): lists of step numbers."""
    def cores(t):
        return [c for c in t._attrs['cores'] if isinstance(c, Arr)]

    def is_norm(a):
        return a.ndim == 0 and a.origin in ('norm', 'amax')
    bad, unknown, wrong = [], [], []
    prev = A.ancestors(cores(res[0]))
    for k in range(1, len(res)):
        anc = A.ancestors(cores(res[k]))
        fresh = {i: a for i, a in anc.items() if i not in prev}
        kinds = {a.origin for a in fresh.values() if is_norm(a)}
        if kinds:
            # the requested norm: p = 1 is a maximum of column sums, p = 2 the Euclidean norm of the orthonormalised train
            if nz is not None and not (('amax' in kinds) if nz == 1 else ('norm' in kinds and 'amax' not in kinds)):
                wrong.append(k)
            prev = anc
            continue
        # no norm was computed since the previous state: is the state scaled at all in this step, and with what?
        stale_scaled = False
        for a in fresh.values():
            for p_ in (a.parents or ()):
                if isinstance(p_, Arr) and p_.ndim == 0 and (is_norm(p_) or any(is_norm(q) for q in A.ancestors([p_]).values())):
                    stale_scaled = True
        (bad if stale_scaled else unknown).append(k)
        prev = anc
    if nz is not None:
        return bad, unknown, wrong
    return bad, unknown


def site_times(sc):
    """net evolution time per site and per bond from the expm_multiply events: exp(c M) v  with c = -1j * t"""
    sites, bonds, bad = {}, 0.0, []
    for e in sc.events('expm_multiply'):
        scale = e['matrix'].tags.get('scale')
        if scale is None:
            bad.append((e, 'the exponent is not a scalar multiple of a matrix'))
            continue
        c = complex(scale[0])
        t = (c / (-1j))
        if abs(t.imag) > 1e-12:
            bad.append((e, f'the exponent coefficient {c} is not of the form -1j * t with real t (the propagator is not unitary)'))
            continue
        t = t.real
        modes = [l.resolve().key for g in e['vector'].legs for l in g if l.resolve().kind == 'M']
        if modes:
            for k in modes:
                sites[k] = sites.get(k, 0.0) + t
        else:
            bonds += t
    return sites, bonds, bad


def check(repo, tier):
    run = Run('C11', tier, repo, 'The TDVP drivers and their core updates (solvers/ode.py, environments from solvers/sle.py) are interpreted from source with concrete '
              'order / step count and symbolic ranks; the hybrid driver is explored with both outcomes of every rank test; rules on the event log.')
    run.rule('D1', 'typing of environments, micro matrices and projected bond operators P^H M P (P = Q (x) I): all contractions well-typed; exponentiated matrices have '
             'matching row/column types; the evolved vector has the column type')
    run.rule('D2', 'slot typestate: no environment read unset or stale; no exception on admissible inputs (any order >= 1, any ranks)')
    run.rule('D3', 'liveness: the result of every exponential reaches the returned state')
    run.rule('D4', 'time accounting: per time step every site is evolved by a net time equal to step_size (forward core/pair evolutions minus backward bond/carried-core '
             'evolutions), with exponents of the form -1j*t')
    run.rule('D5', 'trajectory: initial value first (by identity), one distinct new object per step satisfying the class invariant; cores 1..d-1 orthonormal factors after a step')
    run.rule('D6', 'Krylov: Lanczos recurrences in normal form (conjugated bra in alpha, w - alpha v - beta v_prev, symmetric tridiagonal stores, sum_j c_j v_j)')
    run.rule('D8', 'normalize = p > 0: the factor applied to the state of step k is the reciprocal of the p-norm computed from the state produced by step k')
    run.rule('D10', 'tdvp2site: the two cores stored after the decomposition of the evolved two-site block multiply back to that block (after undoing the truncation selectors)')
    run.rule('D9', 'tdvp1site: every local evolution acts in an isometric frame: when site(s) S are evolved, the cores left of S are left- and the cores right of S right-orthonormal factors '
             '(for an arbitrary initial state this requires an orthonormalisation before the first sweep); refuted only by cores whose expression is fully known')
    run.rule('D7', 'frame: operator and initial state not modified (Layer 1)')
    run.trusted = ['leg semantics of the NumPy/SciPy transfer functions', 'the contraction rule', 'expm_multiply(c*M, v) denotes exp(c M) v']
    orders = (1, 2, 3, 4) if tier == 'thorough' else (1, 2, 3)
    run.bounds = f'orders {orders} (hybrid driver: orders 2..{3 if tier == "quick" else 4}, all outcomes of the rank tests), 1-2 time steps, complex data, symbolic ranks, threshold 0'
    mods = {ODE, 'solvers.sle'}
    n_contr = 0
    grid = []
    for d in orders:
        grid.append(('tdvp1site', d, 1, False))
        if d >= 2:
            grid.append(('tdvp2site', d, 1, False))
            grid.append(('tdvp2site', d, 1, True))
            grid.append(('tdvp2site', d, 1, 'threshold 0'))
    grid.append(('tdvp1site', 3, 2, False))
    grid.append(('tdvp2site', 3, 2, False))
    for d in ((2, 3) if tier == 'quick' else (2, 3, 4)):
        grid.append(('tdvp', d, 1, True))
    grid += [('tdvp1site', 2, 2, False, 2), ('tdvp1site', 2, 2, False, 1), ('tdvp2site', 2, 2, False, 2), ('tdvp2site', 2, 3, False, 1)]
    for which, d, steps, capped, *nz in grid:
        nz = nz[0] if nz else 0
        entry = f'{ODE}.{which}'
        scen0 = f'{which}(order={d}, steps={steps}{", max_rank=rho" if capped else ""}{", threshold=0" if capped == "threshold 0" else ""}{f", normalize={nz}" if nz else ""})'
        paths = run_tdvp(repo, which, d, steps, capped=capped, normalize=nz)
        for ch, sc, res, exc in paths:
            scen = scen0
            pscen = scen0 + (f' [rank-test outcomes {"".join("T" if c else "F" for c in ch)}]' if ch else '')
            n_contr += l2rules.typing_obligations(run, 'C11', 'D1', repo, sc, scen, mods)
            l2rules.relative_cut_obligations(run, 'C11', 'D1', repo, sc, scen, mods)
            if exc is not None:
                run.oblige('D2', (entry, scen, 'raises', exc.exc_type, exc.where), False)
                l2rules.raised_finding(run, 'C11', 'D2', repo, entry, scen, exc, instance=f'{which}:order={d}:steps={steps}')
                continue
            run.oblige('D2', (entry, scen, tuple(ch)), True)
            l2rules.stale_obligation(run, 'C11', 'D2', repo, sc, entry, scen, mods)
            ok = isinstance(res, list) and len(res) == steps + 1 and res[0] is sc.inputs['x'] and len({id(t) for t in res}) == len(res)
            run.oblige('D5', (entry, scen, 'trajectory'), ok)
            fn = repo.fn(entry)
            if not ok:
                run.add(Finding('C11', 'D5', fn.where, 'trajectory shape', f'{pscen}: the returned list does not consist of the initial state followed by one new object per step', fn.file, fn.node.lineno))
                continue
            for t in res[1:]:
                l2rules.invariant_obligation(run, 'C11', 'D5', repo, sc, t, entry, scen, 'returned state')
            # D9 isometric frame at every local evolution
            # (decided for the one-site driver, for which the property claims exactness and conservation; the two-site scheme is exact at maximal ranks in any gauge,
            # and the hybrid driver is a known finding as a whole)
            fb = frame_at_evolutions(sc) if which == 'tdvp1site' else []
            seen_ = set()
            for e_, why_ in fb:
                where, cons, f_, ln = l2rules.ev_where(repo, e_, mods)
                if (where, cons) in seen_:
                    continue
                seen_.add((where, cons))
                run.add(Finding('C11', 'D9', where, cons, f'{scen}: {why_}', f_, ln, {'scenario': scen}))
            run.oblige('D9', (entry, scen, tuple(ch)), not fb)
            # D10 the SVD split of the evolved two-site block is a re-factorisation
            if which == 'tdvp2site':
                sb, su = split_preserves_block(sc, bool(capped))
                if su and not sb:
                    raise AnalysisError(f'{scen}: undecided: ' + '; '.join(sorted(set(su))[:2]))
                run.oblige('D10', (entry, scen, tuple(ch)), not sb)
                if sb:
                    fnu = repo.fn(f'{ODE}.__update_core_tdvp2site')
                    run.add(Finding('C11', 'D10', fnu.where, 'split of the evolved two-site block', f'{scen}: ' + '; '.join(sorted(set(sb))[:2]), fnu.file, fnu.node.lineno))
            # D8 normalisation
            if nz:
                nb, nu, nw = normalisation_currency(res, nz)
                if nu and not nb and not nw:
                    raise AnalysisError(f'{scen}: no norm computation is recognised in step(s) {nu} although normalize={nz}')
                run.oblige('D8', (entry, scen, tuple(ch)), not nb and not nw)
                if nw:
                    run.add(Finding('C11', 'D8', fn.where, 'kind of norm', f'{pscen}: the state(s) of step(s) {nw} are not divided by the {"Manhattan (p=1)" if nz == 1 else "Euclidean (p=2)"} norm that normalize={nz} asks for',
                                    fn.file, fn.node.lineno))
                if nb:
                    run.add(Finding('C11', 'D8', fn.where, 'normalisation factor', f'{pscen}: the state(s) of step(s) {nb} are scaled by the reciprocal of a norm that was computed before that step '
                                    f'(an earlier state was already scaled with it): after the first step the state is rescaled again and again instead of being normalised', fn.file, fn.node.lineno))
            # D3 liveness
            anc = A.ancestors([c for t in res[1:] for c in t._attrs['cores'] if isinstance(c, Arr)])
            for e in sc.events('expm_multiply'):
                live = id(e['result']) in anc
                where, cons, f, ln = l2rules.ev_where(repo, e, mods)
                run.oblige('D3', (where, cons), live, sample={'rule': 'D3', 'scenario': scen, 'construct': cons, 'reaches_returned_state': live} if len([s for s in run.samples if s.get('rule') == 'D3']) < 2 else None)
                if not live:
                    run.add(Finding('C11', 'D3', where, cons, f'{scen}: the result of this exponential never reaches the returned state (it is overwritten or dropped)', f, ln))
            # D4 time accounting
            sites, bonds, bad = site_times(sc)
            for e, why in bad:
                where, cons, f, ln = l2rules.ev_where(repo, e, mods)
                run.oblige('D4', (where, cons, 'form'), False)
                run.add(Finding('C11', 'D4', where, cons, f'{scen}: {why}', f, ln))
            want = H * steps
            if which == 'tdvp1site' and not bad and abs(bonds + (d - 1) * H * steps) > 1e-9:
                # one-site scheme: every bond matrix is evolved backward by half a step in each half sweep, whatever its size (a 1 x 1 bond matrix carries a phase)
                run.add(Finding('C11', 'D4', fn.where, 'backward evolution of the bond matrices', f'{pscen}: the {d - 1} bond matrices are evolved by a total time {bonds:g} per {steps} step(s) instead '
                                f'of {-(d - 1) * H * steps:g} (a backward evolution is skipped on this path)', fn.file, fn.node.lineno))
                run.oblige('D4', (entry, scen, tuple(ch), 'bond time'), False)
            wrong = {k: v for k, v in sites.items() if abs(v - want) > 1e-9}
            missing = [k for k in range(d) if k not in sites]
            good = not wrong and not missing and not bad
            run.oblige('D4', (entry, scen, tuple(ch), 'net time'), good, sample={'rule': 'D4', 'scenario': pscen, 'net_time_per_site': sites, 'bond_time': bonds, 'step_size': H} if len([s for s in run.samples if s.get('rule') == 'D4']) < 3 else None)
            if not good and not bad:
                detail = ', '.join(f'site {k}: {v:g}' for k, v in sorted(wrong.items())) + (f'; sites never evolved: {missing}' if missing else '')
                # (keyed by the outcome, not by the sequence of branch outcomes that led to it: a refactoring may add or remove data-dependent tests)
                inst = f'{which}:order={d}:steps={steps}:' + ','.join(f'{k}={v:g}' for k, v in sorted(wrong.items())) + (':missing=' + ','.join(map(str, missing)) if missing else '')
                run.add(Finding('C11', 'D4', fn.where, 'net evolution time per site', f'{pscen}: with step_size={H} and {steps} step(s) every site must be evolved by a net time {want:g}, but {detail}',
                                fn.file, fn.node.lineno, {'sites': sites, 'bonds': bonds, 'instances': [inst]}))
    krylov_rule(run, repo)
    l2rules.frame_obligations(run, 'C11', 'D7', repo, [f'{ODE}.tdvp', f'{ODE}.tdvp1site', f'{ODE}.tdvp2site', f'{ODE}.krylov'])
    run.analysed = {'contractions_typed': n_contr, 'scenarios': len(grid)}
    run.floor('typed contractions in the TDVP code', n_contr, 300)
    from . import p_c07
    p_c07.controls(run, repo)
    return run


# ------------------------------------------------------------------------------------------------ Krylov (TT algebra)
def krylov_rule(run, repo):
    import sympy as sp
    from . import alg
    from .interp import Interp, Frame, Raised, Fork

    log = alg.Log()

    class Bra:
        def __init__(self, v, conj):
            self.v, self.conj = v, conj

        def __matmul__(self, o):
            if not isinstance(o, alg.VecT):
                raise TypeError('bra @ non-vector')
            return sp.Function('ip' if self.conj else 'bilinear')(sp.Symbol('K' + alg.hashlib.md5(repr(self.v.key()).encode()).hexdigest()[:8]),
                                                                  sp.Symbol('K' + alg.hashlib.md5(repr(o.key()).encode()).hexdigest()[:8]))

        dot = __matmul__

    def v_transpose(self, cores=None, conjugate=False, overwrite=False):
        return Bra(self, conjugate)
    alg.VecT.transpose = v_transpose

    class TMat:
        """the small tridiagonal matrix: np.zeros([n, n]) with scalar stores"""

        def __init__(self, shape, dtype=None):
            self.shape = tuple(shape)
            self.entries = {}
            self.dtype = dtype

        def __setitem__(self, idx, v):
            self.entries[idx] = v

        def __getitem__(self, idx):
            if len(self.shape) == 1:
                return Coef(self, idx)
            return self.entries.get(idx, 0)

        def __rmul__(self, c):
            return Scaled(self, alg.S(c))

        __mul__ = __rmul__

    class Scaled:
        def __init__(self, m, c):
            self.m, self.c = m, c

        def __mul__(self, c):
            return Scaled(self.m, self.c * alg.S(c))

        __rmul__ = __mul__

    class Coef(sp.Symbol):
        pass

    state = {}

    class Np(alg.FakeNp):
        @staticmethod
        def zeros(shape, dtype=None):
            return TMat(shape if isinstance(shape, (list, tuple)) else [shape], dtype)

    def expm_multiply(M, w):
        state['expm'] = (M, w)
        return ResultVec(len(w.entries) if isinstance(w, TMat) else 0, w)

    class ResultVec:
        def __init__(self, n, w):
            self.w = w

        def __getitem__(self, j):
            return sp.Symbol(f'c{j}')

    class Sparse:
        class linalg:
            pass
    Sparse.linalg.expm_multiply = staticmethod(expm_multiply)
    dim = 3
    A_ = alg.OpT({1: sp.Integer(1)}, log)
    x0 = alg.VecT.atom('x0', log)
    libs = {'numpy': Np, 'math': math, 'time': alg.FakeTime, 'typing': object(), 'scipy': object(), 'scipy.linalg': object(), 'scipy.sparse.linalg': Sparse.linalg}
    it = Interp(repo, libs=libs, intercept={'utils.progress': lambda it, *a, **k: 0.0})
    fn = repo.fn(f'{ODE}.krylov')
    it.stack.append(Frame(fn, repo.modules[fn.mod], {}))
    hh = sp.Symbol('h', positive=True)
    try:
        res = it.call_fn(fn, [A_, x0, dim, hh], {'threshold': 0, 'max_rank': 10, 'normalize': 0})
    except (Raised, Fork, TypeError) as e:
        raise AnalysisError(f'krylov could not be interpreted over the TT algebra: {e}')
    # expected Lanczos: v0 = x0; w = A v0; a0 = <w|v0>; w = w - a0 v0; for i: b = ||w||; v_i = w/b; w = A v_i; a_i = <w|v_i>; w = w - a_i v_i - b v_{i-1}
    def K(v):
        return sp.Symbol('K' + alg.hashlib.md5(repr(v.key()).encode()).hexdigest()[:8])
    ip = sp.Function('ip')
    vs = [x0]
    w = A_.dot(vs[-1])
    al = [ip(K(w), K(vs[-1]))]
    w = w - al[0] * vs[-1]
    bs = []
    for i in range(1, dim):
        b = w.norm()
        bs.append(b)
        vs.append((1 / b) * w)
        w = A_.dot(vs[-1])
        al.append(ip(K(w), K(vs[-1])))
        w = w - al[-1] * vs[-1] - b * vs[-2]
    M, w0 = state.get('expm', (None, None))
    ok = isinstance(M, Scaled) and isinstance(M.m, TMat)
    run.oblige('D6', ('krylov', 'exponent'), ok)
    if not ok:
        run.add(Finding('C11', 'D6', fn.where, 'small exponential', 'the Krylov coefficients are not obtained as exp(c*T) e_0 with the tridiagonal T', fn.file, fn.node.lineno))
        return
    T = M.m
    good = sp.simplify(M.c - (-sp.I * hh)) == 0
    run.oblige('D6', ('krylov', 'coefficient'), good)
    if not good:
        run.add(Finding('C11', 'D6', fn.where, 'exponent coefficient', f'the small exponential uses the coefficient {M.c} instead of -1j*step_size', fn.file, fn.node.lineno))
    want = {}
    for i in range(dim):
        want[(i, i)] = al[i]
    for i in range(1, dim):
        want[(i, i - 1)] = bs[i - 1]
        want[(i - 1, i)] = bs[i - 1]
    bad = []
    for k in set(want) | set(T.entries):
        g, w_ = T.entries.get(k, 0), want.get(k, 0)
        if sp.simplify(sp.sympify(g) - w_) != 0:
            bad.append(f'T[{k[0]},{k[1]}] = {g} (expected {w_})')
    run.oblige('D6', ('krylov', 'tridiagonal'), not bad, sample={'rule': 'D6', 'T_entries': {str(k): str(v) for k, v in sorted(T.entries.items())}})
    if bad:
        run.add(Finding('C11', 'D6', fn.where, 'Lanczos matrix', 'the projected matrix is not the symmetric tridiagonal matrix of the Lanczos recurrence with conjugated inner products: ' + '; '.join(bad[:3]), fn.file, fn.node.lineno))
    e0 = isinstance(w0, TMat) and w0.entries == {0: 1}
    run.oblige('D6', ('krylov', 'start vector'), e0)
    if not e0:
        run.add(Finding('C11', 'D6', fn.where, 'start vector', 'the small exponential is not applied to the first unit vector', fn.file, fn.node.lineno))
    exp_state = None
    for j in range(dim):
        term = sp.Symbol(f'c{j}') * vs[j]
        exp_state = term if exp_state is None else exp_state + term
    good = isinstance(res, alg.VecT) and res.same(exp_state)
    run.oblige('D6', ('krylov', 'combination'), good)
    if not good:
        run.add(Finding('C11', 'D6', fn.where, 'linear combination of Krylov tensors', f'the returned state is {res!r:.300} but sum_j c_j v_j with the Lanczos basis is {exp_state!r:.300}', fn.file, fn.node.lineno))
    ok = not A_.touched and not x0.touched
    run.oblige('D7', ('krylov', 'inputs'), ok)
    if not ok:
        run.add(Finding('C11', 'D7', fn.where, 'inputs modified', 'krylov modifies its operator or initial value in place', fn.file, fn.node.lineno))
