"""C02  Contractions and structural rearrangements (DESIGN.md 3/C02): tensordot (4 modes), rank_tensordot, concatenate, rank_transpose,
tt2qtt / qtt2tt, diag, squeeze, build_core.  tensor_train.py interpreted over the Layer-2 array domain."""
import itertools
import math

from . import arr as A
from . import blocks, l2, l2rules
from .arr import Arr
from .core import AnalysisError, Finding, Run, norm_text
from .p_c01 import legs_sig
from .shape import Size, sz_eq

TTM = 'tensor_train'
MODES = ('last-first', 'last-last', 'first-last', 'first-first')


def site_of(core):
    """(tensor name, site) of the row-mode index of a core, or None"""
    for l in tuple(core.legs[1]) + (tuple(core.legs[2]) if core.ndim == 4 else ()):          # (the column index for trains whose modes sit in the columns only)
        l = l.resolve()
        if l.kind == 'M':
            return (l.origin.split('.')[0], l.key)
    return None


def expected_tensordot(mode, ds, do, n):
    """(pairs [(self site, other site)], result site order [(tensor, site)])"""
    if mode == 'last-first':
        pairs = [(ds - n + i, i) for i in range(n)]
        order = [('a', k) for k in range(ds - n)] + [('b', k) for k in range(n, do)]
    elif mode == 'last-last':
        pairs = [(ds - n + i, do - n + i) for i in range(n)]
        order = [('a', k) for k in range(ds - n)] + [('b', k) for k in reversed(range(do - n))]
    elif mode == 'first-last':
        pairs = [(i, do - n + i) for i in range(n)]
        order = [('b', k) for k in range(do - n)] + [('a', k) for k in range(n, ds)]
    else:
        pairs = [(i, i) for i in range(n)]
        order = [('b', k) for k in reversed(range(n, do))] + [('a', k) for k in range(n, ds)]
    return pairs, order


def check(repo, tier):
    run = Run('C02', tier, repo, 'tensor_train.py interpreted from source over symbolic arrays; every mode index carries (tensor, site); rules on contraction events, '
              'result chains, leg order, block stores and dtype events.')
    run.rule('D1', 'tensordot: each pairwise core contraction pairs the documented sites (row with row, column with column); dropped indices are boundary ranks; the result is a '
             'well-formed chain whose sites appear in the documented order; metadata recomputed from shapes; overwrite=False leaves self untouched')
    run.rule('D2', 'rank_tensordot contracts the boundary rank with the matching matrix axis; concatenate joins chains and refreshes metadata; rank_transpose reverses cores and all metadata and swaps the rank axes')
    run.rule('D3', 'tt2qtt splits every mode index at the given factors in C order, row and column factors of one split stay together; qtt2tt merges; merging what was split restores the original indices')
    run.rule('D4', 'diag duplicates the mode index of the selected cores into (row, column), complex dtype, other cores kept; squeeze yields a well-formed chain with boundary ranks 1 over exactly the sites with a non-trivial mode')
    run.rule('D5', 'build_core / build_core_vector: every ndarray element of the list is stored at its block [i, :, :, j] (none skipped on any path), zeros stay zero, the core dtype covers every element')
    run.trusted = ['NumPy transfer functions', 'docstring of TT.tensordot for the mode order']
    top = 3
    run.bounds = f'tensordot: all 4 modes, operand orders 1..{top}, all axis counts; other operations orders 1..4; symbolic ranks/mode sizes'

    def F(qual, rule, what, msg):
        fn = repo.fn(qual)
        return Finding('C02', rule, fn.where, what, msg, fn.file, fn.node.lineno)

    # ------------------------------------------------------------------ D1 tensordot
    entry = f'{TTM}.TT.tensordot'
    # operand kinds: genuine operators (row and column indices), and trains whose modes sit in the row indices only ('vec': states) or in the column indices only
    # ('bra': transposed states, for which isoperator() is False as well) -- the contraction is over (row, column) pairs whatever the kind
    grid = [(mode, ds, do, n, 'op', 'op') for mode, ds, do in itertools.product(MODES, range(1, top + 1), range(1, top + 1)) for n in range(1, min(ds, do) + 1)]
    grid += [(mode, ds, do, n, ka, kb) for mode in MODES for ds, do, n in (((2, 2, 1), (2, 2, 2), (3, 2, 1)) if tier == 'thorough' else ((2, 2, 1), (2, 2, 2)))
             for ka, kb in (('bra', 'bra'), ('vec', 'vec'), ('vec', 'op'), ('op', 'bra'))]
    for mode, ds, do, n, ka, kb in grid:
        if True:
            for overwrite in ((False, True) if (tier == 'thorough' or (ds, do, n) in ((2, 2, 1), (3, 2, 2))) and (ka, kb) == ('op', 'op') else (False,)):
                scen = f'tensordot(mode={mode}, order self={ds}, other={do}, num_axes={n}, overwrite={overwrite})' + ('' if (ka, kb) == ('op', 'op') else f' [self: {ka}, other: {kb}]')
                pairs, order = expected_tensordot(mode, ds, do, n)

                def body(sc, ka=ka, kb=kb):
                    a = sc.tt('a', ds, 'op', square=False, row=[1] * ds if ka == 'bra' else None, col=[1] * ds if ka == 'vec' else None)
                    row = [1 if kb == 'bra' else sc.atom(f'p{k}') for k in range(do)]
                    col = [1 if kb == 'vec' else sc.atom(f'q{k}') for k in range(do)]
                    for i, j in pairs:
                        row[j] = a._attrs['row_dims'][i]
                        col[j] = a._attrs['col_dims'][i]
                    b = sc.tt('b', do, 'op', square=False, row=row, col=col)
                    sc.inputs = (a, b)
                    sc.old = list(a._attrs['cores'])
                    return sc.method(a, 'tensordot', b, n, mode=mode, overwrite=overwrite)
                for ch, sc, res, exc in l2.explore(repo, body, typed=False):
                    if exc is not None:
                        run.oblige('D1', (entry, scen), False)
                        l2rules.raised_finding(run, 'C02', 'D1', repo, entry, scen, exc)
                        continue
                    if not l2rules.invariant_obligation(run, 'C02', 'D1', repo, sc, res, entry, scen):
                        continue
                    a, b = sc.inputs
                    bad = []
                    # (a) pairing of sites in the core-by-core contractions
                    seen_pairs = set()
                    for e in sc.events('contract'):
                        if e.get('fn') is None or e['fn'].qual != entry:
                            continue
                        la = [l.resolve() for i in e['axes'][0] for l in e['a'].legs[i]]
                        lb = [l.resolve() for j in e['axes'][1] for l in e['b'].legs[j]]
                        for x, y in zip(la, lb):
                            if x.kind == 'M' and y.kind == 'M':
                                if x.var != y.var:
                                    bad.append(f'a row index is contracted with a column index: {x} with {y}')
                                sa, sb = (x.origin.split('.')[0], x.key), (y.origin.split('.')[0], y.key)
                                if sa[0] == 'b':
                                    sa, sb = sb, sa
                                seen_pairs.add((sa[1], sb[1]))
                            elif (x.kind == 'M') != (y.kind == 'M'):
                                bad.append(f'a mode index is contracted with a rank index: {x} with {y}')
                    if seen_pairs != set(pairs):
                        bad.append(f'contracted site pairs (self, other) = {sorted(seen_pairs)}, documented {sorted(pairs)}')
                    # (b) dropped indices
                    for e in sc.events('index-drop'):
                        if e.get('fn') is not None and e['fn'].qual == entry and isinstance(e['index'], int):
                            bad.append(f'a non-trivial index {list(e["legs"])} is dropped with a constant index')
                    # (c)/(d) order of the sites in the result
                    got = [site_of(c) for c in res._attrs['cores']]
                    if order:
                        if got != order:
                            bad.append(f'sites of the result are {got}, documented order {order}')
                    elif not (res._attrs['order'] == 1 and got == [None]):
                        bad.append(f'complete contraction should give one mode-free core, got {got}')
                    if not (sz_eq(res._attrs['ranks'][0], 1 if order == [] or True else 1)):
                        pass
                    # row / column indices stay row / column
                    for k, c in enumerate(res._attrs['cores']):
                        for l in c.legs[1]:
                            if l.resolve().kind == 'M' and l.resolve().var != +1:
                                bad.append(f'core {k}: a column index sits on the row axis')
                        for l in c.legs[2]:
                            if l.resolve().kind == 'M' and l.resolve().var != -1:
                                bad.append(f'core {k}: a row index sits on the column axis')
                    if overwrite:
                        if res is not a:
                            bad.append('overwrite=True does not return self')
                    else:
                        if res is a or any(a._attrs['cores'][k] is not sc.old[k] for k in range(ds)) or a._attrs['order'] != ds:
                            bad.append('overwrite=False modified self')
                    run.oblige('D1', (entry, scen), not bad, sample={'rule': 'D1', 'scenario': scen, 'result_sites': str(got), 'contracted_pairs': sorted(seen_pairs)} if (ds, do, n) == (3, 2, 1) and not overwrite else None)
                    if bad:
                        run.add(F(entry, 'D1', f'tensordot mode {mode}', f'{scen}: ' + '; '.join(sorted(set(bad))[:3])))
    # ------------------------------------------------------------------ D2
    for d in (1, 2, 3):
        for mode in ('last', 'first'):
            for overwrite in (False, True):
                scen = f'rank_tensordot(order={d}, mode={mode}, overwrite={overwrite})'
                entry = f'{TTM}.TT.rank_tensordot'

                def body(sc):
                    rl, rr = sc.atom('rl'), sc.atom('rr')
                    ranks = [rl] + [sc.atom(f'ra{k}') for k in range(1, d)] + [rr]
                    a = sc.tt('a', d, 'op', square=False, ranks=ranks)
                    q = sc.atom('q')
                    mat = Arr([rr, q] if mode == 'last' else [q, rl], [a._attrs['cores'][-1].legs[3], (A.opaque_leg(q, 'matrix'),)] if mode == 'last' else [(A.opaque_leg(q, 'matrix'),), a._attrs['cores'][0].legs[0]], 'real', None, {}, 'matrix')
                    sc.inputs = (a, mat, q)
                    sc.old = list(a._attrs['cores'])
                    return sc.method(a, 'rank_tensordot', mat, mode=mode, overwrite=overwrite)
                for ch, sc, res, exc in l2.explore(repo, body, typed=False):
                    if exc is not None:
                        run.oblige('D2', (entry, scen), False)
                        l2rules.raised_finding(run, 'C02', 'D2', repo, entry, scen, exc)
                        continue
                    if not l2rules.invariant_obligation(run, 'C02', 'D2', repo, sc, res, entry, scen):
                        continue
                    a, mat, q = sc.inputs
                    bad = []
                    want = q
                    got = res._attrs['ranks'][-1] if mode == 'last' else res._attrs['ranks'][0]
                    if not sz_eq(got, want):
                        bad.append(f'boundary rank is {got}, expected the free matrix dimension {want}')
                    c = res._attrs['cores'][-1] if mode == 'last' else res._attrs['cores'][0]
                    if site_of(c) != ('a', d - 1 if mode == 'last' else 0) or len(c.shape) != 4:
                        bad.append(f'the boundary core does not keep its (row, column) layout: {c.legs}')
                    if (not overwrite) and (res is a or any(a._attrs['cores'][k] is not sc.old[k] for k in range(d))):
                        bad.append('overwrite=False modified self')
                    run.oblige('D2', (entry, scen), not bad)
                    if bad:
                        run.add(F(entry, 'D2', 'rank_tensordot', f'{scen}: ' + '; '.join(bad[:3])))
        for d2, aslist, overwrite in itertools.product((1, 2), (False, True), (False, True)):
            scen = f'concatenate(order={d}+{d2}, other as {"list" if aslist else "TT"}, overwrite={overwrite})'
            entry = f'{TTM}.TT.concatenate'

            def body(sc):
                mid = sc.atom('rm')
                a = sc.tt('a', d, 'op', square=False, ranks=[1] + [sc.atom(f'ra{k}') for k in range(1, d)] + [mid])
                bc = sc.cores('b', d2, 'op', square=False, ranks=[mid] + [sc.atom(f'rb{k}') for k in range(1, d2)] + [1], row=[sc.atom(f'p{k}') for k in range(d2)], col=[sc.atom(f'q{k}') for k in range(d2)])
                b = bc if aslist else sc.interp.instantiate(sc.tt_cls, [bc], {})
                sc.inputs = (a,)
                sc.old = list(a._attrs['cores'])
                return sc.method(a, 'concatenate', b, overwrite=overwrite)
            for ch, sc, res, exc in l2.explore(repo, body, typed=False):
                if exc is not None:
                    run.oblige('D2', (entry, scen), False)
                    l2rules.raised_finding(run, 'C02', 'D2', repo, entry, scen, exc)
                    continue
                if not l2rules.invariant_obligation(run, 'C02', 'D2', repo, sc, res, entry, scen, chain=False):
                    continue
                got = [site_of(c) for c in res._attrs['cores']]
                want = [('a', k) for k in range(d)] + [('b', k) for k in range(d2)]
                a = sc.inputs[0]
                bad = []
                if got != want:
                    bad.append(f'sites {got}, expected {want}')
                if (not overwrite) and (res is a or len(a._attrs['cores']) != d or a._attrs['order'] != d):
                    bad.append('overwrite=False modified self')
                run.oblige('D2', (entry, scen), not bad)
                if bad:
                    run.add(F(entry, 'D2', 'concatenate', f'{scen}: ' + '; '.join(bad[:3])))
        # the operand may be the receiver itself (or its own core list): doubling a chain, in place or not
        for aslist, overwrite in itertools.product((False, True), (False, True)):
            scen = f'concatenate(order={d}, other is {"self.cores" if aslist else "self"}, overwrite={overwrite})'
            entry = f'{TTM}.TT.concatenate'

            def body(sc):
                a = sc.tt('a', d, 'op', square=False)
                sc.inputs = (a,)
                return sc.method(a, 'concatenate', a._attrs['cores'] if aslist else a, overwrite=overwrite)
            for ch, sc, res, exc in l2.explore(repo, body, typed=False):
                if exc is not None:
                    run.oblige('D2', (entry, scen), False)
                    l2rules.raised_finding(run, 'C02', 'D2', repo, entry, scen, exc)
                    continue
                if not l2rules.invariant_obligation(run, 'C02', 'D2', repo, sc, res, entry, scen, chain=False):
                    continue
                got = [site_of(c) for c in res._attrs['cores']]
                want = [('a', k) for k in range(d)] * 2
                a = sc.inputs[0]
                bad = []
                if got != want:
                    bad.append(f'sites {got}, expected {want}')
                if (not overwrite) and (res is a or len(a._attrs['cores']) != d or a._attrs['order'] != d):
                    bad.append('overwrite=False modified self')
                run.oblige('D2', (entry, scen), not bad)
                if bad:
                    run.add(F(entry, 'D2', 'concatenate', f'{scen}: ' + '; '.join(bad[:3])))
        for overwrite in (False, True):
            scen = f'rank_transpose(order={d}, overwrite={overwrite})'
            entry = f'{TTM}.TT.rank_transpose'

            def body(sc):
                a = sc.tt('a', d, 'op', square=False, ranks=[sc.atom('rl')] + [sc.atom(f'ra{k}') for k in range(1, d)] + [sc.atom('rr')])
                sc.inputs = (a,)
                sc.sig0 = [legs_sig(c) for c in a._attrs['cores']]
                sc.n = len(a._attrs['cores'])
                return sc.method(a, 'rank_transpose', overwrite=overwrite)
            for ch, sc, res, exc in l2.explore(repo, body, typed=False):
                if exc is not None:
                    run.oblige('D2', (entry, scen), False)
                    l2rules.raised_finding(run, 'C02', 'D2', repo, entry, scen, exc)
                    continue
                if not l2rules.invariant_obligation(run, 'C02', 'D2', repo, sc, res, entry, scen):
                    continue
                bad = []
                for k, c in enumerate(res._attrs['cores']):
                    s0 = sc.sig0[d - 1 - k]
                    if legs_sig(c) != [s0[3], s0[1], s0[2], s0[0]]:
                        bad.append(f'core {k} is not core {d - 1 - k} of the operand with its rank axes swapped: {c.legs}')
                a = sc.inputs[0]
                if (not overwrite) and (res is a or [legs_sig(c) for c in a._attrs['cores']] != sc.sig0):
                    bad.append('overwrite=False modified self')
                run.oblige('D2', (entry, scen), not bad)
                if bad:
                    run.add(F(entry, 'D2', 'rank_transpose', f'{scen}: ' + '; '.join(bad[:3])))
    # ------------------------------------------------------------------ D3 tt2qtt / qtt2tt
    splits = [[[2]], [[2, 2]], [[2], [3]], [[2, 3], [1, 2]], [[3], [2, 2]]] if tier == 'quick' else [[[2]], [[3]], [[2, 2]], [[2], [3]], [[2, 3], [2]], [[3], [2, 2]], [[2, 2], [3, 2]], [[2], [2], [2]]]
    splits += [[[2], [1], [2]], [[1], [2]]]          # (a site that is not split / a group of a single core, not in last position)
    splits = [(sp, None) for sp in splits] + [([[2], [3]], (1, 0, 'rc')), ([[2], [2]], (1, 0, 'rc')), ([[2, 2], [3]], (1, 1, 'rc'))]
    # one factor with a trivial column (row) dimension only: a train that mixes operator-like and state-like factors
    splits += [([[2]], (0, 1, 'c')), ([[2]], (0, 0, 'c')), ([[2]], (0, 1, 'r')), ([[3], [2]], (0, 1, 'c')), ([[2], [2]], (1, 0, 'r'))]
    for split, unit in splits:
        # split[i] = number of factors of site i for rows (list of factor counts); here: list of factor-count lists
        # unit = (site, position): that factor is 1 x 1 (a trivial factor in the middle of the chain, where the running rank is not 1)
        fac = [s[0] if len(s) == 1 else None for s in split]
        scen = f'tt2qtt/qtt2tt(factors per site {[s for s in split]}' + (f', factor {unit[1]} of site {unit[0]} is ' + {'rc': '1 x 1', 'c': 'p x 1', 'r': '1 x q'}[unit[2]] if unit else '') + ')'
        entry = f'{TTM}.TT.tt2qtt'

        def body(sc):
            d = len(split)
            rows, cols, rdims, cdims = [], [], [], []
            for i, s in enumerate(split):
                nf = s[0]
                rf = [1 if unit and unit[:2] == (i, j) and 'r' in unit[2] else sc.atom(f'p{i}_{j}') for j in range(nf)]
                cf = [1 if unit and unit[:2] == (i, j) and 'c' in unit[2] else sc.atom(f'q{i}_{j}') for j in range(nf)]
                rows.append(rf); cols.append(cf)
                rd, cd = 1, 1
                for x in rf:
                    rd = rd * x
                for x in cf:
                    cd = cd * x
                rdims.append(rd); cdims.append(cd)
            a = sc.tt('a', d, 'op', square=False, row=rdims, col=cdims)
            sc.inputs = (a, rows, cols)
            sc.sig0 = [legs_sig(c) for c in a._attrs['cores']]
            qtt = sc.method(a, 'tt2qtt', rows, cols)
            back = sc.method(qtt, 'qtt2tt', [len(r) for r in rows])
            return qtt, back
        for ch, sc, res, exc in l2.explore(repo, body, typed=True):
            # (typed: the operand is complex; a factor of a decomposition enters a projection conjugated)
            l2rules.typing_obligations(run, 'C02', 'D3', repo, sc, scen, {TTM})
            if exc is not None:
                run.oblige('D3', (entry, scen), False)
                l2rules.raised_finding(run, 'C02', 'D3', repo, entry, scen, exc)
                continue
            qtt, back = res
            ok = l2rules.invariant_obligation(run, 'C02', 'D3', repo, sc, qtt, entry, scen, 'QTT representation') and \
                l2rules.invariant_obligation(run, 'C02', 'D3', repo, sc, back, f'{TTM}.TT.qtt2tt', scen, 'merged tensor train')
            if not ok:
                continue
            a, rows, cols = sc.inputs
            bad = []
            flat_r = [x for r in rows for x in r]
            flat_c = [x for c in cols for x in c]
            if not (len(qtt._attrs['row_dims']) == len(flat_r) and all(sz_eq(x, y) for x, y in zip(qtt._attrs['row_dims'], flat_r)) and all(sz_eq(x, y) for x, y in zip(qtt._attrs['col_dims'], flat_c))):
                bad.append(f'QTT dims {qtt._attrs["row_dims"]} x {qtt._attrs["col_dims"]}, expected {flat_r} x {flat_c}')
            for e in sc.events('reshape-misaligned'):
                if any(l.resolve().kind in ('M', 'R', 'P') for g in e['array'].legs for l in g):
                    bad.append('a reshape cuts or reorders the mode/rank indices: ' + e['detail'][:160])
            # every core of the split train is computed from the operand (a core that is a constant array -- np.ones as a "neutral" core for a 1 x 1 factor -- is not
            # a factor of the operand unless the bond it sits on has rank 1)
            src_ids = {id(c) for c in a._attrs['cores']}
            for k, c in enumerate(qtt._attrs['cores']):
                if isinstance(c, Arr) and not (src_ids & set(A.ancestors([c]))) and not (A.is_one(c.shape[0]) and A.is_one(c.shape[3])):
                    bad.append(f'core {k} of the QTT representation is not computed from any core of the operand ({c.origin})')
            got = [legs_sig(c) for c in back._attrs['cores']]
            if unit:
                got, want0 = None, None          # (the unit factor contributes no index: the merged cores are compared through the class invariant and the dims above)
            if got is not None and got != sc.sig0:
                for k, (g, w) in enumerate(zip(got, sc.sig0)):
                    if g != w:
                        bad.append(f'after split and merge core {k} carries {back._attrs["cores"][k].legs} instead of the original indices')
                        break
            run.oblige('D3', (entry, scen), not bad, sample={'rule': 'D3', 'scenario': scen, 'qtt_dims': str(qtt._attrs['row_dims'])} if len(split) == 2 and len(run.samples) < 10 else None)
            if bad:
                run.add(F(entry, 'D3', 'tt2qtt / qtt2tt index bookkeeping', f'{scen}: ' + '; '.join(bad[:3])))
    # ------------------------------------------------------------------ D4 diag / squeeze
    for d in (1, 2, 3):
        # (modes counted from the end are addressed like everywhere else in the class: diag([-1]) is the last mode)
        for sel in [list(c) for r in range(1, d + 1) for c in itertools.combinations(range(d), r)] + ([[-1], [0, -1]] if d > 1 else []) + ([[-2]] if d > 2 else []):
            want = {s_ % d for s_ in sel}
            scen = f'diag(order={d}, diag_list={sel})'
            entry = f'{TTM}.TT.diag'

            def body(sc):
                a = sc.tt('a', d, 'vec')
                sc.inputs = (a,)
                sc.old = list(a._attrs['cores'])
                return sc.method(a, 'diag', sel)
            for ch, sc, res, exc in l2.explore(repo, body, typed=False):
                if exc is not None:
                    run.oblige('D4', (entry, scen), False)
                    l2rules.raised_finding(run, 'C02', 'D4', repo, entry, scen, exc)
                    continue
                if not l2rules.invariant_obligation(run, 'C02', 'D4', repo, sc, res, entry, scen):
                    continue
                a = sc.inputs[0]
                bad = []
                for k, c in enumerate(res._attrs['cores']):
                    if k in want:
                        if not (sz_eq(c.shape[1], a._attrs['row_dims'][k]) and sz_eq(c.shape[2], a._attrs['row_dims'][k])):
                            bad.append(f'core {k} has mode dims {c.shape[1]} x {c.shape[2]}')
                        if c.dt != 'complex':
                            bad.append(f'core {k} is not complex')
                    elif c is not sc.old[k]:
                        bad.append(f'core {k} is not selected but was replaced')
                if any(a._attrs['cores'][k] is not sc.old[k] for k in range(d)):
                    bad.append('self was modified')
                run.oblige('D4', (entry, scen), not bad)
                if bad:
                    run.add(F(entry, 'D4', 'diag', f'{scen}: ' + '; '.join(bad[:3])))
    # (the long patterns: the order in which the sites with a mode are processed must not depend on how a container happens to enumerate integers >= 8 --
    #  the hash order of a set of ints is their order only below the table size)
    long_patterns = [[1 if k in ks else 0 for k in range(n_)] for n_, ks in ((10, (3, 8)), (11, (2, 9)))] + \
        ([[1 if k in ks else 0 for k in range(n_)] for n_, ks in ((18, (5, 16)), (12, (1, 4, 10)))] if tier == 'thorough' else [])
    for pattern in ([1, 0, 1], [0, 1], [1, 0], [0, 0, 1], [1, 0, 0, 1], [0, 1, 0], [0, 1, 1, 0], [1, 1]) + tuple(long_patterns):
        scen = f'squeeze(modes {["mode" if p else "1x1" for p in pattern]})' if len(pattern) < 9 else f'squeeze(order {len(pattern)}, modes at sites {[k for k, p in enumerate(pattern) if p]})'
        entry = f'{TTM}.TT.squeeze'
        d = len(pattern)

        def body(sc):
            row = [sc.mode(k) if p else 1 for k, p in enumerate(pattern)]
            a = sc.tt('a', d, 'vec', row=row)
            sc.inputs = (a,)
            sc.old = list(a._attrs['cores'])
            return sc.method(a, 'squeeze')
        for ch, sc, res, exc in l2.explore(repo, body, typed=False):
            if exc is not None:
                run.oblige('D4', (entry, scen), False)
                l2rules.raised_finding(run, 'C02', 'D4', repo, entry, scen, exc)
                continue
            if not l2rules.invariant_obligation(run, 'C02', 'D4', repo, sc, res, entry, scen):
                continue
            a = sc.inputs[0]
            want = [('a', k) for k, p in enumerate(pattern) if p]
            got = [site_of(c) for c in res._attrs['cores']]
            bad = []
            if got != want:
                bad.append(f'sites {got}, expected {want}')
            if not (sz_eq(res._attrs['ranks'][0], 1) and sz_eq(res._attrs['ranks'][-1], 1)):
                bad.append(f'boundary ranks {res._attrs["ranks"][0]}, {res._attrs["ranks"][-1]} (dangling rank index: a mode-free boundary core was not absorbed)')
            # every mode-free core must be absorbed: its rank indices must appear in the ancestry of the result
            anc = A.ancestors(res._attrs['cores'])
            for k, p in enumerate(pattern):
                if not p and id(sc.old[k]) not in anc:
                    bad.append(f'the mode-free core {k} does not enter the result')
            if any(a._attrs['cores'][k] is not sc.old[k] for k in range(d)):
                bad.append('self was modified')
            run.oblige('D4', (entry, scen), not bad)
            if bad:
                run.add(F(entry, 'D4', 'squeeze', f'{scen}: ' + '; '.join(bad[:3])))
    # ------------------------------------------------------------------ D5 build_core
    pats = [('c', 0, 'r'), ('r', 'c'), ('r', 0, 'c'), ('c', 'c'), ('r', 'r', 0)]
    for pat, iscomplex, form in itertools.product(pats, (False, True), ('vector', 'matrix')):
        scen = f'build_core({form} form, elements {pat}, iscomplex={iscomplex})'
        entry = f'{TTM}.build_core'

        def body(sc):
            m, n = sc.atom('m'), sc.atom('n')

            def el(t):
                if t == 0:
                    return 0
                return Arr([m, n], None, 'complex' if t == 'c' else 'real', None, {'element': t}, 'matrix')
            if form == 'vector':
                lst = [el(t) for t in pat]
            else:
                lst = [[el(t) for t in pat], [el(t) for t in reversed(pat)]]
            sc.lst = lst
            return sc.call(entry, lst, iscomplex=iscomplex)
        for ch, sc, res, exc in l2.explore(repo, body, typed=False):
            if exc is not None:
                run.oblige('D5', (entry, scen), False)
                l2rules.raised_finding(run, 'C02', 'D5', repo, entry, scen, exc)
                continue
            bad = []
            if not isinstance(res, Arr) or res.ndim != 4:
                bad.append(f'result is not a 4-dimensional core: {res!r}')
            else:
                rows = sc.lst if form == 'matrix' else [[x] for x in sc.lst]
                # entry level: core[i, a, b, j] is entry (a, b) of the matrix at list position (i, j), and 0 where the list holds a 0 -- however the core is
                # assembled (np.zeros + stores, np.stack, np.concatenate ...)
                from . import content
                from .arr import SymIdx
                Qa, Qb = SymIdx(0, res.shape[1], 'a'), SymIdx(0, res.shape[2], 'b')
                Qa.is_query = Qb.is_query = True
                unknown = 0
                for i, r in enumerate(rows):
                    for j, x in enumerate(r):
                        got = content.entry(res, [i, Qa, Qb, j])
                        if isinstance(x, Arr):
                            want = ('src', (x.tags.get('element'), id(x)), (Qa, Qb))
                            same = content.same_content(got, want)
                            if same is None:
                                unknown += 1
                            elif not same:
                                bad.append(f'the matrix at list position {(i, j) if form == "matrix" else (i, 0)} is not stored at core[{i}, :, :, {j}] (found {content.show(got)})')
                        else:
                            if got is None:
                                unknown += 1
                            elif got != ('zero',) and not (got[0] == 'num' and got[1] == 0):
                                bad.append(f'core[{i}, :, :, {j}] holds {content.show(got)} although the list has 0 there')
                if unknown and not bad:
                    raise AnalysisError(f'{scen}: {unknown} blocks of the core are assembled in a way the entry analysis does not follow')
                anyc = any(isinstance(x, Arr) and x.dt == 'complex' for r in rows for x in r)
                if (anyc or iscomplex) and res.dt != 'complex':
                    bad.append(f'the core has dtype class {res.dt} although {"a complex element is present" if anyc else "iscomplex=True"}')
            for e in sc.events('complex-loss'):
                bad.append('a complex element is stored into a real core (imaginary part discarded)')
            run.oblige('D5', (entry, scen), not bad, sample={'rule': 'D5', 'scenario': scen, 'stores': len(res.tags.get('stores', [])) if isinstance(res, Arr) else None} if pat == pats[0] and form == 'matrix' else None)
            if bad:
                fn = repo.fn(f'{TTM}.build_core_vector' if form == 'vector' else entry)
                run.add(Finding('C02', 'D5', fn.where, 'placement of the list elements', f'{scen}: ' + '; '.join(sorted(set(bad))[:3]), fn.file, fn.node.lineno))
    run.floor('obligations decided', run.obligations, 150)
    return run
