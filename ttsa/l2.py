"""Layer 2 scenarios: repository code interpreted over the array domain with concrete control and symbolic sizes."""
import math

from . import arr as A
from . import fakelib
from .arr import Arr, Ctx, SymIdx, SymRange, mode_leg, rank_leg
from .core import AnalysisError, norm_text
from .interp import Fork, Frame, Instance, Interp, Raised, UnknownTruth
from .shape import Size, simp, sz_eq, sz_min


# library functions that look at the type / shape of an array, not at its contents (legal on a buffer whose contents were given up)
METADATA_ONLY = {'isrealobj', 'iscomplexobj', 'shape', 'ndim', 'size', 'result_type', 'can_cast', 'isscalar', 'issubdtype'}


class L2Domain:
    def __init__(self, ctx):
        self.ctx = ctx
        self.builtins = {'range': self._range, 'len': self._len, 'int': self._int, 'float': self._float, 'abs': self._abs,
                         'min': self._min, 'max': self._max, 'sum': self._sum, 'str': self._str, 'complex': complex}

    def compare(self, op, left, right):
        """== / != of two symbolic sizes.  Distinct free parameters are different numbers (the scenario is generic), but a DERIVED size -- the rank min(a, b) a
        decomposition returns -- may well equal another expression (ranks stabilise from sweep to sweep): then both outcomes are explored"""
        import ast as _ast
        if not isinstance(op, (_ast.Eq, _ast.NotEq)) or not any(isinstance(v, Size) for v in (left, right)) or \
                not all(isinstance(v, Size) or (isinstance(v, int) and not isinstance(v, bool)) for v in (left, right)):
            return None
        left, right = Size.of(left, self.ctx.atoms), Size.of(right, self.ctx.atoms)
        from .interp import UnknownBool
        if left.is_const() != right.is_const():
            c, v = (left, right) if left.is_const() else (right, left)
            if c.const() >= 2 and v.single_atom() is not None:
                # a data size (number of snapshots, transitions, ...) compared with a particular number: the scenario is generic, the test is not -- both outcomes
                r = UnknownBool(f'{v} == {c.const()}: whether a size of the data equals a particular number')
                r.size_eq = (v, c.const(), isinstance(op, _ast.Eq))
                return r
            return None
        if left.is_const() or right.is_const() or left == right:
            return None
        reg = self.ctx.atoms
        derived = getattr(reg, 'min_of', {})
        atoms = {a for sz in (left, right) for mono in sz.terms for a, _e in mono}
        if not (atoms & set(derived)):
            return None
        try:
            if reg.le(left + 1, right) or reg.le(right + 1, left):
                return None          # provably different
        except UnknownTruth:
            pass
        r = UnknownBool(f'{left} == {right}: a rank returned by a decomposition may or may not equal the other size')
        r.size_eq = (left, right, isinstance(op, _ast.Eq))
        return r

    # ---- builtins on abstract values
    def _range(self, *a):
        if all(isinstance(x, int) for x in a):
            return range(*a)
        for x in a:
            if isinstance(x, Size) and any(str(self.ctx.atoms.origin.get(at_) or '').startswith('floor division') for at_ in x.atoms()):
                self.ctx.event('floor-range', count=x, detail=f'a loop runs over range({x}) where {x} is the quotient of a floor division')
        if len(a) == 1:
            return SymRange(0, a[0])
        if len(a) == 2:
            return SymRange(a[0], a[1])
        raise AnalysisError(f'range{a} with a symbolic step has no model')

    def _len(self, x):
        if isinstance(x, Arr):
            if not x.shape:
                raise Raised('TypeError', 'len() of unsized object')
            return x.shape[0]
        return len(x)

    def _int(self, x=0, *a):
        if isinstance(x, Size):
            return simp(x)
        if isinstance(x, Arr):
            if x.ndim == 0 and 'value' in x.tags:
                return self._int(x.tags['value'])
            raise AnalysisError('int() of a numerical value')
        return int(x, *a)

    def _float(self, x=0.0):
        if isinstance(x, (Size, Arr)):
            return x
        return float(x)

    def _abs(self, x):
        return abs(x)

    def _min(self, *a, **k):
        if len(a) == 1:
            a = tuple(a[0])
        r = a[0]
        for y in a[1:]:
            r = sz_min(self.ctx.atoms, r, y) if isinstance(r, (int, Size, float)) and isinstance(y, (int, Size, float)) else min(r, y)
        return r

    def _max(self, *a, **k):
        if len(a) == 1:
            a = tuple(a[0])
        if all(isinstance(x, (int, float)) for x in a):
            return max(a)
        r = a[0]
        for y in a[1:]:
            try:
                gt = bool(y > r)
            except UnknownTruth as u:
                from .interp import UnknownBool
                gt = self.ctx.interp.truth(UnknownBool(f'max(): {u.why}'))          # both orders are explored
            r = y if gt else r
        return r

    def _sum(self, xs, start=0):
        r = start
        for x in xs:
            r = r + x
        return r

    def _str(self, x=''):
        return str(x)

    # ---- hooks
    def on_native(self, f, args, kwargs):
        """every array created by a library call / operator depends on all array operands of that call"""
        ops = []

        def walk(x, depth=0):
            if isinstance(x, Arr):
                ops.append(x)
            elif isinstance(x, (list, tuple)) and depth < 3:
                for y in x:
                    walk(y, depth + 1)
        if f is not None and isinstance(getattr(f, '__self__', None), Arr):
            ops.append(f.__self__)
        for x in args:
            walk(x)
        for x in kwargs.values():
            walk(x)
        self.ctx.cur_operands = tuple(ops)
        dead = getattr(self.ctx, 'destroyed', None)
        if dead and getattr(f, '__name__', '') not in METADATA_ONLY:
            direct = [x for x in list(args) + list(kwargs.values()) if isinstance(x, Arr)]
            if f is not None and isinstance(getattr(f, '__self__', None), Arr):
                direct.append(f.__self__)
            for o in direct:          # (arrays that merely sit in a list that is being indexed or stored into are not read)
                if o.buf.uid in dead:
                    what, wh = dead[o.buf.uid]
                    self.ctx.event('use-after-destroy', operand=o, what=what, destroyed_at=wh,
                                   detail=f'an array is read at {it_where(self)} after {what} was allowed to overwrite its buffer ({wh})')
                    del dead[o.buf.uid]          # report once per destroyed buffer

    def on_setattr(self, it, inst, attr, v):
        if attr == 'cores' and isinstance(v, list):
            self.ctx.__dict__.setdefault('core_lists', {})[id(v)] = inst
            self.ctx.keep.append(v)
            for k, c in enumerate(v):
                if isinstance(c, Arr):
                    self.ctx.core_tokens[id(c)] = (inst, k)
                    self.ctx.keep.append(c)

    def on_setitem(self, it, base, idx, v, node):
        cl = getattr(self.ctx, 'core_lists', {})
        if isinstance(base, list) and id(base) in cl and isinstance(idx, int):
            inst = cl[id(base)]
            k = idx if idx >= 0 else len(base) + idx
            old = base[k] if 0 <= k < len(base) else None
            if isinstance(old, Arr) and old is not v:
                self.ctx.dead[id(old)] = (inst, k, it.where())
            if isinstance(v, Arr):
                self.ctx.core_tokens[id(v)] = (inst, k)
                self.ctx.keep.append(v)
                self.ctx.dead.pop(id(v), None)
            self.ctx.event('core-store', tt=inst, slot=k, value=v, old=old)
        elif isinstance(base, list) and isinstance(v, Arr) and isinstance(idx, int):
            self.ctx.env_tokens[id(v)] = (id(base), idx)
            self.ctx.keep.append(v)
            self.ctx.event('slot-store', slots=base, index=idx, value=v)
        return False

    def on_call(self, it, fn, args, kwargs):
        if not (fn.name.startswith('__') and fn.name.endswith('__')):
            self.ctx.event('call', callee=fn, args=list(args), kwargs=dict(kwargs))

    def wrap_comprehension(self, it, node, out):
        """[f(j) for j in range(m)] with a symbolic m was evaluated for one representative j: the list has m elements"""
        import ast as _ast
        if len(node.generators) == 1 and len(out) == 1:
            g = node.generators[0]
            try:
                itv = it.ev(g.iter)
            except Exception:
                return out
            if isinstance(itv, SymRange):
                n = simp(Size.of(itv.hi, self.ctx.atoms) - itv.lo)
                return SymList(out[0], n, getattr(self, 'last_symidx', None))
        return out

    def on_branch(self, it, node, v, outcome):
        se = getattr(v, 'size_eq', None)
        if se is not None and (outcome if se[2] else not outcome):
            # the path continues under the assumption that two different symbols denote the same number (the analysis does not identify them afterwards)
            self.ctx.event('size-equality-assumed', left=se[0], right=se[1])
        cm = getattr(v, 'cmp', None)
        if cm is not None and all(isinstance(x_, Size) or (isinstance(x_, int) and not isinstance(x_, bool)) for x_ in cm[1:]):
            # an ordering test between sizes whose outcome was chosen: the path continues with the corresponding fact (lo <= hi)
            a_, b_ = Size.of(cm[1], self.ctx.atoms), Size.of(cm[2], self.ctx.atoms)
            lo_hi = {('Lt', True): (a_ + 1, b_), ('Lt', False): (b_, a_), ('Gt', True): (b_ + 1, a_), ('Gt', False): (a_, b_),
                     ('LtE', True): (a_, b_), ('LtE', False): (b_ + 1, a_), ('GtE', True): (b_, a_), ('GtE', False): (a_ + 1, b_)}.get((cm[0], bool(outcome)))
            if lo_hi is not None:
                lo, hi = Size.of(lo_hi[0], self.ctx.atoms), Size.of(lo_hi[1], self.ctx.atoms)
                at = lo.single_atom()
                if at is not None:
                    self.ctx.atoms.upper.setdefault(at, []).append(hi)
        self.ctx.event('branch', outcome=outcome, decided=False, expr=v.tags.get('expr') if isinstance(v, Arr) else None, value=v, test=node)

    def truth(self, v):
        if isinstance(v, Arr):
            if v.ndim == 0 and 'value' in v.tags and isinstance(v.tags['value'], (int, float, bool)):
                return bool(v.tags['value'])
            raise UnknownTruth('truth value of a numerical quantity')
        return None

    def isinstance(self, obj, t):
        # the builtins int/float are shadowed by size-aware conversion functions: map them back to the types
        if t == self._int:
            t = int
        elif t == self._float:
            t = float
        if isinstance(t, type) and t in (int, float, complex) and isinstance(obj, t) and not isinstance(obj, bool):
            return True
        from .shape import NpIntSize
        if isinstance(obj, NpIntSize):
            return t in (fakelib.FakeNumpy.int32, fakelib.FakeNumpy.int64) or getattr(t, '__name__', '') in ('integer', 'signedinteger', 'number', 'generic')
        if t is fakelib.NdarrayType:
            return isinstance(obj, Arr)
        if t is int or t in (fakelib.FakeNumpy.int32, fakelib.FakeNumpy.int64):
            return isinstance(obj, (Size, SymIdx, A.SymOff)) or (isinstance(obj, int) and not isinstance(obj, bool) and t is int)
        if t is float:
            return isinstance(obj, Arr) and obj.ndim == 0 and obj.dt == 'real'
        if t is complex:
            return isinstance(obj, Arr) and obj.ndim == 0 and obj.dt == 'complex'
        return False

    def iterate(self, it, x):
        if isinstance(x, SymRange):
            self.last_symidx = SymIdx(x.lo, x.hi)
            return iter([self.last_symidx])
        return None


def it_where(dom):
    it = A.CTX.interp
    return it.where() if it is not None else '?'


class SymList(list):
    """a list of symbolic length n whose elements all look like `elem` (one representative)"""

    def __init__(self, elem, n, index=None):
        list.__init__(self, [elem])
        self.elem, self.n, self.index = elem, n, index      # index: the loop variable (SymIdx) the representative element was computed with


class TTSpec:
    """description of one symbolic input tensor train"""

    def __init__(self, name, order, role, dtype='complex', row=None, col=None, ranks=None):
        self.name, self.order, self.role, self.dtype = name, order, role, dtype
        self.row, self.col, self.ranks = row, col, ranks


class Scenario:
    def __init__(self, repo, typed=True, choices=None, intercept=None):
        self.repo = repo
        self.ctx = A.set_ctx(Ctx())
        self.ctx.typed = typed
        self.domain = L2Domain(self.ctx)
        self.interp = Interp(repo, libs=fakelib.libs(), domain=self.domain, choices=choices, intercept=dict(intercept or {}))
        self.interp.intercept.setdefault('utils.progress', lambda it, *a, **k: 0.0)
        self.ctx.interp = self.interp
        self.mode_atoms = {}
        self.tts = {}
        tt_mod = [m.name for m in repo.modules.values() if 'TT' in m.classes]
        if len(tt_mod) != 1:
            raise AnalysisError('class TT not found exactly once')
        self.tt_mod = tt_mod[0]
        self.tt_cls = self.interp.class_ref(self.tt_mod, 'TT')
        fn = self.tt_cls.find('__init__')
        self.interp.stack.append(Frame(fn, repo.modules[self.tt_mod], {}))

    # ---- sizes
    def atom(self, name, free=False, upper=()):
        return self.ctx.atoms.new(name, free=free, upper=upper)

    def mode(self, site, which='m'):
        k = (which, site)
        if k not in self.mode_atoms:
            self.mode_atoms[k] = self.atom(f'{which}{site}')
        return self.mode_atoms[k]

    # ---- inputs
    def cores(self, name, order, role, dtype='complex', row=None, col=None, ranks=None, square=True):
        """list of symbolic cores of tensor `name`.  role: 'op' (operator: row index +, column index -) or 'vec' (column dimension 1).
        row/col: lists of sizes (default: one atom per site, shared by all tensors; square operators use the same atom for rows and columns)"""
        row = row or [self.mode(k) for k in range(order)]
        if role == 'op':
            col = col or ([self.mode(k) for k in range(order)] if square else [self.mode(k, 'n') for k in range(order)])
        else:
            col = [1] * order
        if ranks is None:
            ranks = [1] + [self.atom(f'r{name}{k}') for k in range(1, order)] + [1]
        out = []
        for k in range(order):
            legs = [() if A.is_one(ranks[k]) else (rank_leg(name, k, ranks[k]),),
                    () if A.is_one(row[k]) else (mode_leg(k, row[k], +1, f'{name}.row' if role == 'op' else name),),
                    () if A.is_one(col[k]) else (mode_leg(k, col[k], -1, f'{name}.col'),),
                    () if A.is_one(ranks[k + 1]) else (rank_leg(name, k + 1, ranks[k + 1]),)]
            dt = dtype[k] if isinstance(dtype, (list, tuple)) else dtype
            c = Arr([ranks[k], row[k], col[k], ranks[k + 1]], legs, dt, None, {'input': (name, k)}, f'{name}.cores[{k}]')
            c.buf.owner = name
            out.append(c)
        return out

    def tt(self, name, order, role, **kw):
        cores = self.cores(name, order, role, **kw)
        obj = self.interp.instantiate(self.tt_cls, [cores], {})
        self.tts[name] = obj
        return obj

    # ---- running
    def call(self, qual, *args, **kwargs):
        fn = self.repo.fn(qual)
        return self.interp.call_fn(fn, list(args), kwargs)

    def method(self, obj, name, *args, **kwargs):
        fn = obj._cls.find(name)
        if fn is None:
            raise AnalysisError(f'method {name} not found')
        return self.interp.call_fn(fn, list(args), kwargs, self_obj=obj)

    def events(self, kind):
        return [e for e in self.ctx.events if e['kind'] == kind]


def explore(repo, body, typed=True, max_paths=4096, intercept=None):
    """run body(scenario) for every combination of outcomes of undecidable tests.
    returns list of (choices, scenario, result, raised)"""
    import os
    import time
    out, stack = [], [[]]
    t0, budget = time.process_time(), float(os.environ.get('TTSA_SCENARIO_BUDGET', '150'))          # CPU seconds: independent of the machine's load
    while stack:
        ch = stack.pop()
        if time.process_time() - t0 > budget:
            ae_ = AnalysisError(f'one scenario needs more than {budget:.0f} CPU seconds ({len(out)} paths explored, {len(stack) + 1} pending): too many data-dependent tests on its paths')
            ae_.paths = _Paths(out)          # (what was explored until then: a rule that one path refutes is refuted)
            raise ae_
        sc = Scenario(repo, typed=typed, choices=ch, intercept=intercept)
        try:
            res = body(sc)
            out.append((ch, sc, res, None))
        except AnalysisError as ae:
            ae.scenario = sc          # (events recorded before the analysis gave up may already decide a rule)
            raise
        except Fork:
            stack.append(ch + [False])
            stack.append(ch + [True])
            continue
        except Raised as r:
            r.assumed_equal = [(e['left'], e['right']) for e in sc.events('size-equality-assumed')]
            out.append((ch, sc, None, r))
        if len(out) > max_paths:
            raise AnalysisError(f'more than {max_paths} paths in one scenario')
    return _Paths(out)


class _Paths(list):
    """the explored paths; iterating activates the analysis context of each path (rules evaluated on a path must see ITS size facts and decomposition registry)"""

    def __iter__(self):
        for item in list.__iter__(self):
            A.set_ctx(item[1].ctx)
            yield item


def tt_invariant(sc, obj, what=''):
    """class invariant of a tensor train object: cores[k].shape == (ranks[k], row_dims[k], col_dims[k], ranks[k+1]), order == len(cores),
    neighbouring cores chain.  Returns list of problem strings."""
    probs = []
    a = obj._attrs
    for k in ('order', 'row_dims', 'col_dims', 'ranks', 'cores'):
        if k not in a:
            return [f'{what}: attribute {k} missing']
    cores, order = a['cores'], a['order']
    if not isinstance(cores, list) or order != len(cores):
        probs.append(f'{what}: order = {order} but {len(cores) if isinstance(cores, list) else "?"} cores')
        return probs
    if len(a['row_dims']) != order or len(a['col_dims']) != order or len(a['ranks']) != order + 1:
        probs.append(f'{what}: metadata lengths row_dims={len(a["row_dims"])}, col_dims={len(a["col_dims"])}, ranks={len(a["ranks"])} for order {order}')
        return probs
    for k, c in enumerate(cores):
        if not isinstance(c, Arr) or c.ndim != 4:
            probs.append(f'{what}: cores[{k}] is not a 4-dimensional array ({getattr(c, "shape", type(c).__name__)})')
            continue
        want = (a['ranks'][k], a['row_dims'][k], a['col_dims'][k], a['ranks'][k + 1])
        if not all(sz_eq(x, y) for x, y in zip(c.shape, want)):
            probs.append(f'{what}: cores[{k}].shape = {c.shape} but (ranks[{k}], row_dims[{k}], col_dims[{k}], ranks[{k + 1}]) = {want}')
    for k in range(len(cores) - 1):
        if isinstance(cores[k], Arr) and isinstance(cores[k + 1], Arr) and cores[k].ndim == 4 and cores[k + 1].ndim == 4:
            if not sz_eq(cores[k].shape[3], cores[k + 1].shape[0]):
                probs.append(f'{what}: cores[{k}] and cores[{k + 1}] do not chain: {cores[k].shape[3]} vs {cores[k + 1].shape[0]}')
    return probs


def chain_legs(obj, check_conj=True):
    """leg-level chain check: the right rank index of core k is the left rank index of core k+1. returns problems"""
    probs = []
    cores = obj._attrs.get('cores', [])
    for k in range(len(cores) - 1):
        a, b = cores[k], cores[k + 1]
        if not (isinstance(a, Arr) and isinstance(b, Arr) and a.ndim == 4 and b.ndim == 4):
            continue
        ga, gb = a.legs[3], b.legs[0]
        if len(ga) != len(gb):
            continue
        for x, y in zip(ga, gb):
            if x.resolve().kind == 'R' and y.resolve().kind == 'R' and (x.resolve().key != y.resolve().key or (check_conj and x.resolve().conj != y.resolve().conj)):
                probs.append(f'bond between cores {k} and {k + 1}: right index {x} of core {k} is not the left index {y} of core {k + 1}')
    return probs


def describe_event(e, repo):
    fn = e.get('fn')
    n = e.get('node')
    return {'where': e.get('where'), 'function': fn.qual if fn else None, 'construct': norm_text(n, 140) if n is not None else '', 'detail': e.get('detail', '')}
