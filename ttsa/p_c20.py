"""C20  Quantum sampling (DESIGN.md 3/C20): the shape-visible clauses of the sampler -- Born tensor, trace of the right part, inverse-CDF comparison, left-environment
update, frequencies, frame.  quantum_computation.sampling interpreted from source over a symbolic complex state (concrete order and measured sites, symbolic ranks and
sample count); the rules read the def-use structure of the values the function compares, gathers and returns.  What the sampler draws for given variates is a runtime
quantity and is NOT decided here."""
import itertools

from . import arr as A
from . import l2, l2rules
from .arr import Arr
from .core import AnalysisError, Finding, Run
from .shape import sz_eq

MOD = 'quantum_computation'
ENTRY = f'{MOD}.sampling'


def _is_input(a):
    return isinstance(a, Arr) and isinstance(a.tags.get('input'), tuple)


def _ancestors(a, stop=None, limit=6000, values_only=False):
    """all arrays `a` is computed from (parents, operands of expressions, bases of selections, arrays stored into its buffer)"""
    seen, todo, out = set(), [a], []
    while todo and len(seen) < limit:
        x = todo.pop()
        if not isinstance(x, Arr) or id(x) in seen:
            continue
        if values_only and x.dt in ('int', 'bool') and x is not a:
            continue          # (an index array / a mask selects entries, its own history is not part of the value)
        seen.add(id(x))
        out.append(x)
        if stop is not None and stop(x):
            continue
        todo.extend(x.parents or ())
        ex = x.tags.get('expr')
        if ex:
            todo.extend(o for o in ex[1] if isinstance(o, Arr))
        so = x.tags.get('sel_of')
        if so:
            todo.append(so[0])
        todo.extend(getattr(x.buf, 'inputs', ()) or ())
    return out


def _strip(a):
    """look through copies / casts / real parts that do not change which numbers are meant"""
    hops = 0
    while isinstance(a, Arr) and a.origin in ('astype', 'copy', 'real', 'ravel', 'squeeze', 'asarray') and len(a.parents) >= 1 and hops < 6:
        a, hops = a.parents[0], hops + 1
    return a


def _mode_sites(a):
    """sites of the state whose mode index an axis of `a` carries: {axis: site}"""
    out = {}
    for ax, g in enumerate(a.legs):
        ks = [l.resolve() for l in g]
        if len(ks) == 1 and ks[0].kind == 'M':
            out[ax] = ks[0].key if not isinstance(ks[0].key, tuple) else ks[0].key[0]
    return out


def check(repo, tier):
    run = Run('C20', tier, repo, 'quantum_computation.sampling interpreted from source over a symbolic complex matrix-product state (concrete order and measured sites, symbolic bond '
              'dimensions and number of samples); structural clauses only')
    run.rule('D1', 'Born tensor: the values compared with the variates of the j-th measured site are computed from the state core of that site once conjugated and once not '
             '(|amplitude|^2, not amplitude^2), over the mode index of that site; every site up to the last measured one enters the last conditional, each with both parities '
             '(unmeasured sites are traced, not summed)')
    run.rule('D2', 'right part: the doubled right bond of every probability core is closed with the (flattened) identity of matching size -- the trace that right-orthonormality '
             'justifies -- not with a vector of ones or an identity sized by another bond')
    run.rule('D3', 'inverse CDF: bit j is  [u_j > P(0 | earlier bits)]  with P(0 | .) = (slice 0 of the conditional weights) / (their sum over the mode index of the same array); '
             'each column of variates is used for one site only; the bit is stored in the column of its own site')
    run.rule('D4', 'left environment: the weights of site j+1 are conditioned on the bits drawn for sites 0..j: the environment is contracted with the slice of the probability core '
             'of site j selected by the sample column j, over the left bond, sample by sample')
    run.rule('D5', 'frequencies: the returned probabilities are the counts of the distinct rows of the sample matrix divided by the number of rows counted (they sum to one); '
             'the returned samples are those distinct rows; the state argument is left untouched')
    run.trusted = ['NumPy transfer functions (einsum, matmul with a vector, unique with counts, random.rand as an array of independent uniform variates)',
                   'TT.diag / transpose / @ / squeeze are interpreted from source as well, their own dense meaning is C02']
    orders = (1, 2, 3) if tier == 'quick' else (1, 2, 3, 4)
    run.bounds = f'orders {orders}, every non-empty increasing list of measured sites, complex amplitudes, generic bond dimensions, symbolic sample count'

    fn0 = repo.fn(ENTRY)

    def F(rule, what, msg, node=None):
        return Finding('C20', rule, fn0.where, what, msg, fn0.file, getattr(node, 'lineno', None) or fn0.node.lineno)

    for d in orders:
        subsets = [list(c) for k in range(1, d + 1) for c in itertools.combinations(range(d), k)]
        # complex amplitudes throughout, and hand-built states whose first core is real while later cores carry the phases (mixed core dtypes)
        grid = [(m_, 'complex') for m_ in subsets] + ([(list(range(d)), ['real'] + ['complex'] * (d - 1)), ([d - 1], ['real'] + ['complex'] * (d - 1))] if d >= 2 else [])
        for meas, dts in grid:
            scen = f'sampling(order={d}, measured={meas})' + ('' if dts == 'complex' else ' [first core real, later cores complex]')

            def body(sc, d=d, meas=meas, dts=dts):
                psi = sc.tt('psi', d, 'vec', row=[2] * d, dtype=dts)
                sc.inputs = (psi,)
                sc.old = (list(psi._attrs['cores']), list(psi._attrs['ranks']))
                sc.nsamp = sc.atom('nsamp')
                return sc.call(ENTRY, psi, list(meas), sc.nsamp)
            try:
                paths_ = l2.explore(repo, body, typed=True)
            except AnalysisError as ae_:
                sc_ = getattr(ae_, 'scenario', None)
                if sc_ is not None:
                    _floor_rule(run, repo, sc_, scen, F)          # (decided by recorded events alone; the rest of this scenario stays undecided)
                raise
            for ch, sc, res, exc in paths_:
                _floor_rule(run, repo, sc, scen, F)
                sl_ = [e for e in sc.events('eye-slice') if e.get('fn') is not None and e['fn'].mod == MOD]
                if sl_:
                    # D2: the closing vector is a PIECE of the flattened identity of another (larger) bond
                    where, cons, fl_, ln = l2rules.ev_where(repo, sl_[0], None)
                    run.oblige('D2', (where, cons, 'closing vector'), False)
                    run.add(Finding('C20', 'D2', where, cons, f'{scen}: the right bond is closed with {sl_[0]["detail"]}: the flattened identity of a bond of size r has its ones at the '
                                    'positions k (r + 1); a prefix of the flattened identity of a larger bond has them elsewhere, so the "trace" picks wrong pairs of bond indices '
                                    'whenever this bond is smaller than the largest one', fl_, ln))
                    continue
                if exc is not None:
                    run.oblige('D5', (ENTRY, scen, 'returns'), False)
                    l2rules.raised_finding(run, 'C20', 'D5', repo, ENTRY, scen, exc)
                    continue
                _one_path(run, repo, sc, res, scen, d, meas, F)
                _value_rules(run, repo, sc, scen, F)
    l2rules.frame_obligations(run, 'C20', 'D5', repo, [ENTRY])
    run.floor('obligations decided', run.obligations, 60 if tier == 'quick' else 120)
    return run


def _one_path(run, repo, sc, res, scen, d, meas, F):
    nm = len(meas)
    nsamp = sc.nsamp
    if not (isinstance(res, (tuple, list)) and len(res) == 2 and all(isinstance(x, Arr) for x in res)):
        raise AnalysisError(f'{scen}: the sampler does not return a pair of arrays')
    samples, freq = res
    # ---------------------------------------------------------------- D5 frequencies
    ex = freq.tags.get('expr')
    cnt = _strip(ex[1][0]) if ex and ex[0] == 'truediv' and isinstance(ex[1][0], Arr) else None
    if cnt is None or 'counts_of' not in cnt.tags:
        if ex and ex[0] == 'truediv' and isinstance(ex[1][0], Arr) and 'counts_of' not in _strip(ex[1][0]).tags and not any('counts_of' in a_.tags for a_ in _ancestors(freq)):
            run.oblige('D5', (ENTRY, scen, 'frequencies'), False)
            run.add(F('D5', 'returned probabilities', f'{scen}: the returned probabilities are not computed from the counts of the distinct samples'))
            return
        raise AnalysisError(f'{scen}: the returned probabilities are not recognisably (counts of distinct rows) / (number of rows)')
    den = ex[1][1]
    den_ok = (isinstance(den, Arr) and den.ndim == 0 and 'value' in den.tags and sz_eq(den.tags['value'], cnt.tags['total'])) or \
        (not isinstance(den, Arr) and not isinstance(den, float) and sz_eq(den, cnt.tags['total']))
    if not den_ok and isinstance(den, Arr) and den.origin == 'sum' and den.parents and _strip(den.parents[0]) is cnt:
        den_ok = True          # counts / counts.sum()
    run.oblige('D5', (ENTRY, scen, 'frequencies sum to one'), den_ok)
    if not den_ok:
        run.add(F('D5', 'normalisation of the frequencies', f'{scen}: the counts of {cnt.tags["total"]} rows are divided by {den!r}: the frequencies do not sum to one'))
    mat = cnt.tags['counted']
    same = _strip(samples) is cnt.tags['counts_of']
    run.oblige('D5', (ENTRY, scen, 'samples are the counted rows'), same)
    if not same:
        run.add(F('D5', 'returned samples', f'{scen}: the returned samples are not the distinct rows the counts belong to'))
    while isinstance(mat, Arr) and mat.origin in ('astype', 'copy') and mat.parents:
        mat = mat.parents[0]
    if not (mat.ndim == 2 and sz_eq(mat.shape[0], nsamp) and sz_eq(mat.shape[1], nm)):
        run.oblige('D5', (ENTRY, scen, 'sample matrix'), False)
        run.add(F('D5', 'sample matrix', f'{scen}: the rows that are counted form an array of shape {mat.shape}, not (number of samples, number of measured sites) = ({nsamp}, {nm})'))
        return
    stores = [r for r in mat.tags.get('stores', [])]
    cols = {}
    for r in stores:
        sel = r['sel']
        if len(sel) == 2 and sel[0] == ('all',) and sel[1][0] == 'int' and isinstance(sel[1][1], int):
            cols.setdefault(sel[1][1], []).append(r)
        else:
            raise AnalysisError(f'{scen}: a store into the sample matrix that is not a whole column ({sel}) -- form not recognised')
    missing = [j for j in range(nm) if j not in cols]
    run.oblige('D3', (ENTRY, scen, 'every column drawn'), not missing)
    if missing:
        run.add(F('D3', 'sample matrix columns', f'{scen}: column(s) {missing} of the sample matrix are never written: those qubits always read 0'))
        return
    # ---------------------------------------------------------------- per measured site
    used_variates = {}
    X_of, T_of, P_of, theta_of = {}, {}, {}, {}
    for j in range(nm):
        rec = cols[j][-1]
        v = _strip(rec['value']) if isinstance(rec['value'], Arr) else rec['value']
        node = rec.get('node')
        cex = v.tags.get('expr') if isinstance(v, Arr) else None
        if not cex or cex[0] not in ('gt', 'ge', 'lt', 'le'):
            raise AnalysisError(f'{scen}: column {j} of the sample matrix is not the result of one ordering comparison -- form not recognised')
        l_, r_ = (_strip(o) if isinstance(o, Arr) else o for o in cex[1])

        def is_variate(o):
            b = o
            while isinstance(b, Arr) and 'sel_of' in b.tags:
                b = b.tags['sel_of'][0]
            return isinstance(b, Arr) and b.origin == 'rand'
        if isinstance(l_, Arr) and is_variate(l_) and not (isinstance(r_, Arr) and is_variate(r_)):
            u, p, u_left = l_, r_, True
        elif isinstance(r_, Arr) and is_variate(r_) and not (isinstance(l_, Arr) and is_variate(l_)):
            u, p, u_left = r_, l_, False
        else:
            raise AnalysisError(f'{scen}: the comparison behind column {j} does not compare a uniform variate with a computed value -- form not recognised')
        # which variates
        so = u.tags.get('sel_of')
        if not so or so[0].origin != 'rand' or len(so[1]) != 2 or so[1][0] != ('all',) or so[1][1][0] != 'int':
            raise AnalysisError(f'{scen}: the variates of column {j} are not one whole column of the array of uniform variates -- form not recognised')
        ucol = so[1][1][1]
        dup = [k for k, (uu, cc) in used_variates.items() if uu is so[0] and cc == ucol]
        run.oblige('D3', (ENTRY, scen, j, 'fresh variates'), not dup)
        if dup:
            run.add(F('D3', 'variates reused', f'{scen}: the bits of measured sites {dup[0]} and {j} are both drawn from column {ucol} of the uniform variates: the two bits are '
                      'not drawn independently given the earlier ones', node))
        used_variates[j] = (so[0], ucol)
        # which probability
        pex = p.tags.get('expr') if isinstance(p, Arr) else None
        if not pex or pex[0] != 'truediv':
            anc = _ancestors(p) if isinstance(p, Arr) else []
            if isinstance(p, Arr) and not any(a_.origin in ('truediv', 'reciprocal', 'norm') or (a_.tags.get('expr') or ('',))[0] in ('truediv',) for a_ in anc) and \
                    any(_is_input(a_) for a_ in anc):
                run.oblige('D3', (ENTRY, scen, j, 'conditional'), False)
                run.add(F('D3', 'normalisation of the conditional weights', f'{scen}: the variate of measured site {j} is compared with a value that is not divided by anything on '
                          'any path back to the state: an un-normalised (joint) weight, not the conditional probability P(0 | earlier bits)', node))
                return
            raise AnalysisError(f'{scen}: the value compared with the variates of column {j} is not a quotient -- form not recognised')
        num, den = (_strip(o) if isinstance(o, Arr) else o for o in pex[1])
        nso = num.tags.get('sel_of') if isinstance(num, Arr) else None
        if not nso:
            raise AnalysisError(f'{scen}: numerator of the conditional probability of column {j}: form not recognised')
        X, nsel = _strip(nso[0]), nso[1]          # (np.real / a copy of the weights, all bonds closed, does not change which numbers are meant)
        ints = [(ax, s_[1]) for ax, s_ in enumerate(nsel) if s_[0] == 'int']
        if len(ints) != 1 or not isinstance(ints[0][1], int) or any(s_[0] not in ('int', 'all') for s_ in nsel):
            raise AnalysisError(f'{scen}: numerator of the conditional probability of column {j} is not one slice of the weights: {nsel}')
        max_, bit = ints[0]
        modes = _mode_sites(X)
        # the sum -- itself, not clipped: theta is never normalised, so the sum is the JOINT probability of the bits drawn so far and legitimately decays like 2^-j;
        # a lower bound by an absolute constant replaces it for long registers and the quotient is then no conditional probability
        dex = den.tags.get('expr') if isinstance(den, Arr) else None
        if dex and dex[0] in ('maximum', 'add') and any(isinstance(o_, (int, float)) and not isinstance(o_, bool) and o_ != 0 or
                                                        (isinstance(o_, Arr) and o_.ndim == 0 and isinstance(o_.tags.get('value'), (int, float)) and o_.tags['value'] != 0) or
                                                        (isinstance(o_, Arr) and o_.ndim == 0 and o_.origin in ('finfo', 'eps')) for o_ in dex[1]) and \
                any(isinstance(o_, Arr) and _strip(o_).origin == 'sum' for o_ in dex[1]):
            summed = [o_ for o_ in dex[1] if isinstance(o_, Arr) and _strip(o_).origin == 'sum'][0]
            if any((a_.tags.get('expr') or ('',))[0] == 'truediv' or a_.origin in ('truediv', 'norm') for a_ in _ancestors(summed, values_only=True)):
                # (an environment that is re-normalised on the way keeps the sum of order one: the guard is then harmless -- not decided here)
                raise AnalysisError(f'{scen}: measured site {j}: the normalising sum is clipped by a constant, and the weights are re-scaled on the way: not decided')
            run.oblige('D3', (ENTRY, scen, j, 'normaliser'), False)
            run.add(F('D3', 'normaliser of the conditional probability', f'{scen}: measured site {j}: the sum of the weights is ' + ('clipped from below by' if dex[0] == 'maximum' else 'shifted by') +
                      ' an absolute constant before it divides: the weights are joint probabilities of the bits drawn so far (the environment is never normalised) and fall below any '
                      'fixed constant for long registers; the quotient is then not P(0 | earlier bits)', node))
            continue
        if not (isinstance(den, Arr) and den.origin == 'sum' and den.parents):
            raise AnalysisError(f'{scen}: denominator of the conditional probability of column {j} is not a sum -- form not recognised')
        # ... and not overwritten where it is small: entries of the sum replaced under a mask that compares it with an absolute constant (same reason as above)
        masked = [r_ for r_ in (den.tags.get('stores') or []) if any(s_[0] == 'idx' or (isinstance(s_[0], str) and s_[0] not in ('all', 'int', 'range', 'rev')) for s_ in r_['sel'])] or \
            ([r_ for r_ in (den.tags.get('stores') or [])] if den.buf.writes else [])
        if masked:
            if any((a_.tags.get('expr') or ('',))[0] == 'truediv' or a_.origin in ('truediv', 'norm') for a_ in _ancestors(den, values_only=True)):
                raise AnalysisError(f'{scen}: measured site {j}: entries of the normalising sum are overwritten, and the weights are re-scaled on the way: not decided')
            run.oblige('D3', (ENTRY, scen, j, 'normaliser'), False)
            run.add(F('D3', 'normaliser of the conditional probability', f'{scen}: measured site {j}: entries of the sum of the weights are overwritten (at {masked[0].get("where", "?")}) before it '
                      'divides: the sum is the joint probability of the bits drawn so far (the environment is never normalised) and legitimately becomes tiny for long registers; '
                      'replacing it there makes P(0 | earlier bits) wrong for every later bit of that sample', node))
            continue
        sum_of = _strip(den.parents[0])
        same_x = sum_of is X
        run.oblige('D3', (ENTRY, scen, j, 'same weights'), same_x)
        if not same_x:
            run.add(F('D3', 'denominator of the conditional probability', f'{scen}: measured site {j}: the slice that is compared comes from one array of weights, the sum that '
                      'normalises it from another', node))
            continue
        sax = None
        for e in sc.events('sum-axis'):
            if e['array'] is den.parents[0] or e['array'] is X:
                sax = e['axes']
        ok_axis = sax is not None and tuple(sax) == (max_,)
        run.oblige('D3', (ENTRY, scen, j, 'sum over the outcomes'), ok_axis)
        if not ok_axis:
            run.add(F('D3', 'denominator of the conditional probability', f'{scen}: measured site {j}: the weights are summed over axis {sax}, the slice is taken along axis {max_}: '
                      'the quotient is not P(0 | earlier bits)', node))
            continue
        # orientation of the test
        op = cex[0]
        good = (u_left and op in ('gt', 'ge') and bit == 0) or (not u_left and op in ('lt', 'le') and bit == 0)
        bad = (u_left and op in ('lt', 'le') and bit == 0) or (not u_left and op in ('gt', 'ge') and bit == 0) or \
              (u_left and op in ('gt', 'ge') and bit == 1) or (not u_left and op in ('lt', 'le') and bit == 1)
        if not good and not bad:
            raise AnalysisError(f'{scen}: measured site {j}: the test {"u " + op + " P" if u_left else "P " + op + " u"}({bit}) is a sampler of another form than the inverse CDF '
                                'the property names -- not decided')
        run.oblige('D3', (ENTRY, scen, j, 'inverse CDF'), good)
        if bad:
            run.add(F('D3', 'orientation of the inverse-CDF test', f'{scen}: measured site {j}: the bit is 1 when ' + (f'u {op} P({bit})' if u_left else f'P({bit}) {op} u') +
                      f', i.e. with probability P({bit if (u_left == (op in ("lt", "le"))) else 1 - bit}): outcome 1 is drawn with the probability of outcome 0', node))
            continue
        # D1: over the mode index of the j-th measured site
        site = modes.get(max_)
        if site is None:
            raise AnalysisError(f'{scen}: measured site {j}: the axis of the weights the slice is taken along does not carry a mode index of the state the analysis can name')
        run.oblige('D1', (ENTRY, scen, j, 'site'), site == meas[j])
        if site != meas[j]:
            run.add(F('D1', 'site of the conditional weights', f'{scen}: column {j} of the samples is drawn from weights over the outcomes of site {site}; the {j}-th measured '
                      f'site is {meas[j]}', node))
            continue
        # split X = theta . T
        fac = X.tags.get('factors')
        if not fac:
            e_ = X.tags.get('einsum')
            fac = tuple(e_[1]) if e_ and len(e_[1]) == 2 else None
        if not fac:
            raise AnalysisError(f'{scen}: measured site {j}: the weights are not a contraction of two arrays -- form not recognised')
        with_n = [f_ for f_ in fac if any(sz_eq(s_, nsamp) for s_ in f_.shape)]
        without = [f_ for f_ in fac if not any(sz_eq(s_, nsamp) for s_ in f_.shape)]
        if len(with_n) != 1 or len(without) != 1:
            raise AnalysisError(f'{scen}: measured site {j}: cannot tell the left environment from the probability core in the contraction that gives the weights')
        theta_of[j], T_of[j], X_of[j] = with_n[0], without[0], X
        # Born: both parities of every state core that enters T
        T = T_of[j]
        reached = {}
        for a_ in _ancestors(T, stop=_is_input):
            if _is_input(a_):
                reached[a_.tags['input'][1]] = a_
        if meas[j] not in reached:
            raise AnalysisError(f'{scen}: measured site {j}: the state core of site {meas[j]} does not reach the weights on any path the analysis follows')
        for s_, core in sorted(reached.items()):
            if core.dt != 'complex':
                continue          # (a real core is its own conjugate)
            par = l2rules.conj_parities(T, lambda a_, core=core: _is_input(a_) and a_.tags['input'] == core.tags['input'])
            run.oblige('D1', (ENTRY, scen, j, s_, 'Born'), par == {0, 1})
            if par != {0, 1}:
                run.add(F('D1', 'conjugation in the probability tensor', f'{scen}: the weights of measured site {j} contain the state core of site {s_} only '
                          + ('un' if par == {0} else '') + 'conjugated: psi^2 (or its conjugate), not |psi|^2 -- for complex amplitudes the "probabilities" are complex numbers '
                          'that do not sum to one', node))
        # D2: closing vector of the right bond
        tf = T.tags.get('factors')
        if tf:
            core_part, w = tf
            if any(_is_input(a_) for a_ in _ancestors(w)) and not any(_is_input(a_) for a_ in _ancestors(core_part)):
                core_part, w = w, core_part
            P_of[j] = core_part
            wc = w.tags.get('const')
            w_anc = _ancestors(w)
            if any(_is_input(a_) for a_ in w_anc):
                raise AnalysisError(f'{scen}: measured site {j}: the array that closes the right bond is computed from the state -- form not recognised')
            is_eye = wc in ('eye', 'eye-reshaped') or any(a_.tags.get('const') == 'eye' for a_ in w_anc)
            is_ones = wc == 'ones' or (not is_eye and any(a_.tags.get('const') == 'ones' for a_ in w_anc))
            trivial = all(A.is_one(s_) for s_ in w.shape)
            if trivial:
                run.oblige('D2', (ENTRY, scen, j, 'closing vector'), True, nontrivial=False)
            elif is_eye:
                ax_t = T.tags.get('contract_axes')
                last = ax_t is not None and ((tf[0] is core_part and tuple(ax_t[0]) == (core_part.ndim - 1,)) or (tf[1] is core_part and tuple(ax_t[1]) == (core_part.ndim - 1,)))
                run.oblige('D2', (ENTRY, scen, j, 'closing vector'), bool(last))
                if not last:
                    run.add(F('D2', 'trace of the right part', f'{scen}: measured site {j}: the flattened identity is contracted with axes {ax_t} of the probability core, not with '
                              'its doubled right bond', node))
            elif is_ones:
                run.oblige('D2', (ENTRY, scen, j, 'closing vector'), False)
                run.add(F('D2', 'trace of the right part', f'{scen}: measured site {j}: the doubled right bond of the probability core is closed with a vector of ones: the sum over '
                          'all pairs (a, b) of bond indices instead of the trace over a = b that right-orthonormality gives', node))
            else:
                raise AnalysisError(f'{scen}: measured site {j}: the array that closes the right bond is neither an identity nor a vector of ones -- form not recognised')
        else:
            # no closing contraction: only right when the right bond of this group is trivial
            rb = [s_ for ax, s_ in enumerate(T.shape) if ax not in _mode_sites(T) and not A.is_one(s_)]
            if len(rb) > 1 or (rb and j == nm - 1 and meas[j] < d - 1):
                raise AnalysisError(f'{scen}: measured site {j}: no contraction closes the right bond of the probability core -- form not recognised')
    # ---------------------------------------------------------------- D4 left environment
    for j in range(nm):
        th = theta_of.get(j)
        if th is None:
            continue
        th = _strip(th)          # (a real part / copy of the environment is judged by the value rules; the chain is followed through it)
        if j == 0:
            ok0 = th.tags.get('const') == 'ones' or all(A.is_one(s_) or sz_eq(s_, nsamp) for s_ in th.shape) and not any(_is_input(a_) for a_ in _ancestors(th))
            run.oblige('D4', (ENTRY, scen, 0, 'initial environment'), bool(ok0))
            if not ok0:
                run.add(F('D4', 'initial left environment', f'{scen}: the left environment of the first measured site is not the constant 1'))
            continue
        # theta_j = contraction(theta_{j-1}, gathered core j-1)
        ops = None
        e_ = th.tags.get('einsum')
        if e_ and len(e_[1]) == 2:
            ops = tuple(e_[1])
        elif th.tags.get('factors'):
            ops = tuple(th.tags['factors'])
        if ops is None:
            raise AnalysisError(f'{scen}: the left environment of measured site {j} is not a contraction of two arrays -- form not recognised')
        tprev = _strip(theta_of[j - 1]) if theta_of.get(j - 1) is not None else None
        prev = [o for o in ops if _strip(o) is tprev]
        others = [o for o in ops if _strip(o) is not tprev]
        run.oblige('D4', (ENTRY, scen, j, 'environment chain'), len(prev) == 1)
        if len(prev) != 1:
            stale = any(theta_of.get(k) is not None and _strip(o) is _strip(theta_of[k]) for o in ops for k in range(j - 1))
            run.add(F('D4', 'left environment', f'{scen}: the left environment of measured site {j} is not computed from the environment of site {j - 1}'
                      + (' but from an older one: the bits drawn in between are ignored' if stale else '')))
            continue
        G = others[0]
        so = G.tags.get('sel_of')
        if not so:
            raise AnalysisError(f'{scen}: measured site {j}: the array the environment is contracted with is not a selection of a probability core -- form not recognised')
        base, sel = so
        idx_axes = [ax for ax, s_ in enumerate(sel) if s_[0] == 'idx']
        if len(idx_axes) != 1:
            raise AnalysisError(f'{scen}: measured site {j}: the probability core of the previous site is not gathered by one index array ({sel})')
        msite = _mode_sites(base).get(idx_axes[0])
        run.oblige('D4', (ENTRY, scen, j, 'gathered axis'), msite == meas[j - 1])
        if msite != meas[j - 1]:
            run.add(F('D4', 'conditioning on the drawn bit', f'{scen}: for measured site {j} the drawn bits select along ' + (f'the mode index of site {msite}' if msite is not None else
                      'an axis that is not a mode index') + f'; they are the outcomes of site {meas[j - 1]}'))
            continue
        idx = [p_ for p_ in (G.parents or ()) if isinstance(p_, Arr) and p_.dt in ('int', 'bool') and p_.ndim == 1]
        if len(idx) != 1:
            raise AnalysisError(f'{scen}: measured site {j}: cannot find the index array that gathers the probability core')
        ib = _strip(idx[0])
        iso = ib.tags.get('sel_of')
        root = iso[0] if iso else None
        while isinstance(root, Arr) and root.origin in ('astype', 'copy') and root.parents:
            root = root.parents[0]
        if not iso or root is not mat or len(iso[1]) != 2 or iso[1][0] != ('all',) or iso[1][1][0] != 'int':
            raise AnalysisError(f'{scen}: measured site {j}: the index array that gathers the probability core is not a column of the sample matrix -- form not recognised')
        col = iso[1][1][1]
        run.oblige('D4', (ENTRY, scen, j, 'own bits'), col == j - 1)
        if col != j - 1:
            run.add(F('D4', 'conditioning on the drawn bit', f'{scen}: the probability core of measured site {j - 1} is selected by column {col} of the sample matrix, '
                      f'the bits of that site are in column {j - 1}'))
            continue
        # the gathered core and the core behind the weights of site j-1 are one and the same array
        pj = P_of.get(j - 1)
        if pj is not None:
            root_p = pj
            while isinstance(root_p, Arr) and 'sel_of' in root_p.tags:
                root_p = root_p.tags['sel_of'][0]
            same_core = root_p is base or root_p.buf is base.buf
            run.oblige('D4', (ENTRY, scen, j, 'same core'), same_core)
            if not same_core:
                run.add(F('D4', 'conditioning on the drawn bit', f'{scen}: the weights of measured site {j - 1} and the update of the environment after it use different probability cores'))
        # contracted over the left bond, sample by sample
        pat = e_[0] if e_ else None
        if pat is not None:
            ins, out = pat.replace(' ', '').split('->')
            a_s, b_s = ins.split(',')
            if ops[0] is not prev[0]:
                a_s, b_s = b_s, a_s
            batch = [c_ for c_ in a_s if c_ in b_s and c_ in out]
            summed = [c_ for c_ in a_s if c_ in b_s and c_ not in out]
            ok_pat = len(batch) == 1 and len(summed) == 1 and b_s.index(batch[0]) == idx_axes[0] - sum(1 for s_ in sel[:idx_axes[0]] if s_[0] == 'int')
            run.oblige('D4', (ENTRY, scen, j, 'sample by sample'), ok_pat)
            if not ok_pat:
                run.add(F('D4', 'update of the left environment', f'{scen}: einsum {pat!r}: the environment of sample n must meet the core slice selected by the bit of sample n '
                          '(one shared, kept label on the sample axes) and be summed over the left bond only'))
    # the last conditional contains every site up to the last measured one, each with both parities
    if (nm - 1) in X_of:
        Xl = X_of[nm - 1]
        reached = {}
        for a_ in _ancestors(Xl, stop=_is_input):
            if _is_input(a_):
                reached[a_.tags['input'][1]] = a_
        lack = [s_ for s_ in range(meas[-1] + 1) if s_ not in reached]
        run.oblige('D1', (ENTRY, scen, 'all sites enter'), not lack)
        if lack:
            run.add(F('D1', 'sites of the state in the conditional weights', f'{scen}: the state core(s) of site(s) {lack} never enter the weights of the last measured site: '
                      'those qubits are neither measured nor traced out'))
        for s_, core in sorted(reached.items()):
            if core.dt != 'complex':
                continue
            par = l2rules.conj_parities(Xl, lambda a_, core=core: _is_input(a_) and a_.tags['input'] == core.tags['input'])
            run.oblige('D1', (ENTRY, scen, 'last', s_, 'Born'), par == {0, 1})
            if par != {0, 1}:
                run.add(F('D1', 'conjugation in the probability tensor', f'{scen}: the state core of site {s_} enters the weights of the last measured site only '
                          + ('un' if par == {0} else '') + 'conjugated (psi^2, not |psi|^2)'))
    # ---------------------------------------------------------------- D5 inputs untouched
    psi, = sc.inputs
    oc, orr = sc.old
    good = len(psi._attrs['cores']) == len(oc) and all(a is b for a, b in zip(psi._attrs['cores'], oc)) and all(sz_eq(a, b) for a, b in zip(psi._attrs['ranks'], orr)) and \
        not any(c.buf.writes for c in oc)
    run.oblige('D5', (ENTRY, scen, 'state untouched'), good)
    if not good:
        run.add(F('D5', 'state argument modified', f'{scen}: a core, the core list or the metadata of the quantum state was replaced or written'))


def _value_rules(run, repo, sc, scen, F):
    """D1: the amplitudes are complex numbers -- nowhere on the way from the state to the weights may an imaginary part be dropped: a complex value written into a real
    array (the diagonal operator cores, an environment buffer), or the real part taken of an array that still carries an open doubled bond (a probability core or a
    left environment is a vectorised Hermitian matrix: its off-diagonal entries are genuinely complex; only the fully contracted weights are real up to rounding)"""
    for e in sc.events('complex-loss'):
        where, cons, f_, ln = l2rules.ev_where(repo, e, None)
        run.oblige('D1', (where, cons, 'complex amplitudes kept'), False)
        run.add(Finding('C20', 'D1', where, cons, f'{scen}: {e.get("detail", "a complex value is stored into a real array")} -- the phases of the amplitudes are lost before |psi|^2 is formed',
                        f_, ln))
    n = 0
    for e in sc.events('real-part'):
        a = e['array']
        if not any(_is_input(x) for x in _ancestors(a, stop=_is_input)):
            continue
        n += 1
        kinds = [l.resolve() for g in a.legs for l in g]
        open_bond = [l for l in kinds if l.kind == 'R' and not A.is_one(l.size)]
        where, cons, f_, ln = l2rules.ev_where(repo, e, None)
        if open_bond:
            run.oblige('D4', (where, cons, scen, 'real part'), False)
            run.add(Finding('C20', 'D4', where, cons, f'{scen}: the real part is taken of an array that still carries the open doubled bond {open_bond[:2]}: a probability core / left '
                            'environment is a vectorised Hermitian matrix whose off-diagonal entries are complex; only fully contracted weights are real', f_, ln))
        elif any(l.kind == 'X' and not A.is_one(l.size) and not sz_eq(l.size, sc.nsamp) for l in kinds):
            raise AnalysisError(f'{scen}: the real part of a complex array is taken at {where} and the analysis cannot tell whether its bonds are all closed')
        else:
            run.oblige('D4', (where, cons, scen, 'real part'), True)


def _floor_rule(run, repo, sc, scen, F):
    """D5 (every sample is drawn): a loop over  number_of_samples // B  blocks leaves the last  number_of_samples mod B  rows of the sample matrix untouched -- they stay
    0 and are counted as the all-zero bit string -- unless the code looks at the remainder somewhere (then: not decided here)"""
    fds = [e for e in sc.events('floor-div') if e.get('fn') is not None and e['fn'].mod == MOD and sz_eq(e['dividend'], sc.nsamp)]
    if not fds:
        return
    if sc.events('size-mod'):
        raise AnalysisError(f'{scen}: the samples are processed in blocks and the remainder is computed somewhere: whether it is handled is not decided')
    looped = [e for e in sc.events('floor-range') if any(sz_eq(e['count'], f_['quotient']) for f_ in fds)]
    for f_ in fds:
        if not any(sz_eq(e['count'], f_['quotient']) for e in looped):
            continue
        where, cons, fl_, ln = l2rules.ev_where(repo, f_, None)
        run.oblige('D5', (where, cons, 'every sample drawn'), False)
        run.add(Finding('C20', 'D5', where, cons, f'{scen}: the samples are drawn in {f_["dividend"]} // {f_["divisor"]} blocks of {f_["divisor"]}: the last {f_["dividend"]} mod {f_["divisor"]} rows of the '
                        'sample matrix are never drawn -- they stay 0 and are counted as the all-zero bit string (the frequencies still sum to one)', fl_, ln))
