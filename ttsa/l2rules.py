"""Rules over Layer-2 event logs shared by several properties (DESIGN.md 2.2, 2.4)."""
from . import arr as A
from .arr import Arr
from .core import AnalysisError, Finding, norm_text
from .shape import Size, sz_eq, sz_prod


def ev_where(repo, e, mods=None):
    """(where, construct, file, line) of an event; when the event happened inside a generic routine called from the modules under
    analysis, it is attributed to the innermost frame that belongs to those modules (the call site)"""
    fn = e.get('fn')
    n = e.get('node')
    if mods is not None and fn is not None and fn.mod not in mods:
        for q, loc, text in reversed(e.get('path') or []):
            f2 = repo.fns.get(q)
            if f2 is not None and f2.mod in mods:
                ln = int(loc.rsplit(':', 1)[1]) if ':' in loc else None
                return (f2.where, text, f2.file, ln)
    return (fn.where if fn else '?', norm_text(n, 150) if n is not None else '?', fn.file if fn else None, getattr(n, 'lineno', None))


def in_modules(e, mods):
    fn = e.get('fn')
    if fn is None:
        return False
    if mods is None or fn.mod in mods:
        return True
    return any((repo_q.rsplit('.', 1)[0] in mods) or any(repo_q.startswith(m + '.') for m in mods) for repo_q, _, _ in (e.get('path') or []))


def typing_obligations(run, prop, rule, repo, sc, scen, mods=None):
    """every contraction / reshape / integer-index event in the given modules is one obligation of the leg-typing rule"""
    n = 0
    for e in sc.ctx.events:
        k = e['kind']
        if not in_modules(e, mods):
            continue
        if k in ('contract', 'einsum'):
            where, cons, f, ln = ev_where(repo, e, mods)
            run.oblige(rule, (where, cons), True, nontrivial=True,
                       sample={'rule': rule, 'scenario': scen, 'construct': cons, 'where': e.get('where'), 'verdict': 'well-typed contraction'} if len(run.samples) < 6 else None)
            n += 1
        elif k == 'contract-type-error':
            where, cons, f, ln = ev_where(repo, e, mods)
            run.oblige(rule, (where, cons, 'err'), False)
            run.add(Finding(prop, rule, where, cons, f'ill-typed contraction ({scen}): {e["detail"]}', f, ln, {'scenario': scen, 'path': e.get('callers')}))
        elif k == 'layout-dependent' and any(l.resolve().kind in ('R', 'M') for g in e['array'].legs for l in g):
            where, cons, f, ln = ev_where(repo, e, mods)
            run.oblige(rule, (where, cons, 'layout'), False)
            run.add(Finding(prop, rule, where, cons, f'the index order of an unfolding depends on the memory layout of a core ({scen}): {e["detail"]}', f, ln, {'scenario': scen}))
        elif k == 'sign-scale' and isinstance(e.get('array'), Arr) and any(l.resolve().kind in ('R', 'M') for g in e['array'].legs for l in g):
            where, cons, f, ln = ev_where(repo, e, mods)
            run.oblige(rule, (where, cons, 'sign'), False)
            run.add(Finding(prop, rule, where, cons, f'part of a tensor-train core can be wiped out ({scen}): {e["detail"]}', f, ln, {'scenario': scen}))
        elif k == 'eigs-which':
            where, cons, f, ln = ev_where(repo, e, mods)
            run.oblige(rule, (where, cons, 'which'), False)
            run.add(Finding(prop, rule, where, cons, f'the shift-invert eigensolver does not target the eigenvalues nearest to sigma ({scen}): {e["detail"]}', f, ln, {'scenario': scen}))
        elif k == 'iterative-solve' and isinstance(e.get('rtol'), (int, float)) and e['rtol'] > 1e-10:
            where, cons, f, ln = ev_where(repo, e, mods)
            run.oblige(rule, (where, cons, 'iterative'), False)
            run.add(Finding(prop, rule, where, cons, f'a micro system is solved only approximately ({scen}): {e["detail"]}', f, ln, {'scenario': scen}))
        elif k == 'sum-type-error':
            where, cons, f, ln = ev_where(repo, e, mods)
            run.oblige(rule, (where, cons, 'sum'), False)
            run.add(Finding(prop, rule, where, cons, f'ill-typed sum ({scen}): {e["detail"]}', f, ln, {'scenario': scen}))
        elif k == 'reshape-misaligned':
            where, cons, f, ln = ev_where(repo, e, mods)
            semantic = any(l.resolve().kind in ('R', 'M') for g in e['array'].legs for l in g)
            if semantic:
                run.oblige(rule, (where, cons, 'reshape'), False)
                run.add(Finding(prop, rule, where, cons, f'reshape does not respect the tensor structure ({scen}): {e["detail"]}', f, ln, {'scenario': scen}))
        elif k in ('complex-loss', 'float-loss') and e.get('target') is not None and any(l.resolve().kind in ('R', 'M') for g in e['target'].legs for l in g):
            # (arrays that carry tensor-train indices: a core, or a factor on its way into one)
            where, cons, f, ln = ev_where(repo, e, mods)
            run.oblige(rule, (where, cons, 'dtype'), False)
            run.add(Finding(prop, rule, where, cons, f'a tensor-train core loses its imaginary / fractional part ({scen}): {e["detail"]}', f, ln, {'scenario': scen}))
        elif k == 'abs-discard':
            if any(l.resolve().kind in ('R', 'M') for g in e['array'].legs for l in g):
                where, cons, f, ln = ev_where(repo, e, mods)
                run.oblige(rule, (where, cons, 'discard'), False)
                run.add(Finding(prop, rule, where, cons, f'part of a tensor-train core is discarded by a test that ignores the scale of the data ({scen}): {e["detail"]}', f, ln, {'scenario': scen}))
        elif k == 'index-drop':
            legs = [l.resolve() for l in e['legs']]
            bad = [l for l in legs if l.kind == 'M' or (l.kind == 'R' and l.key[0] != 'B')]
            if bad and isinstance(e['index'], int) and not (isinstance(e.get('result'), Arr) and e['result'].tags.get('inspected_only')):
                where, cons, f, ln = ev_where(repo, e, mods)
                run.oblige(rule, (where, cons, 'index'), False)
                run.add(Finding(prop, rule, where, cons, f'a constant index selects one slice of a non-trivial tensor index ({scen}): {e["detail"]}', f, ln, {'scenario': scen}))
    return n


def raised_finding(run, prop, rule, repo, entry_qual, scen, r, instance=None):
    """the scenario lies in the property's quantifier, so an exception raised by the code is a violation"""
    if getattr(r, 'assumed_equal', None) and r.exc_type == 'ValueError':
        l_, r_ = r.assumed_equal[0]
        raise AnalysisError(f'{scen}: on the path where the sizes {l_} and {r_} are equal (a test of the code compares them) a shape error follows ({r.message[:120]}); the analysis '
                            f'does not identify the two symbols afterwards, so the error may be its own artefact')
    fn = r.fn
    where = repo.fn(entry_qual).where
    path = ' -> '.join(f'{q} [{loc}]' for q, loc, _ in (r.path or [])[-4:])
    cons = norm_text(r.node, 150) if r.node is not None else '?'
    if getattr(r, 'none_arg', None):
        cons = f'the operand {r.none_arg} is None (never assigned)'
    run.add(Finding(prop, rule, where, f'{r.exc_type} at {fn.where if fn else "?"}: {cons}',
                    f'{entry_qual} raises {r.exc_type}: {r.message} ({scen}); path: {path}', fn.file if fn else None, getattr(r.node, 'lineno', None),
                    {'scenario': scen, 'path': r.path, **({'instances': [instance]} if instance else {})}))


def invariant_obligation(run, prop, rule, repo, sc, obj, entry_qual, scen, what='returned tensor train', chain=True):
    from .l2 import chain_legs, tt_invariant
    probs = tt_invariant(sc, obj, what) + (chain_legs(obj, check_conj=sc.ctx.typed) if chain else [])
    run.oblige(rule, (entry_qual, scen, 'invariant'), not probs)
    if probs:
        fn = repo.fn(entry_qual)
        run.add(Finding(prop, rule, fn.where, f'class invariant of the {what}', f'{scen}: ' + '; '.join(probs[:3]), fn.file, fn.node.lineno, {'scenario': scen}))
    return not probs


def cut_respected(sc, roots):
    """a relative cut of the singular values of a decomposition (np.where / boolean mask / np.count_nonzero with count k) bounds the rank that is kept: every column
    selection of the U factor of that decomposition that reaches `roots` has at most k columns -- provably (a later cap may reduce it further, never enlarge it).
    Returns a list of messages."""
    probs = []
    anc = A.ancestors([r for r in roots if isinstance(r, Arr)])
    for e in sc.events('where'):
        k = e.get('count')
        if k is None:
            continue
        uid, todo, seen = None, [e.get('cond')], set()
        while todo and uid is None:
            a = todo.pop()
            if not isinstance(a, Arr) or id(a) in seen:
                continue
            seen.add(id(a))
            pv = a.tags.get('prov')
            if isinstance(pv, dict) and 'svd' in pv:
                if pv.get('role') == 's':
                    uid = pv['svd']
                continue
            todo.extend(a.parents or ())
            ex = a.tags.get('expr')
            if ex:
                todo.extend(o for o in ex[1] if isinstance(o, Arr))
        if uid is None:
            continue
        for a in anc.values():
            pv = a.tags.get('prov')
            if isinstance(pv, dict) and pv.get('svd') == uid and pv.get('role') == 'u' and 'sel' in pv and a.ndim == 2:
                if not rank_le(sc, a.shape[1], k):
                    probs.append(f'{a.shape[1]} columns of the left factor are kept although only {k} singular values pass the threshold test (the cut is overridden, e.g. by a cap computed '
                                 f'from the uncut length)')
    return sorted(set(probs))


def cut_decompositions_of(sc, sources):
    """the decompositions (svd events) whose singular values go through a threshold test and whose input is computed from one of the arrays `sources`"""
    src = {id(a) for a in sources}
    svd_by_uid = {e['uid']: e for e in sc.events('svd')}
    out = []
    for e in sc.events('where'):
        todo, seen, uid = [e.get('cond')], set(), None
        while todo and uid is None:
            a = todo.pop()
            if not isinstance(a, Arr) or id(a) in seen:
                continue
            seen.add(id(a))
            pv = a.tags.get('prov')
            if isinstance(pv, dict) and 'svd' in pv:
                if pv.get('role') == 's':
                    uid = pv['svd']
                continue
            todo.extend(a.parents or ())
            ex = a.tags.get('expr')
            if ex:
                todo.extend(o for o in ex[1] if isinstance(o, Arr))
        ev = svd_by_uid.get(uid)
        if ev is not None and src & set(A.ancestors([ev['array']])) and not any(o_ is ev for o_ in out):
            out.append(ev)
    return out


def whole_matrix_call_obligations(run, prop, rule, repo, sc, scen, mods=None):
    """basis functions are evaluated at single snapshots (see the event emitted by the basis-function models)"""
    for e in sc.events('whole-matrix-call'):
        if not in_modules(e, mods):
            continue
        where, cons, f, ln = ev_where(repo, e, mods)
        run.oblige(rule, (where, cons, 'whole-matrix-call'), False)
        run.add(Finding(prop, rule, where, cons, f'{scen}: {e["detail"]}', f, ln, {'scenario': scen}))


def conj_parities(target, source_pred, limit=4000):
    """parities (0 = unconjugated, 1 = conjugated) with which arrays satisfying `source_pred` enter `target`, over all def-use paths (parents and arrays stored
    into buffers).  {0}: enters unconjugated on every path, {1}: conjugated on every path, {0, 1}: both (e.g. X^H X), empty: does not enter."""
    out, seen, todo = set(), set(), [(target, 0)]
    while todo and len(seen) < limit:
        a, par = todo.pop()
        if not isinstance(a, Arr) or (id(a), par) in seen:
            continue
        seen.add((id(a), par))
        if source_pred(a):
            out.add(par)
            continue
        p2 = par ^ (1 if a.origin == 'conj' and a.dt == 'complex' else 0)
        for p_ in (a.parents or ()):
            todo.append((p_, p2))
        for p_ in getattr(a.buf, 'inputs', ()) or ():
            todo.append((p_, par))
        ex = a.tags.get('expr')
        if ex:
            for o in ex[1]:
                if isinstance(o, Arr):
                    todo.append((o, par))
    return out


def plain_args_frame(run, prop, rule, repo, quals, an=None):
    """the given public functions do not modify their plain (non tensor-train) arguments in place: option lists such as per-bond rank caps, reaction tables,
    data matrices.  A caller that re-uses the object (a sweep over thresholds with one caps list, a second model built from one reaction table) would get a
    different result the second time.  Layer-1 effect summaries (all paths)."""
    from . import own
    an = an or own.analyse(repo)
    for (qual, ct), sm in sorted(an.summ.items(), key=lambda kv: kv[0][0]):
        if qual not in quals:
            continue
        fn = repo.fns[qual]
        effects = {}
        for path, sites in list(sm.rebinds.items()) + list(sm.bufwrites.items()):
            root = path.split('.')[0].rstrip('[]')
            if root in fn.params and root != (fn.params[0] if fn.cls else None):
                effects.setdefault(root, set()).update(sites)
        run.oblige(rule, (qual, ct, 'arguments unmodified'), not effects)
        for root, sites in effects.items():
            s0 = sorted(sites)[0]
            run.add(Finding(prop, rule, fn.where, f'{root} <- {s0[3]}', f'argument `{root}` is modified in place ({s0[1]}:{s0[2]} {s0[3]}): a later call with the same object sees different settings',
                            fn.file, fn.node.lineno))
    return an


def lost_update_obligations(run, prop, rule, repo, sc, scen, mods=None):
    """buffered in-place updates through index arrays whose index tuples may repeat (a[I, J] += w): contributions to a repeated position are lost, so the result is
    not the sum of the contributions"""
    n = 0
    for e in sc.events('lost-update'):
        if not in_modules(e, mods):
            continue
        where, cons, f, ln = ev_where(repo, e, mods)
        run.oblige(rule, (where, cons, 'lost-update'), False)
        run.add(Finding(prop, rule, where, cons, f'{scen}: {e["detail"]}', f, ln, {'scenario': scen}))
        n += 1
    return n


def core_sources(sc, obj):
    """identity tokens of the current cores of a tensor train object"""
    return {id(c): (k, c) for k, c in enumerate(obj._attrs.get('cores', [])) if isinstance(c, Arr)}


def stale_reads(sc, tracked):
    """tracked: dict name -> TT Instance whose core list is watched.  An operand of a contraction that was computed from a core
    object which is no longer (at the time of the contraction) the object stored in that slot is a stale read.
    Implemented by the l2 Scenario recording, per contraction event, the set of *dead* core objects among the operands' ancestors."""
    return [e for e in sc.ctx.events if e['kind'] == 'stale-read']


def rank_le(sc, new, old):
    try:
        return sc.ctx.atoms.le(Size.of(new, sc.ctx.atoms), Size.of(old, sc.ctx.atoms), facts_only=False)
    except TypeError:
        return False


def layout_obligation(run, prop, rule, repo, sc, res, entry, scen):
    """the returned cores carry the ket mode index of their own site and un-conjugated bonds"""
    bad = []
    for k, c in enumerate(res._attrs['cores']):
        if not isinstance(c, Arr) or c.ndim != 4:
            continue
        for l in c.legs[1]:
            l = l.resolve()
            if l.kind == 'M' and (l.key != k or l.var != +1):
                bad.append(f'core {k} carries mode index {l}')
        for g in (c.legs[0], c.legs[3]):
            for l in g:
                l = l.resolve()
                if l.kind == 'R' and l.conj and l.key[0] != 'B':       # (a fresh bond created by a decomposition may carry the conjugate on both sides: a gauge)
                    bad.append(f'core {k} carries a conjugated bond index {l}')
                if l.kind == 'M':
                    bad.append(f'core {k} carries mode index {l} on a rank axis')
    run.oblige(rule, (entry, scen, 'layout'), not bad)
    if bad:
        fn = repo.fn(entry)
        run.add(Finding(prop, rule, fn.where, 'layout of the returned cores', f'{scen}: ' + '; '.join(bad[:3]), fn.file, fn.node.lineno))
    return not bad


def stale_obligation(run, prop, rule, repo, sc, entry, scen, mods=None):
    # stale environments, and arrays read after a destructive library flag (overwrite_a / overwrite_b) allowed a routine to overwrite them
    st = sc.events('stale-read') + sc.events('use-after-destroy')
    run.oblige(rule, (entry, scen, 'stale'), not st)
    for e in st:
        where, cons, f, ln = ev_where(repo, e, mods)
        run.add(Finding(prop, rule, where, cons, f'{scen}: {e["detail"]}', f, ln, {'scenario': scen}))
    return not st


def frame_obligations(run, prop, rule, repo, quals):
    from . import own, p_c06
    an = own.analyse(repo)
    ff, obl = p_c06.frame_findings(repo, an, prop=prop, only=set(quals))
    for o in obl:
        run.oblige(rule, (o['function'], o['tt_argument'], o['rule']), o['verdict'] == 'held')
    for f in ff:
        f.rule = rule
        run.add(f)


def orth_of(core):
    return core.tags.get('orth') if isinstance(core, Arr) else None


def _is_singular_values(v):
    p = v.tags.get('prov') if isinstance(v, Arr) else None
    return isinstance(p, dict) and p.get('role') == 's' and 'svd' in p


def relative_cut_obligations(run, prop, rule, repo, sc, scen, mods=None, expected=None, only_fns=None):
    """every threshold test on singular values must be the relative cut  s / s[0] > threshold  (the absolute variant only inside
    utils.truncated_svd when rel_truncation is False)"""
    n = 0
    for e in sc.events('where'):
        cond = e['cond']
        ex = cond.tags.get('expr') if isinstance(cond, Arr) else None
        if not ex or ex[0] not in ('gt', 'ge', 'lt', 'le'):
            continue
        l, r = ex[1]
        if ex[0] in ('lt', 'le'):
            l, r = r, l
        ok, touches = None, False
        if isinstance(l, Arr) and _is_singular_values(l):
            touches, ok = True, False                       # absolute cut  s > threshold
            if e.get('fn') is not None and e['fn'].qual == 'utils.truncated_svd' and e.get('env', {}).get('rel_truncation') is False:
                ok = True
        elif isinstance(l, Arr) and l.tags.get('expr') and l.tags['expr'][0] == 'truediv':
            num, den = l.tags['expr'][1]
            if isinstance(num, Arr) and _is_singular_values(num):
                touches = True
                so = den.tags.get('sel_of') if isinstance(den, Arr) else None
                ok = bool(so and so[0] is num and so[1] == (('int', 0),))
        if not touches:
            continue
        n += 1
        where, cons, f, ln = ev_where(repo, e, mods)
        if expected is not None and isinstance(r, (int, float)) and not isinstance(r, bool) and (only_fns is None or (e.get('fn') is not None and e['fn'].name in only_fns)):
            # option pass-through: the cut must use the threshold the caller asked for (an explicit 0 is a value, not "use the default")
            good = any(abs(float(r) - float(x)) <= 1e-15 * max(1.0, abs(float(x))) for x in expected)
            run.oblige(rule, (where, cons, 'threshold passed through'), good)
            if not good:
                run.add(Finding(prop, rule, where, cons, f'{scen}: the singular values are cut at {r} although the caller passed threshold {sorted(expected)}', f, ln))
        run.oblige(rule, (where, cons, 'relative cut'), ok)
        if not ok:
            run.add(Finding(prop, rule, where, cons, f'{scen}: singular values are cut by an absolute test (or not relative to the largest one) instead of s / s[0] > threshold', f, ln))
    return n


# ---------------------------------------------------------------------------------------------- semantic rules on matrix expressions (ttsa/mx.py)
def core_iso(core, side):
    """is the core an isometry on the given side ('LO': (rank*row*col | rank) unfolding has orthonormal columns; 'RO': (rank | row*col*rank) has orthonormal
    rows)?  True (provable: typestate tag or rewriting X^H X -> I) / False (the expression is fully known and is not one) / None (unknown)"""
    from . import mx
    if not isinstance(core, Arr):
        return None
    if core.tags.get('orth') == side:
        return True
    if core.ndim < 2:
        return None
    rows = sz_prod(core.shape[:-1]) if side == 'LO' else core.shape[0]
    m = A.unfolding_mx(core, rows)
    if (mx.left_isometry(m) if side == 'LO' else mx.right_isometry(m)):
        return True
    m = mx.canon(m)
    if mx.fully_known(m):
        return False
    if len(m) == 1 and m[0][0] == 'src':
        # one opaque matrix: a generic input core is not an isometry; an array COMPUTED in a way the normal forms do not follow (an element-wise product with a
        # vector of signs, ...) is of unknown character
        root, _par = A._view_root(core)
        n_ = 0
        while isinstance(root, Arr) and root.origin == 'getitem' and root.parents and n_ < 4:
            root, _p2 = A._view_root(root.parents[0])
            n_ += 1
        return False if not (isinstance(root, Arr) and root.parents) else None
    return None


def pair_mx(left, right):
    """matrix expression of the two-core block  (left: rank*row*col | bond) (bond | row*col*rank)"""
    from . import mx
    if not (isinstance(left, Arr) and isinstance(right, Arr)):
        return None
    return mx.mul(A.unfolding_mx(left, sz_prod(left.shape[:-1])), A.unfolding_mx(right, right.shape[0]))


def sweep_steps(sc, inst, old_cores):
    """[(slots touched, cores before, cores after)] : the stores into the core list of `inst`, grouped into the steps that lie between two matrix decompositions"""
    cur = list(old_cores)
    steps, pending = [], []

    def close():
        nonlocal cur
        if pending:
            new = list(cur)
            for k, v in pending:
                new[k] = v
            steps.append((sorted({k for k, _ in pending}), cur, new))
            cur = new
            pending.clear()
    for e in sc.ctx.events:
        if e['kind'] in ('svd', 'qr', 'rq', 'eig', 'eigh', 'solve'):
            close()
        elif e['kind'] == 'core-store' and e['tt'] is inst:
            pending.append((e['slot'], e['value']))
    close()
    return steps


def value_preservation(sc, inst, old_cores, truncating=False, skip_last=False):
    """every step of a sweep leaves the represented tensor unchanged: the product of the unfoldings of the cores it touches is the same expression before and after
    (with truncation: the same after replacing each truncated reconstruction  U[:, sel] diag(s[sel]) V[sel, :]  by the matrix that was decomposed).
    Returns (violations, unknown, number of steps checked)."""
    from . import mx
    bad, unknown, n = [], [], 0
    steps = sweep_steps(sc, inst, old_cores)
    for slots, before, after in (steps[:-1] if skip_last else steps):
        if len(slots) == 1:
            k = slots[0]
            b, a_ = before[k], after[k]
            if not (isinstance(b, Arr) and isinstance(a_, Arr)):
                continue
            mb, ma = A.unfolding_mx(b, b.shape[0]), A.unfolding_mx(a_, a_.shape[0])
            what = f'core {k}'
        elif len(slots) == 2 and slots[1] == slots[0] + 1:
            k = slots[0]
            mb, ma = pair_mx(before[k], before[k + 1]), pair_mx(after[k], after[k + 1])
            what = f'cores {k}, {k + 1}'
        else:
            unknown.append(f'a step stores into cores {slots} at once')
            continue
        n += 1
        if mb is None or ma is None:
            unknown.append(f'{what}: no matrix expression')
            continue
        ma_c = mx.untruncate(ma) if truncating else mx.canon(ma)
        mb_c = mx.untruncate(mb) if truncating else mx.canon(mb)         # (earlier steps of the sweep may have truncated already)
        if ma_c is None or mb_c is None:
            unknown.append(f'{what}: truncated factors of an unregistered decomposition')
            continue
        if ma_c == mb_c:
            continue
        # different normal forms: a verdict only if everything the step computed is a product of known factors of the old cores
        new_atoms = {f[:2] for f in ma_c if f[0] == 'src'} - {f[:2] for f in mb_c if f[0] == 'src'}
        unit_bond = len(slots) == 2 and isinstance(after[slots[0]], Arr) and A.is_one(after[slots[0]].shape[-1])
        if unit_bond:
            # across a bond of size one the factors are 1 x 1 matrices (scalars) and commute, which the normal form does not know
            unknown.append(f'{what}: different normal forms across a bond of size one ({mx.show(ma_c)} / {mx.show(mb_c)})')
        elif new_atoms:
            unknown.append(f'{what}: the new cores contain a matrix of unknown provenance ({mx.show(ma_c)})')
        else:
            bad.append(f'{what}: the product of the new cores is  {mx.show(ma_c)}  but the cores they replace give  {mx.show(mb_c)}')
    return bad, unknown, n


def data_event_findings(run, prop, rule, repo, sc, scen, mods):
    """rules on how the caller's DATA arrays (no tensor-train indices) are read: (a) flattening in memory order ('K' / 'A') puts the entries of a transposed view or a
    Fortran-ordered matrix into other (coordinate, snapshot) slots than those of the same matrix stored row-major; (b) np.vectorize without otypes fixes the dtype of all
    values by the first one"""
    for e in sc.ctx.events:
        k = e['kind']
        if not in_modules(e, mods):
            continue
        if k == 'layout-dependent' and isinstance(e.get('array'), Arr) and not any(l.resolve().kind in ('R', 'M') for g in e['array'].legs for l in g):
            where, cons, f, ln = ev_where(repo, e, mods)
            run.oblige(rule, (where, cons, 'data layout'), False)
            run.add(Finding(prop, rule, where, cons, f"{scen}: a data array is flattened in memory order: for a transposed view or a Fortran-ordered data matrix (the same numbers, the same "
                            f"shape) the entries land in other (coordinate, snapshot) positions -- {e['detail'][:120]}", f, ln, {'scenario': scen}))
        elif k == 'vectorize-otypes':
            where, cons, f, ln = ev_where(repo, e, mods)
            run.oblige(rule, (where, cons, 'vectorize'), False)
            run.add(Finding(prop, rule, where, cons, f"{scen}: a caller-supplied basis function is wrapped in {e['detail']}", f, ln, {'scenario': scen}))


def explore_data(run, prop, rule, repo, body, scen, mods, **kw):
    """l2.explore with the data-handling rules applied to every path -- also to the path on which the analysis gave up (the events recorded until then stand)"""
    from . import l2
    try:
        paths = l2.explore(repo, body, **kw)
    except AnalysisError as ex:
        sc = getattr(ex, 'scenario', None)
        if sc is not None:
            data_event_findings(run, prop, rule, repo, sc, scen, mods)
        raise
    for item in list.__iter__(paths):
        data_event_findings(run, prop, rule, repo, item[1], scen, mods)
    return paths


def dropped_remainder_findings(run, prop, rule, repo, sc, scen, mods, what='items'):
    """a loop over  n // B  blocks of B (n a size of the data, B a constant) never reaches the last  n mod B  items -- unless the code looks at the remainder
    somewhere (then: not decided)"""
    fds = [e for e in sc.events('floor-div') if in_modules(e, mods)]
    if not fds:
        return 0
    if sc.events('size-mod'):
        raise AnalysisError(f'{scen}: {what} are processed in blocks and the remainder is computed somewhere: whether it is handled is not decided')
    n = 0
    for f_ in fds:
        if not any(sz_eq(e['count'], f_['quotient']) for e in sc.events('floor-range')):
            continue
        where, cons, fl_, ln = ev_where(repo, f_, mods)
        run.oblige(rule, (where, cons, 'every item processed'), False)
        run.add(Finding(prop, rule, where, cons, f'{scen}: {what} are processed in {f_["dividend"]} // {f_["divisor"]} blocks of {f_["divisor"]}: the last {f_["dividend"]} mod {f_["divisor"]} '
                        f'of them are never processed', fl_, ln))
        n += 1
    return n
