"""C08  ALS eigen-solver and inverse power iteration (DESIGN.md 3/C08).  solvers/evp.py interpreted over the Layer-2 array domain."""
import itertools
import math

from . import arr as A
from . import l2, l2rules
from .arr import Arr
from .core import AnalysisError, Finding, Run, norm_text

EVP = 'solvers.evp'


def run_als(repo, d, solver, nev, rep, gevp, nprev, dtype='complex', dtype_gevp=None):
    def body(sc):
        Aop = sc.tt('A', d, 'op', dtype=dtype)
        x = sc.tt('x', d, 'vec', dtype=dtype)
        B = sc.tt('B', d, 'op', dtype=dtype_gevp or dtype) if gevp else None
        prev = [sc.tt(f'p{j}', d, 'vec', dtype=dtype) for j in range(nprev)]
        sc.inputs = {'A': Aop, 'x': x}
        sc.old_ranks = list(x._attrs['ranks'])
        return sc.call(f'{EVP}.als', Aop, x, previous=prev, shift=2.0, operator_gevp=B, number_ev=nev, repeats=rep, conv_eps=1e-10, solver=solver, sigma=1.5, real=True)
    return l2.explore(repo, body, max_paths=256)


def last_eig_uid(arrs):
    """uid of the latest dense eigen-decomposition the given arrays were computed from"""
    anc = A.ancestors([a for a in arrs if isinstance(a, Arr)])
    uids = [a.tags['prov']['eig'] for a in anc.values() if isinstance(a.tags.get('prov'), dict) and 'eig' in a.tags['prov']]
    return max(uids) if uids else None


def check(repo, tier):
    run = Run('C08', tier, repo, 'solvers/evp.py is interpreted from its source with concrete order / repeats / solver / number of eigenpairs and symbolic ranks and '
              'mode sizes; arrays carry tensor legs; both outcomes of the best-so-far and convergence tests are explored.')
    run.rule('D1', 'environment / micro-pencil typing for the operator, the right-hand operator and the deflation tensors (as C07-D1); the rank-one deflation '
             'term and the right-hand operator have the row/column types of the projected operator')
    run.rule('D2', 'slot typestate: no environment is read unset or stale; no exception on admissible inputs')
    run.rule('D3', 'best-so-far bookkeeping (number_ev = 1): the returned eigenvalue and eigentensor stem from the same final micro eigen-solve of one sweep, and that '
             'sweep is the last one whose "closer to sigma" test succeeded')
    run.rule('D4', 'paired reorder: eigenvalues and eigenvectors of each micro solve are re-indexed by the same selector; the returned eigentensor satisfies the '
             'class invariant, chains, and cores 1..d-1 are right-orthonormal factors; when a member of the micro pencil is complex the cores are built from its '
             'eigenvectors, not from their real parts (real=True asks for real eigenvalues only)')
    run.rule('D5', 'power_method: the Rayleigh quotient <x|A|x> / <x|B|x> is well-typed at TT level (conjugated bra), the inner solve gets the shifted operator')
    run.rule('D5b', 'power_method over the TT-level algebra (operators A, B uninterpreted, inner linear solve = exact solution): the returned eigentensor is the '
             'normalised inverse iterate  x_k = y/||y||,  (A - sigma B) y = B x_(k-1)   (B = I for the standard problem), and the returned eigenvalue is the '
             '(generalised) Rayleigh quotient <x|A|x> / <x|B|x> of the RETURNED eigentensor')
    run.rule('D6', 'frame: operator, right-hand operator, guess and deflation tensors are not modified (Layer 1)')
    run.trusted = ['leg semantics of the NumPy/SciPy transfer functions', 'the contraction rule']
    orders = (1, 2, 3, 4) if tier == 'thorough' else (2, 3)
    mods = {EVP}
    n_contr = 0
    grid = []
    for d in orders:
        for solver in ('eig', 'eigh', 'eigs'):
            for nev in (1, 2):
                reps = (1, 2) if (nev == 1 and (tier == 'thorough' or (d == 3 and solver == 'eig') or (d == 2 and solver == 'eigh'))) else (1,)
                for rep in reps:
                    for gevp, nprev in ((False, 0), (True, 2)) if (tier == 'thorough' or solver != 'eigs') else ((True, 2),):
                        grid.append((d, solver, nev, rep, gevp, nprev))
    run.bounds = f'orders {orders}; solver in (eig, eigh, eigs); number_ev in (1, 2); repeats in (1, 2); standard and generalised problems, 0 and 2 deflation tensors; complex data'
    # (real operator and guess with a complex Hermitian right-hand operator: the micro pencil is complex although the projected left-hand operator is real)
    grid += [(2, solver, 1, 1, True, 0, 'real', 'complex') for solver in ('eig', 'eigh', 'eigs')] + [(2, 'eig', 1, 1, False, 0, 'real', None)]
    for d, solver, nev, rep, gevp, nprev, *dts in grid:
        scen = f'als(order={d}, solver={solver}, number_ev={nev}, repeats={rep}, {"generalised" if gevp else "standard"}, {nprev} deflation tensors' + (f', {dts[0]} operator and guess' + (f', {dts[1]} right-hand operator' if dts[1] else '') if dts else '') + ')'
        entry = f'{EVP}.als'
        for ch, sc, res, exc in run_als(repo, d, solver, nev, rep, gevp, nprev, *dts):
            pscen = scen + (f' [branch outcomes {ch}]' if ch else '')
            n_contr += l2rules.typing_obligations(run, 'C08', 'D1', repo, sc, scen, mods)
            # D4b: the cores are built from the eigenvectors of the micro pencil, not from their real parts, when a member of the pencil is complex
            eigs_by_uid = {e['uid']: e for e in sc.events('eig')}
            for e in sc.events('real-part'):
                pv = e['array'].tags.get('prov')
                if not (isinstance(pv, dict) and pv.get('role') == 'v' and pv.get('eig') in eigs_by_uid):
                    continue
                ee = eigs_by_uid[pv['eig']]
                cplx = [nm for nm, m_ in (('operator', ee['matrix']), ('right-hand operator', ee.get('b'))) if isinstance(m_, Arr) and m_.dt == 'complex']
                where, cons, f_, ln = l2rules.ev_where(repo, e, mods)
                run.oblige('D4', (where, cons, scen, 'real-part'), not cplx)
                if cplx:
                    run.add(Finding('C08', 'D4', where, cons, f'{scen}: the eigenvectors of a micro pencil whose {" and ".join(cplx)} is complex are replaced by their real parts '
                                    f'(the stored core is then not an eigenvector of the pencil and the returned eigenvalue not the Rayleigh quotient of the returned tensor)', f_, ln, {'scenario': scen}))
            # D3b: which eigenpair is selected must not depend on the scale of the operator: no absolute tolerance on (parts of) the micro eigenvalues
            for e in sc.events('abs-tolerance-eig'):
                if not l2rules.in_modules(e, mods):
                    continue
                where, cons, f_, ln = l2rules.ev_where(repo, e, mods)
                run.oblige('D3', (where, cons, 'scale-free selection'), False)
                run.add(Finding('C08', 'D3', where, cons, f'{scen}: {e["detail"]} -- for a large operator the wanted eigenvalue itself fails the test and another eigenpair is '
                                f'returned from a maximal-rank guess', f_, ln, {'scenario': scen}))
            # option pass-through: every micro eigenproblem (both half sweeps) targets the caller's sigma -- the helper that solves it gets it, and the
            # shift-invert solver is called with it
            SIGMA = 1.5
            for e in sc.events('call'):
                if e['callee'].mod == EVP and 'sigma' in e['callee'].params and e['callee'].name != 'als':
                    argd = dict(zip(e['callee'].params, e['args']))
                    argd.update(e['kwargs'])
                    good = argd.get('sigma', None) == SIGMA
                    run.oblige('D3', (entry, scen, 'sigma', e['callee'].name), good)
                    if not good:
                        fn_ = repo.fn(entry)
                        run.add(Finding('C08', 'D3', fn_.where, f'sigma -> {e["callee"].name}', f'{scen}: {e["callee"].qual} is called ' + ('without sigma (its default is used)' if 'sigma' not in argd else
                                        f'with sigma={argd["sigma"]}') + f' instead of the caller\'s sigma={SIGMA}: that micro eigenproblem targets another part of the spectrum', fn_.file, fn_.node.lineno))
            for e in sc.events('eig'):
                if e.get('solver') == 'eigs' and e.get('sigma') != SIGMA:
                    where, cons, f_, ln = l2rules.ev_where(repo, e, mods)
                    run.oblige('D3', (where, cons, 'sigma'), False)
                    run.add(Finding('C08', 'D3', where, cons, f'{scen}: the shift-invert solver is called with sigma={e.get("sigma")} instead of the caller\'s {SIGMA}', f_, ln))
            n_before = len(run.findings) if hasattr(run, 'findings') else None
            l2rules.stale_obligation(run, 'C08', 'D2', repo, sc, entry, scen, mods)
            if exc is not None:
                run.oblige('D2', (entry, scen, 'raises'), False)
                # (an environment that is read stale is the cause; the exception -- often a mismatch between the symbolic rank of the old and the new core -- its consequence)
                if n_before is None or len(run.findings) == n_before:
                    l2rules.raised_finding(run, 'C08', 'D2', repo, entry, scen, exc)
                continue
            run.oblige('D2', (entry, scen, tuple(ch)), True)
            evs, ets, its = res
            tensors = ets if isinstance(ets, list) else [ets]
            if any(t is None for t in tensors):
                # no sweep improved on the initial "infinite" distance: only possible if the first comparison is false, which it cannot be
                run.oblige('D3', (entry, scen, 'none'), False)
                fn = repo.fn(entry)
                run.add(Finding('C08', 'D3', fn.where, 'returned eigentensor is None', f'{pscen}: no eigentensor is returned', fn.file, fn.node.lineno))
                continue
            for t in tensors:
                ok = l2rules.invariant_obligation(run, 'C08', 'D4', repo, sc, t, entry, scen, 'returned eigentensor')
                if ok:
                    l2rules.layout_obligation(run, 'C08', 'D1', repo, sc, t, entry, scen)
                    iso = {k: l2rules.core_iso(t._attrs['cores'][k], 'RO') for k in range(1, d)}
                    notro = [k for k, v_ in iso.items() if v_ is False]
                    if not notro and any(v_ is None for v_ in iso.values()):
                        raise AnalysisError(f'{scen}: right-orthonormality of cores {[k for k, v_ in iso.items() if v_ is None]} of the returned eigentensor can neither be proved nor refuted')
                    run.oblige('D4', (entry, scen, 'frame'), not notro)
                    if notro:
                        fn = repo.fn(entry)
                        run.add(Finding('C08', 'D4', fn.where, 'right-orthonormal frame at return', f'{scen}: cores {notro} of the returned eigentensor are not orthonormal factors', fn.file, fn.node.lineno))
            if len(tensors) != (nev if nev > 1 else 1):
                fn = repo.fn(entry)
                run.oblige('D4', (entry, scen, 'count'), False)
                run.add(Finding('C08', 'D4', fn.where, 'number of returned eigentensors', f'{scen}: {len(tensors)} eigentensors returned for number_ev={nev}', fn.file, fn.node.lineno))
            # D3 pairing (number_ev == 1)
            if nev == 1:
                u_val = last_eig_uid([evs]) if isinstance(evs, Arr) else None
                u_vec = last_eig_uid([tensors[0]._attrs['cores'][0]])
                sweeps = sweep_final_uids(sc)
                ok = u_val is not None and u_val == u_vec
                run.oblige('D3', (entry, scen, tuple(ch), 'paired'), ok, sample={'rule': 'D3', 'scenario': pscen, 'eigenvalue_from_sweep': sweeps.index(u_val) + 1 if u_val in sweeps else None,
                                                                                'eigentensor_from_sweep': sweeps.index(u_vec) + 1 if u_vec in sweeps else None} if rep == 2 else None)
                if not ok:
                    fn = repo.fn(entry)
                    run.add(Finding('C08', 'D3', fn.where, 'eigenvalue/eigentensor pairing', f'{pscen}: the returned eigenvalue stems from sweep '
                                    f'{sweeps.index(u_val) + 1 if u_val in sweeps else "?"} but the returned eigentensor from sweep {sweeps.index(u_vec) + 1 if u_vec in sweeps else "?"}',
                                    fn.file, fn.node.lineno))
                # which sweep must be returned: the last one whose improvement test succeeded; the test must read "new is closer to sigma than best"
                guards = improvement_tests(sc, entry)
                for g in guards:
                    good = g['direction_ok']
                    run.oblige('D3', (entry, scen, 'direction'), good)
                    if not good:
                        fn = repo.fn(entry)
                        run.add(Finding('C08', 'D3', fn.where, norm_text(g['node'], 120) if g.get('node') is not None else 'improvement test',
                                        f'{scen}: the best-so-far test does not compare "distance of the new eigenvalue to sigma < distance of the best one" (it keeps the pair that is farther from the target)', fn.file, getattr(g.get('node'), 'lineno', fn.node.lineno)))
                if ok and guards and len(guards) == len(sweeps) and all(g['direction_ok'] for g in guards):
                    want = max(i for i, g in enumerate(guards) if g['outcome'])
                    good = sweeps[want] == u_val
                    run.oblige('D3', (entry, scen, tuple(ch), 'which'), good)
                    if not good:
                        fn = repo.fn(entry)
                        run.add(Finding('C08', 'D3', fn.where, 'best-so-far selection', f'{pscen}: the pair of sweep {sweeps.index(u_val) + 1} is returned although the last sweep that was '
                                        f'closer to sigma is sweep {want + 1}', fn.file, fn.node.lineno))
                elif ok and len(guards) != len(sweeps):
                    raise AnalysisError(f'{scen}: {len(guards)} best-so-far tests recognised for {len(sweeps)} sweeps (the bookkeeping idiom changed: rule D3 needs an update)')
            else:
                # D4 paired reorder: the eigen-index of the returned eigenvalues is the eigen-index of the last core-0 block
                last5 = [e['value'] for e in sc.events('core-store') if e['slot'] == 0 and isinstance(e['value'], Arr) and e['value'].ndim == 5]
                if isinstance(evs, Arr) and evs.ndim == 1 and last5:
                    lw, lv = evs.legs[0], last5[-1].legs[4]
                    good = len(lw) == len(lv) and all(x.same(y) for x, y in zip(lw, lv)) and last_eig_uid([evs]) == last_eig_uid([last5[-1]])
                    run.oblige('D4', (entry, scen, 'paired'), good, sample={'rule': 'D4', 'scenario': scen, 'eigenvalue_index': str(lw), 'eigenvector_index': str(lv)} if d == 2 else None)
                    if not good:
                        fn = repo.fn(f'{EVP}.__update_core')
                        run.add(Finding('C08', 'D4', fn.where, f'eigenvalue/eigenvector selection ({solver})', f'{scen}: the returned eigenvalues are indexed by {list(lw)} but the eigenvectors stored in '
                                        f'the cores by {list(lv)}: the two arrays are not re-ordered/selected by the same index', fn.file, fn.node.lineno))
                else:
                    raise AnalysisError(f'{scen}: returned eigenvalues / final core not in the expected form')
    # D5 power method
    for gevp in (False, True):
        def body(sc):
            Aop = sc.tt('A', 3, 'op'); x = sc.tt('x', 3, 'vec')
            B = sc.tt('B', 3, 'op') if gevp else None
            return sc.call(f'{EVP}.power_method', Aop, x, operator_gevp=B, repeats=2, sigma=0.5)
        scen = f'power_method(order=3, {"generalised" if gevp else "standard"}, repeats=2)'
        entry = f'{EVP}.power_method'
        for ch, sc, res, exc in l2.explore(repo, body):
            n_contr += l2rules.typing_obligations(run, 'C08', 'D5', repo, sc, scen, mods | {'solvers.sle'})
            if exc is not None:
                run.oblige('D5', (entry, scen, 'raises'), False)
                l2rules.raised_finding(run, 'C08', 'D5', repo, entry, scen, exc)
                continue
            ev, et = res
            ok = isinstance(ev, Arr) and ev.ndim == 0
            run.oblige('D5', (entry, scen, 'scalar'), ok)
            if not ok:
                fn = repo.fn(entry)
                run.add(Finding('C08', 'D5', fn.where, 'returned eigenvalue', f'{scen}: the returned eigenvalue is not a scalar ({ev!r})', fn.file, fn.node.lineno))
            l2rules.invariant_obligation(run, 'C08', 'D5', repo, sc, et, entry, scen, 'returned eigentensor')
    power_method_algebra(run, repo, tier)
    l2rules.frame_obligations(run, 'C08', 'D6', repo, [f'{EVP}.als', f'{EVP}.power_method'])
    run.analysed = {'module': EVP, 'contractions_typed': n_contr, 'scenarios': len(grid) + 2}
    run.floor('typed contractions in solvers/evp.py', n_contr, 300)
    from . import p_c07
    p_c07.controls(run, repo)
    return run


def sweep_final_uids(sc):
    """eig uid of the micro solve that produced core 0 at the end of each sweep (the 5-dimensional core stored in slot 0)"""
    out = []
    for e in sc.events('core-store'):
        v = e['value']
        if e['slot'] == 0 and isinstance(v, Arr) and v.ndim == 5:
            out.append(last_eig_uid([v]))
    return out


def improvement_tests(sc, entry):
    """branch events of the entry function that compare two distances |value - sigma| (or a distance with infinity)"""
    out = []
    for g in sc.ctx.events:
        if g['kind'] != 'branch' or g.get('fn') is None or g['fn'].qual != entry:
            continue
        ex = g.get('expr')
        if not ex or ex[0] not in ('lt', 'le', 'gt', 'ge'):
            continue
        l, r = ex[1]

        def is_dist(v):
            return (isinstance(v, float) and math.isinf(v)) or (isinstance(v, Arr) and 'abs_of' in v.tags)
        if not (is_dist(l) and is_dist(r)):
            continue

        def age(v):
            if isinstance(v, float):
                return -1
            return last_eig_uid([v]) or -1
        new_left = age(l) > age(r)
        g2 = dict(g)
        g2['direction_ok'] = (ex[0] in ('lt', 'le')) == new_left
        out.append(g2)
    return out


def run_power_method(repo, qual, gevp, reps):
    """interpret a power-method implementation over ttalg2; returns (eigenvalue, eigentensor, registry, textbook iterate, Rayleigh quotient of the returned tensor)"""
    import sympy as sp
    from . import ttalg2 as T
    from . import alg
    from .interp import Interp, Frame, Fork, Raised
    fn = repo.fn(qual)
    reg = T.Reg()

    def i_eye(it, dims):
        return T.Op2.eye(reg)

    def i_als(it, operator, initial_guess, right_hand_side, **kw):
        if not isinstance(operator, T.Op2) or not isinstance(right_hand_side, T.Vec2) or not isinstance(initial_guess, T.Vec2):
            raise Raised('TypeError', 'sle.als called with wrong argument kinds')
        return T.solve(operator, right_hand_side, reg)
    libs = {'numpy': alg.FakeNp, 'math': math, 'time': alg.FakeTime, 'typing': object(), 'scipy': object(), 'scipy.linalg': object(), 'scipy.sparse.linalg': object()}
    it = Interp(repo, libs=libs, intercept={'tensor_train.eye': i_eye, 'solvers.sle.als': i_als, 'solvers.sle.mals': i_als, 'solvers.ctl.inner_solve': i_als, 'utils.progress': lambda it, *a, **k: 0.0})
    it.stack.append(Frame(fn, repo.modules[fn.mod], {}))
    Aop, Bop, x0 = T.Op2.atom('A', reg), T.Op2.atom('B', reg), T.Vec2.atom('x0', reg)
    sigma = sp.Symbol('sigma', real=True)
    try:
        res = it.call_fn(fn, [Aop, x0], {'operator_gevp': Bop if gevp else None, 'repeats': reps, 'sigma': sigma})
    except Fork:
        raise AnalysisError(f'{qual}: a test could not be decided: {it.fork_log[-1]}')
    except Raised as r:
        if r.exc_type == 'NotInThisAlgebra':
            raise AnalysisError(f'{qual}: {r.message} is not expressible in the TT-level algebra')
        raise
    if not (isinstance(res, tuple) and len(res) == 2 and isinstance(res[1], T.Vec2)):
        raise AnalysisError(f'{qual}: the result is not (eigenvalue, eigentensor) in the TT-level algebra: {res!r}')
    ev, x = res
    # the textbook iteration, built with the same constructors
    Beff = Bop if gevp else T.Op2.eye(reg)
    shift = Aop - sigma * Beff
    w = x0
    for _ in range(reps):
        y = T.solve(shift, Beff.dot(w), reg)
        w = y * (1 / y.norm())
    xh = x.transpose(conjugate=True)
    want = xh.dot(Aop).dot(x) / xh.dot(Beff).dot(x)
    try:
        ray = sp.simplify(sp.sympify(ev) - want) == 0
    except (TypeError, sp.SympifyError):
        raise AnalysisError(f'{qual}: the returned eigenvalue {ev!r} is not a scalar of the TT-level algebra')
    return ev, x, reg, w, want, ray


def power_method_algebra(run, repo, tier):
    """D5b: solvers.evp.power_method interpreted over ttalg2 (several operator symbols, inner products as uninterpreted sesquilinear forms)"""
    import os
    import sympy as sp
    from . import ttalg2 as T
    from .interp import Raised
    from .core import Repo, VERIF
    entry = f'{EVP}.power_method'
    fn = repo.fn(entry)
    for gevp, reps in itertools.product((False, True), (1, 2, 3) if tier == 'thorough' else (1, 2)):
        scen = f'power_method over the TT algebra ({"generalised" if gevp else "standard"}, repeats={reps})'
        try:
            ev, x, reg, w, want, ray = run_power_method(repo, entry, gevp, reps)
        except Raised as r:
            run.oblige('D5b', (entry, scen, 'raises'), False)
            l2rules.raised_finding(run, 'C08', 'D5b', repo, entry, scen, r)
            continue
        ok = x.same(w)
        run.oblige('D5b', (entry, scen, 'iterate'), ok)
        if not ok:
            run.add(Finding('C08', 'D5b', fn.where, 'inverse iteration', f'{scen}: the returned eigentensor is  {T.describe(str(x)[:300], reg)}  but the normalised inverse iterate is  '
                            f'{T.describe(str(w)[:300], reg)}', fn.file, fn.node.lineno))
        run.oblige('D5b', (entry, scen, 'rayleigh'), ray)
        if not ray:
            run.add(Finding('C08', 'D5b', fn.where, 'Rayleigh quotient', f'{scen}: the returned eigenvalue is  {T.describe(sp.simplify(ev), reg)[:400]}  but the (generalised) Rayleigh quotient of the '
                            f'returned eigentensor is  {T.describe(sp.simplify(want), reg)[:400]}', fn.file, fn.node.lineno))
    crepo = Repo(os.path.join(VERIF, 'controls', 'l2'))
    r_bad = run_power_method(crepo, 'solvers.ctl.power_stale_denominator', True, 2)
    r_good = run_power_method(crepo, 'solvers.ctl.power_good', True, 2)
    run.control('D5b: Rayleigh quotient with the denominator of the previous iterate (controls/l2 power_stale_denominator)', r_bad[5] is False and r_bad[1].same(r_bad[3]))
    run.control('negative control: textbook inverse iteration written differently is accepted (controls/l2 power_good)', r_good[5] is True and r_good[1].same(r_good[3]))
