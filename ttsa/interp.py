"""A small interpreter for the Python subset used by the repository, over pluggable abstract domains (DESIGN.md 2.2).

* Control quantities (orders, repeat counts, option strings, booleans) are ordinary Python values: loops over them are unrolled.
* Numerical quantities are domain objects (symbolic arrays with legs, sympy expressions, TT-algebra terms ...). The interpreter
  knows nothing about them: operators, attribute access, subscripts and method calls are simply applied to the objects.
* Library modules (numpy, scipy.linalg ...) are replaced by domain-provided fake modules; repository functions and classes are
  interpreted from their AST (or intercepted by a domain-provided stub).
* A test whose truth the domain cannot decide raises UnknownTruth; the driver (`explore`) re-runs the scenario for every
  combination of outcomes (both outcomes of every data-dependent branch are explored; there are no path constraints and no solver).
* An unsupported construct raises AnalysisError naming the construct -- never a silent pass.
"""
import ast
import builtins as _bi
import operator as _op

from .core import AnalysisError, norm_text


class UnknownTruth(Exception):
    """bool() of an abstract value that the domain cannot decide"""

    def __init__(self, why=''):
        self.why = why


class Fork(Exception):
    pass


class UnknownBool:
    """result of a comparison the domain cannot decide; deciding it (bool) raises UnknownTruth -> both outcomes are explored"""

    def __init__(self, why):
        self.why = why

    def __bool__(self):
        raise UnknownTruth(self.why)


class Raised(Exception):
    """the interpreted program raised an exception"""

    def __init__(self, exc_type, message='', node=None, fn=None):
        Exception.__init__(self, f'{exc_type}: {message}')
        self.exc_type, self.message, self.node, self.fn = exc_type, message, node, fn
        self.where = None
        self.path = None


class _Return(Exception):
    def __init__(self, value):
        self.value = value


class _Break(Exception):
    pass


class _Continue(Exception):
    pass


class Instance:
    """instance of a repository class"""

    def __init__(self, cls):
        object.__setattr__(self, '_cls', cls)
        object.__setattr__(self, '_attrs', {})

    def __repr__(self):
        return f'<{self._cls.name} instance>'


class ClassRef:
    def __init__(self, interp, mod, name):
        self.interp, self.mod, self.name = interp, mod, name
        self.node = interp.repo.modules[mod].class_nodes[name]

    def mro(self):
        out = [self]
        m = self.interp.repo.modules[self.mod]
        for b in m.class_bases.get(self.name, []):
            if b in ('object',):
                continue
            r = self.interp.repo.resolve_name(m, b)
            if r and r[0] == 'class':
                out += ClassRef(self.interp, r[1], r[2]).mro()
        return out

    def find(self, attr, after=None):
        seen_after = after is None
        for c in self.mro():
            if not seen_after:
                if c.mod == after.mod and c.name == after.name:
                    seen_after = True
                continue
            ms = self.interp.repo.modules[c.mod].classes[c.name]
            if attr in ms:
                return ms[attr]
        return None

    def __repr__(self):
        return f'<class {self.mod}.{self.name}>'


class BoundMethod:
    def __init__(self, inst, fn):
        self.inst, self.fn = inst, fn


class LocalFunction:
    def __init__(self, node, env, owner_fn):
        self.node, self.env, self.owner_fn = node, env, owner_fn


class ModuleRef:
    def __init__(self, name):
        self.name = name


class SuperProxy:
    def __init__(self, cls, inst):
        self.cls, self.inst = cls, inst


class Frame:
    def __init__(self, fn, mod, env):
        self.fn, self.mod, self.env = fn, mod, env
        self.node = None


SAFE_BUILTINS = {k: getattr(_bi, k) for k in (
    'len', 'range', 'int', 'float', 'complex', 'str', 'bool', 'abs', 'min', 'max', 'sum', 'list', 'tuple', 'dict', 'set', 'enumerate', 'zip',
    'sorted', 'reversed', 'all', 'any', 'round', 'id', 'divmod', 'map', 'filter', 'pow', 'repr', 'object', 'slice', 'frozenset', 'isinstance', 'type',
    'ValueError', 'TypeError', 'IndexError', 'NotImplementedError', 'Exception', 'KeyError', 'ZeroDivisionError', 'RuntimeError', 'AssertionError')}

BINOPS = {ast.Add: _op.add, ast.Sub: _op.sub, ast.Mult: _op.mul, ast.Div: _op.truediv, ast.FloorDiv: _op.floordiv, ast.Mod: _op.mod,
          ast.Pow: _op.pow, ast.MatMult: _op.matmul, ast.BitAnd: _op.and_, ast.BitOr: _op.or_, ast.BitXor: _op.xor,
          ast.LShift: _op.lshift, ast.RShift: _op.rshift}
CMPOPS = {ast.Eq: _op.eq, ast.NotEq: _op.ne, ast.Lt: _op.lt, ast.LtE: _op.le, ast.Gt: _op.gt, ast.GtE: _op.ge}


class Interp:
    def __init__(self, repo, libs=None, intercept=None, domain=None, choices=None, max_steps=400000):
        """libs: dotted import target -> fake module object ('numpy', 'scipy.linalg', ...); attribute lookup on them is plain getattr.
        intercept: function qualname -> python callable(interp, *args, **kwargs) used instead of interpreting the source.
        domain: object with optional hooks: truth(value) -> bool|None, on_call(fn, args, kwargs), builtin overrides (dict 'builtins')"""
        self.repo = repo
        self.libs = libs or {}
        self.intercept = intercept or {}
        self.domain = domain
        self.choices = list(choices or [])
        self.used = 0
        self.fork_log = []
        self.stack = []
        self.steps = 0
        self.max_steps = max_steps
        self.trace_calls = []
        self.builtins = dict(SAFE_BUILTINS)
        self.builtins['isinstance'] = self._isinstance
        self.builtins['print'] = lambda *a, **k: None
        self.builtins['super'] = self._super
        self.builtins['hasattr'] = lambda o, a: self._hasattr(o, a)
        self.builtins['getattr'] = lambda o, a, *d: self.getattr(o, a) if (self._hasattr(o, a) or not d) else d[0]
        if domain is not None and getattr(domain, 'builtins', None):
            self.builtins.update(domain.builtins)

    # ------------------------------------------------------------------ entry points
    def call_qual(self, qual, *args, **kwargs):
        return self.call_fn(self.repo.fn(qual), list(args), kwargs)

    def class_ref(self, mod, name):
        return ClassRef(self, mod, name)

    def where(self):
        if not self.stack:
            return '?'
        fr = self.stack[-1]
        ln = getattr(fr.node, 'lineno', 0)
        return f'{self.repo.relfile(fr.fn.file) if fr.fn else "?"}:{ln} in {fr.fn.qual if fr.fn else "?"}'

    def cur_node(self):
        return self.stack[-1].node if self.stack else None

    def cur_fn(self):
        return self.stack[-1].fn if self.stack else None

    def callers(self):
        return [f.fn.qual for f in self.stack if f.fn]

    def call_path(self):
        """[(function qual, file:line, statement text)] from the outermost analysed function to the current point"""
        out = []
        for f in self.stack:
            if f.fn is None or f.node is None:
                continue
            out.append((f.fn.qual, f'{self.repo.relfile(f.fn.file)}:{getattr(f.node, "lineno", 0)}', norm_text(f.node, 100)))
        return out

    # ------------------------------------------------------------------ truth
    def truth(self, v, node=None):
        try:
            if self.domain is not None and hasattr(self.domain, 'truth'):
                r = self.domain.truth(v)
                if r is not None:
                    return bool(r)
            return bool(v)
        except UnknownTruth as u:
            k = self.used
            self.used += 1
            desc = (self.where(), norm_text(node, 90) if node is not None else '', u.why)
            if k >= len(self.choices):
                self.fork_log.append(desc)
                raise Fork()
            self.fork_log.append(desc + (self.choices[k],))
            if self.choices[k] and getattr(v, 'tight', False):
                raise AnalysisError(f'{u.why}: the branch taken when the test succeeds relies on an equality up to rounding that the analysis does not interpret ({self.where()})')
            if self.domain is not None and hasattr(self.domain, 'on_branch'):
                self.domain.on_branch(self, node, v, self.choices[k])
            return self.choices[k]

    # ------------------------------------------------------------------ calls
    def call_fn(self, fn, args, kwargs, self_obj=None):
        if fn.qual in self.intercept:
            a = ([self_obj] if self_obj is not None else []) + list(args)
            return self.intercept[fn.qual](self, *a, **kwargs)
        if self.domain is not None and hasattr(self.domain, 'on_call'):
            self.domain.on_call(self, fn, ([self_obj] if self_obj is not None else []) + list(args), kwargs)
        node = fn.node
        mod = self.repo.modules[fn.mod]
        env = {}
        a = node.args
        pos = a.posonlyargs + a.args
        actual = ([self_obj] if self_obj is not None else []) + list(args)
        if len(actual) > len(pos) and not a.vararg:
            raise Raised('TypeError', f'{fn.qual}() takes {len(pos)} positional arguments but {len(actual)} were given', self.cur_node(), self.cur_fn())
        for p, v in zip(pos, actual):
            env[p.arg] = v
        if a.vararg:
            env[a.vararg.arg] = tuple(actual[len(pos):])
        names = [p.arg for p in pos + a.kwonlyargs]
        extra = {}
        for k, v in kwargs.items():
            if k in names:
                if k in env:
                    raise Raised('TypeError', f'{fn.qual}() got multiple values for argument {k}', self.cur_node(), self.cur_fn())
                env[k] = v
            elif a.kwarg:
                extra[k] = v
            else:
                raise Raised('TypeError', f'{fn.qual}() got an unexpected keyword argument {k}', self.cur_node(), self.cur_fn())
        if a.kwarg:
            env[a.kwarg.arg] = extra
        # defaults are evaluated in the module scope
        dfl = fn.defaults()
        frame = Frame(fn, mod, env)
        self.stack.append(frame)
        if len(self.stack) > 60:
            raise AnalysisError('interpreter recursion too deep at ' + self.where())
        try:
            for p in pos + a.kwonlyargs:
                if p.arg not in env:
                    if p.arg in dfl:
                        env[p.arg] = self.ev(dfl[p.arg])
                    else:
                        raise Raised('TypeError', f'{fn.qual}() missing argument {p.arg}', self.cur_node(), self.cur_fn())
            try:
                self.block(node.body)
            except _Return as r:
                return r.value
            return None
        finally:
            self.stack.pop()

    def call_value(self, f, args, kwargs, node=None):
        if isinstance(f, BoundMethod):
            return self.call_fn(f.fn, args, kwargs, self_obj=f.inst)
        if isinstance(f, ClassRef):
            return self.instantiate(f, args, kwargs)
        if isinstance(f, LocalFunction):
            return self.call_local(f, args, kwargs)
        if isinstance(f, Instance):
            # calling an instance of a repository class: its __call__ method
            m = self.getattr(f, '__call__', node)
            return self.call_value(m, args, kwargs, node)
        if hasattr(f, 'mod') and hasattr(f, 'node') and hasattr(f, 'qual'):      # core.Fn
            return self.call_fn(f, args, kwargs)
        if callable(f):
            try:
                if self.domain is not None and hasattr(self.domain, 'on_native'):
                    self.domain.on_native(f, args, kwargs)
                return f(*args, **kwargs)
            except Raised as r:
                if r.where is None:
                    r.where, r.node, r.fn, r.path = self.where(), node or self.cur_node(), self.cur_fn(), self.call_path()
                    if 'never assigned' in r.message and isinstance(node, ast.Call):
                        # name the operand that is None (the defect is the unset slot, not the statement that happens to consume it)
                        for a_node, a_val in zip(node.args, args):
                            if a_val is None and not isinstance(a_node, ast.Starred):
                                r.none_arg = ast.unparse(a_node)
                                break
                raise
            except (UnknownTruth, Fork, AnalysisError, _Return):
                raise
            except (TypeError, ValueError, IndexError, KeyError, ZeroDivisionError, AttributeError) as e:
                # a native/python-level error while running a builtin or a transfer function on concrete data
                if isinstance(e, TypeError) and '/ttsa/' in getattr(getattr(f, '__code__', None), 'co_filename', ''):
                    import inspect
                    try:
                        inspect.signature(f).bind(*args, **kwargs)
                    except TypeError:
                        # the MODEL of a library function does not accept these arguments; whether the real function does is unknown
                        raise AnalysisError(f'library model {getattr(f, "__qualname__", f)} does not accept the arguments of this call ({e}) at {self.where()}')
                raise self.native_error(e, node)
        raise AnalysisError(f'cannot call {f!r} at {self.where()}')

    def native_error(self, e, node):
        if getattr(e, '_ttsa_analysis', False):
            return AnalysisError(str(e))
        # an exception thrown from inside a transfer function / domain class is a defect of the checker, not of the analysed program
        tb = e.__traceback__
        last = None
        while tb is not None:
            last = tb
            tb = tb.tb_next
        if last is not None:
            fname = last.tb_frame.f_code.co_filename
            if '/ttsa/' in fname and not fname.endswith('interp.py'):
                import traceback
                return AnalysisError(f'internal error in the abstract domain ({type(e).__name__}: {e}) at {fname}:{last.tb_lineno} while analysing {self.where()}')
        if isinstance(e, TypeError) and any(f"'{n_}'" in str(e) for n_ in ('IntVec', 'Arr', 'Size', 'SymIdx', 'SymOff', 'Instance', 'UnknownBool', 'NpIntSize', 'SymArray', 'SymRange',
                                                                           'SymList', 'Poly1d', 'BasisFn', 'NpObject', 'Val', 'Fn')):
            # Python could not combine an abstract value of the analysis with its operand: an operation the domain has no transfer function for
            return AnalysisError(f'an operation on abstract values has no model ({e}) at {self.where()}')
        r = Raised(type(e).__name__, str(e), node or self.cur_node(), self.cur_fn())
        r.where = self.where()
        r.path = self.call_path()
        r.native = True          # thrown by a library / builtin call on the domain's values, not by a `raise` statement of the analysed program
        return r

    def call_local(self, lf, args, kwargs):
        env = dict(lf.env)
        params = [a.arg for a in lf.node.args.args]
        for p, v in zip(params, args):
            env[p] = v
        env.update(kwargs)
        d = lf.node.args.defaults
        if isinstance(lf.node, ast.Lambda):
            fr = Frame(lf.owner_fn, self.stack[-1].mod if self.stack else None, env)
            self.stack.append(fr)
            try:
                return self.ev(lf.node.body)
            finally:
                self.stack.pop()
        for p, dn in zip(params[len(params) - len(d):], d):
            if p not in env:
                env[p] = self.ev(dn)
        fr = Frame(lf.owner_fn, self.repo.modules[lf.owner_fn.mod], env)
        self.stack.append(fr)
        try:
            try:
                self.block(lf.node.body)
            except _Return as r:
                return r.value
            return None
        finally:
            self.stack.pop()

    def instantiate(self, cls, args, kwargs):
        q = f'{cls.mod}.{cls.name}'
        if q in self.intercept:
            return self.intercept[q](self, *args, **kwargs)
        inst = Instance(cls)
        init = cls.find('__init__')
        if init is not None:
            self.call_fn(init, args, kwargs, self_obj=inst)
        return inst

    def _super(self, *a):
        fr = self.stack[-1]
        if a:
            cls, inst = a[0], a[1]
        else:
            inst = fr.env.get('self')
            cls = ClassRef(self, fr.fn.mod, fr.fn.cls)
        return SuperProxy(cls, inst)

    def _isinstance(self, obj, types):
        if not isinstance(types, tuple):
            types = (types,)
        for t in types:
            if isinstance(t, ClassRef):
                if isinstance(obj, Instance) and any(c.mod == t.mod and c.name == t.name for c in obj._cls.mro()):
                    return True
            elif isinstance(t, type):
                if t in (int,) and isinstance(obj, bool):
                    return True
                if isinstance(obj, t) and not isinstance(obj, Instance):
                    return True
                if self.domain is not None and hasattr(self.domain, 'isinstance') and self.domain.isinstance(obj, t):
                    return True
            elif self.domain is not None and hasattr(self.domain, 'isinstance'):
                if self.domain.isinstance(obj, t):
                    return True
        return False

    # ------------------------------------------------------------------ attributes
    def _hasattr(self, o, a):
        try:
            self.getattr(o, a)
            return True
        except (Raised, AttributeError):
            return False

    def getattr(self, o, attr, node=None):
        if isinstance(o, Instance):
            if attr in o._attrs:
                return o._attrs[attr]
            fn = o._cls.find(attr)
            if fn is not None:
                return BoundMethod(o, fn)
            raise Raised('AttributeError', f'{o._cls.name} object has no attribute {attr}', node, self.cur_fn())
        if isinstance(o, SuperProxy):
            fn = o.inst._cls.find(attr, after=o.cls)
            if fn is None:
                if attr == '__init__':
                    return lambda *a, **k: None
                raise Raised('AttributeError', f'super has no attribute {attr}', node, self.cur_fn())
            return BoundMethod(o.inst, fn)
        if isinstance(o, ClassRef):
            fn = o.find(attr)
            if fn is not None:
                return fn
            raise Raised('AttributeError', f'class {o.name} has no attribute {attr}', node, self.cur_fn())
        if isinstance(o, ModuleRef):
            m = self.repo.modules[o.name]
            r = self.repo.resolve_name(m, attr)
            if r is None:
                if attr in m.imports:
                    return self.resolve_import(m, attr)
                raise Raised('AttributeError', f'module {o.name} has no attribute {attr}', node, self.cur_fn())
            return r[1] if r[0] == 'fn' else ClassRef(self, r[1], r[2])
        try:
            return getattr(o, attr)
        except AttributeError as e:
            if any(o is m for m in self.libs.values()) or (isinstance(o, type) and getattr(o, '__module__', '').startswith('ttsa.')) or \
                    (getattr(type(o), '__module__', '').startswith('ttsa.') and not isinstance(o, (Instance, BoundMethod, ClassRef, LocalFunction))):
                # an attribute the abstract value (array descriptor, dtype, fake library object ...) does not model: no verdict about the program
                raise AnalysisError(f'library attribute {getattr(o, "__name__", o)}.{attr} has no model in this domain ({self.where()})')
            raise Raised('AttributeError', str(e), node, self.cur_fn())

    def setattr(self, o, attr, v):
        if isinstance(o, Instance):
            if self.domain is not None and hasattr(self.domain, 'on_setattr'):
                self.domain.on_setattr(self, o, attr, v)
            o._attrs[attr] = v
        else:
            setattr(o, attr, v)

    # ------------------------------------------------------------------ names
    def resolve_import(self, mod, name):
        target = mod.imports[name]
        if target in self.libs:
            return self.libs[target]
        if target.startswith('scikit_tt'):
            rest = target[len('scikit_tt') + 1:]
            if rest in self.repo.modules:
                return ModuleRef(rest)
            r = self.repo.resolve_name(mod, name)
            if r is not None:
                return r[1] if r[0] == 'fn' else ClassRef(self, r[1], r[2])
        # attribute of a fake library module:  from scipy.sparse.linalg import expm_multiply
        parts = target.split('.')
        for k in range(len(parts) - 1, 0, -1):
            base = '.'.join(parts[:k])
            if base in self.libs:
                o = self.libs[base]
                for p in parts[k:]:
                    try:
                        o = getattr(o, p)
                    except AttributeError:
                        raise AnalysisError(f'import {target} (as {name}) in module {mod.name}: {base} has no model of `{".".join(parts[k:])}` in this domain')
                return o
        # pure helpers of the standard library that only call back into the values they are given (operator.mul, functools.reduce, itertools.product, ...)
        if parts[0] in ('operator', 'functools', 'itertools', 'collections'):
            import importlib
            o = importlib.import_module(parts[0])
            for p in parts[1:]:
                o = getattr(o, p)
            return o
        raise AnalysisError(f'import {target} (as {name}) in module {mod.name} has no model in this domain')

    def lookup(self, name, node=None):
        fr = self.stack[-1]
        if name in fr.env:
            return fr.env[name]
        mod = fr.mod
        # name mangling of module-level __private functions referenced inside classes is not used by the repo
        r = self.repo.resolve_name(mod, name)
        if r is not None:
            return r[1] if r[0] == 'fn' else ClassRef(self, r[1], r[2])
        if name in mod.imports:
            return self.resolve_import(mod, name)
        if name in self.builtins:
            return self.builtins[name]
        if name in ('True', 'False', 'None'):
            return {'True': True, 'False': False, 'None': None}[name]
        # module-level variable ( NAME = <expression> at the top level of the module): evaluated once per interpreter, in the module's own scope,
        # and then shared by every call (so a module-level cache behaves like one)
        gl = self.__dict__.setdefault('module_globals', {}).setdefault(mod.name, {})
        if name in gl:
            return gl[name]
        for st in mod.tree.body:
            tgt = None
            if isinstance(st, ast.Assign) and len(st.targets) == 1 and isinstance(st.targets[0], ast.Name):
                tgt = st.targets[0].id
            elif isinstance(st, ast.AnnAssign) and isinstance(st.target, ast.Name) and st.value is not None:
                tgt = st.target.id
            if tgt == name:
                self.stack.append(Frame(fr.fn, mod, {}))
                try:
                    gl[name] = self.ev(st.value)
                finally:
                    self.stack.pop()
                return gl[name]
        # not found: the analyser's name resolution is not Python's (star imports, conditional definitions ...): no verdict
        raise AnalysisError(f'name {name!r} cannot be resolved at {self.where()}')

    # ------------------------------------------------------------------ statements
    def block(self, body):
        for st in body:
            self.stmt(st)

    def stmt(self, st):
        self.steps += 1
        if self.steps > self.max_steps:
            raise AnalysisError('interpreter step budget exhausted at ' + self.where())
        self.stack[-1].node = st
        m = getattr(self, 's_' + type(st).__name__, None)
        if m is None:
            raise AnalysisError(f'unsupported statement {type(st).__name__} at {self.where()}')
        m(st)

    def s_Expr(self, st):
        if isinstance(st.value, ast.Constant):
            return
        self.ev(st.value)

    def s_Pass(self, st):
        pass

    def s_Assign(self, st):
        v = self.ev(st.value)
        for t in st.targets:
            self.assign(t, v)

    def s_AnnAssign(self, st):
        if st.value is not None:
            self.assign(st.target, self.ev(st.value))

    def s_AugAssign(self, st):
        cur = self.ev(self._as_load(st.target))
        v = self.ev(st.value)
        inplace = {ast.Add: '__iadd__', ast.Sub: '__isub__', ast.Mult: '__imul__', ast.Div: '__itruediv__'}.get(type(st.op))
        if isinstance(cur, Instance):
            # repository classes define no in-place operators: x op= y rebinds x to x.__op__(y)
            res = self.binop(st.op, cur, v, st)
        elif inplace and hasattr(cur, inplace) and not isinstance(cur, (int, float, complex, str, tuple)):
            if self.domain is not None and hasattr(self.domain, 'on_native'):
                self.domain.on_native(None, (cur, v), {})
            res = getattr(cur, inplace)(v)
            if res is NotImplemented:
                res = self.binop(st.op, cur, v, st)
        else:
            res = self.binop(st.op, cur, v, st)
        self.assign(st.target, res)

    def _as_load(self, t):
        import copy
        t2 = copy.copy(t)
        t2.ctx = ast.Load()
        return t2

    def s_If(self, st):
        if self.truth(self.ev(st.test), st.test):
            self.block(st.body)
        else:
            self.block(st.orelse)

    def s_For(self, st):
        it = self.ev(st.iter)
        it = self.iterate(it, st)
        broke = False
        for x in it:
            self.assign(st.target, x)
            try:
                self.block(st.body)
            except _Break:
                broke = True
                break
            except _Continue:
                continue
        if not broke:
            self.block(st.orelse)

    def iterate(self, it, node=None):
        if self.domain is not None and hasattr(self.domain, 'iterate'):
            r = self.domain.iterate(self, it)
            if r is not None:
                return r
        try:
            return iter(it)
        except TypeError as e:
            raise self.native_error(e, node)

    def s_While(self, st):
        n = 0
        while self.truth(self.ev(st.test), st.test):
            n += 1
            if n > 500:
                raise AnalysisError('while loop exceeded 500 iterations at ' + self.where())
            try:
                self.block(st.body)
            except _Break:
                return
            except _Continue:
                continue
        self.block(st.orelse)

    def s_Return(self, st):
        raise _Return(self.ev(st.value) if st.value is not None else None)

    def s_Break(self, st):
        raise _Break()

    def s_Continue(self, st):
        raise _Continue()

    def s_Raise(self, st):
        if st.exc is None:
            raise self._reraise
        name, msg = 'Exception', ''
        e = st.exc
        if isinstance(e, ast.Call):
            name = norm_text(e.func)
            if e.args and isinstance(e.args[0], ast.Constant):
                msg = str(e.args[0].value)
        elif isinstance(e, ast.Name):
            name = e.id
        r = Raised(name, msg, st, self.cur_fn())
        r.where = self.where()
        r.path = self.call_path()
        raise r

    def s_Try(self, st):
        try:
            self.block(st.body)
        except Raised as r:
            for h in st.handlers:
                names = []
                if h.type is not None:
                    names = [norm_text(x) for x in (h.type.elts if isinstance(h.type, ast.Tuple) else [h.type])]
                if h.type is None or r.exc_type in names or 'Exception' in names or 'BaseException' in names:
                    saved = getattr(self, '_reraise', None)
                    self._reraise = r
                    try:
                        if h.name:
                            self.stack[-1].env[h.name] = r
                        self.block(h.body)
                    finally:
                        self._reraise = saved
                    break
            else:
                self.block(st.finalbody)
                raise
        else:
            self.block(st.orelse)
        self.block(st.finalbody)

    def s_With(self, st):
        for it in st.items:
            v = self.ev(it.context_expr)
            if it.optional_vars is not None:
                self.assign(it.optional_vars, v)
        self.block(st.body)

    def s_FunctionDef(self, st):
        self.stack[-1].env[st.name] = LocalFunction(st, self.stack[-1].env, self.stack[-1].fn)

    def s_Assert(self, st):
        if not self.truth(self.ev(st.test), st.test):
            raise Raised('AssertionError', '', st, self.cur_fn())

    def s_Import(self, st):
        pass

    def s_ImportFrom(self, st):
        pass

    def s_Global(self, st):
        pass

    def s_Delete(self, st):
        for t in st.targets:
            if isinstance(t, ast.Name):
                self.stack[-1].env.pop(t.id, None)
            elif isinstance(t, ast.Subscript):
                del self.ev(t.value)[self.ev_index(t.slice)]

    # ------------------------------------------------------------------ assignment
    def assign(self, t, v):
        if isinstance(t, ast.Name):
            self.stack[-1].env[t.id] = v
        elif isinstance(t, (ast.Tuple, ast.List)):
            try:
                vals = list(self.iterate(v))
            except TypeError as e:
                raise self.native_error(e, t)
            star = [i for i, e in enumerate(t.elts) if isinstance(e, ast.Starred)]
            if star:
                k = star[0]
                n_after = len(t.elts) - k - 1
                if len(vals) < len(t.elts) - 1:
                    raise Raised('ValueError', 'not enough values to unpack', t, self.cur_fn())
                for e, x in zip(t.elts[:k], vals[:k]):
                    self.assign(e, x)
                self.assign(t.elts[k].value, vals[k:len(vals) - n_after])
                for e, x in zip(t.elts[k + 1:], vals[len(vals) - n_after:]):
                    self.assign(e, x)
                return
            if len(vals) != len(t.elts):
                raise Raised('ValueError', f'cannot unpack {len(vals)} values into {len(t.elts)} targets', t, self.cur_fn())
            for e, x in zip(t.elts, vals):
                self.assign(e, x)
        elif isinstance(t, ast.Subscript):
            base = self.ev(t.value)
            idx = self.ev_index(t.slice)
            if self.domain is not None and hasattr(self.domain, 'on_setitem'):
                if self.domain.on_setitem(self, base, idx, v, t):
                    return
            try:
                if self.domain is not None and hasattr(self.domain, 'on_native'):
                    self.domain.on_native(None, (base, idx, v), {})
                base[idx] = v
            except Raised as r:
                if r.where is None:
                    r.where, r.node, r.fn, r.path = self.where(), t, self.cur_fn(), self.call_path()
                raise
            except (UnknownTruth, Fork, AnalysisError):
                raise
            except (TypeError, IndexError, KeyError, ValueError) as e:
                raise self.native_error(e, t)
        elif isinstance(t, ast.Attribute):
            self.setattr(self.ev(t.value), t.attr, v)
        elif isinstance(t, ast.Starred):
            self.assign(t.value, v)
        else:
            raise AnalysisError(f'unsupported assignment target {type(t).__name__} at {self.where()}')

    # ------------------------------------------------------------------ expressions
    def ev(self, e):
        m = getattr(self, 'e_' + type(e).__name__, None)
        if m is None:
            raise AnalysisError(f'unsupported expression {type(e).__name__} at {self.where()}: {norm_text(e, 80)}')
        return m(e)

    def e_Constant(self, e):
        return e.value

    def e_Name(self, e):
        return self.lookup(e.id, e)

    def e_Attribute(self, e):
        return self.getattr(self.ev(e.value), e.attr, e)

    def ev_index(self, s):
        if isinstance(s, ast.Slice):
            return slice(self.ev(s.lower) if s.lower is not None else None, self.ev(s.upper) if s.upper is not None else None,
                         self.ev(s.step) if s.step is not None else None)
        if isinstance(s, ast.Tuple):
            return tuple(self.ev_index(x) for x in s.elts)
        return self.ev(s)

    def e_Subscript(self, e):
        base = self.ev(e.value)
        idx = self.ev_index(e.slice)
        if self.domain is not None and hasattr(self.domain, 'on_getitem'):
            r = self.domain.on_getitem(self, base, idx, e)
            if r is not NotImplemented:
                return r
        try:
            if self.domain is not None and hasattr(self.domain, 'on_native'):
                self.domain.on_native(None, (base, idx), {})
            return base[idx]
        except Raised as r:
            if r.where is None:
                r.where, r.node, r.fn, r.path = self.where(), e, self.cur_fn(), self.call_path()
            raise
        except (UnknownTruth, Fork, AnalysisError):
            raise
        except (TypeError, IndexError, KeyError, ValueError) as ex:
            raise self.native_error(ex, e)

    def e_Slice(self, e):
        return self.ev_index(e)

    def e_List(self, e):
        out = []
        for x in e.elts:
            if isinstance(x, ast.Starred):
                out.extend(self.iterate(self.ev(x.value)))
            else:
                out.append(self.ev(x))
        return out

    def e_Tuple(self, e):
        return tuple(self.e_List(e))

    def e_Set(self, e):
        return set(self.e_List(e))

    def e_Dict(self, e):
        return {self.ev(k): self.ev(v) for k, v in zip(e.keys, e.values)}

    def binop(self, op, a, b, node):
        if isinstance(a, Instance) or isinstance(b, Instance):
            name = {ast.Add: 'add', ast.Sub: 'sub', ast.Mult: 'mul', ast.MatMult: 'matmul', ast.Div: 'truediv'}.get(type(op))
            if name is None:
                raise Raised('TypeError', 'unsupported operand', node, self.cur_fn())
            if isinstance(a, Instance):
                fn = a._cls.find(f'__{name}__')
                if fn is not None:
                    return self.call_fn(fn, [b], {}, self_obj=a)
            if isinstance(b, Instance):
                fn = b._cls.find(f'__r{name}__')
                if fn is not None:
                    return self.call_fn(fn, [a], {}, self_obj=b)
            raise Raised('TypeError', f'unsupported operand type(s) for {name}', node, self.cur_fn())
        try:
            if self.domain is not None and hasattr(self.domain, 'on_native'):
                self.domain.on_native(None, (a, b), {})
            if self.domain is not None and hasattr(self.domain, 'on_binop'):
                self.domain.on_binop(op, a, b, node)
            return BINOPS[type(op)](a, b)
        except Raised as r:
            if r.where is None:
                r.where, r.node, r.fn, r.path = self.where(), node, self.cur_fn(), self.call_path()
            raise
        except (UnknownTruth, Fork, AnalysisError):
            raise
        except (TypeError, ValueError, ZeroDivisionError, IndexError, OverflowError) as ex:
            raise self.native_error(ex, node)

    def e_BinOp(self, e):
        return self.binop(e.op, self.ev(e.left), self.ev(e.right), e)

    def e_UnaryOp(self, e):
        v = self.ev(e.operand)
        if isinstance(e.op, ast.Not):
            return not self.truth(v, e)
        if isinstance(e.op, ast.USub):
            if self.domain is not None and hasattr(self.domain, 'on_native'):
                self.domain.on_native(None, (v,), {})
            return -v
        if isinstance(e.op, ast.UAdd):
            return +v
        if isinstance(e.op, ast.Invert):
            return ~v
        raise AnalysisError('unsupported unary operator')

    def e_BoolOp(self, e):
        # an operand whose truth had to be chosen (undecidable) is replaced by the chosen boolean, so that it is decided only once
        is_and = isinstance(e.op, ast.And)
        v = is_and
        for x in e.values:
            v = self.ev(x)
            before = self.used
            t = self.truth(v, x)
            if self.used != before:
                v = t
            if t != is_and:
                return v
        return v

    def e_Compare(self, e):
        left = self.ev(e.left)
        res = True
        for op, c in zip(e.ops, e.comparators):
            right = self.ev(c)
            if isinstance(op, ast.Is):
                r = left is right or (isinstance(left, (bool, type(None))) and left == right and type(left) is type(right))
            elif isinstance(op, ast.IsNot):
                r = not (left is right or (isinstance(left, (bool, type(None))) and left == right and type(left) is type(right)))
            elif isinstance(op, ast.In):
                r = self.contains(right, left)
            elif isinstance(op, ast.NotIn):
                r = not self.contains(right, left)
            else:
                try:
                    if self.domain is not None and hasattr(self.domain, 'on_native'):
                        self.domain.on_native(None, (left, right), {})
                    r = self.domain.compare(op, left, right) if self.domain is not None and hasattr(self.domain, 'compare') else None
                    if r is None:
                        r = CMPOPS[type(op)](left, right)
                except UnknownTruth as u:
                    r = UnknownBool(u.why)
                    r.cmp = (type(op).__name__, left, right)          # (a domain may turn the outcome chosen for the test into a fact about the operands)
                except (Fork, AnalysisError, Raised):
                    raise
                except TypeError as ex:
                    raise self.native_error(ex, e)
            if len(e.ops) == 1:
                return r
            if not self.truth(r, e):
                return False
            left = right
        return res

    def contains(self, container, item):
        for x in self.iterate(container):
            if self.truth(x == item):
                return True
        return False

    def e_IfExp(self, e):
        return self.ev(e.body) if self.truth(self.ev(e.test), e.test) else self.ev(e.orelse)

    def e_Lambda(self, e):
        return LocalFunction(e, self.stack[-1].env, self.stack[-1].fn)

    def _comp(self, gens, k, emit):
        if k == len(gens):
            emit()
            return
        g = gens[k]
        for x in self.iterate(self.ev(g.iter)):
            self.assign(g.target, x)
            if all(self.truth(self.ev(c), c) for c in g.ifs):
                self._comp(gens, k + 1, emit)

    def e_ListComp(self, e):
        out = []
        fr = self.stack[-1]
        saved = fr.env
        fr.env = dict(saved)
        self._comp_iters = []
        try:
            self._comp(e.generators, 0, lambda: out.append(self.ev(e.elt)))
        finally:
            fr.env = saved
        if self.domain is not None and hasattr(self.domain, 'wrap_comprehension'):
            return self.domain.wrap_comprehension(self, e, out)
        return out

    def e_GeneratorExp(self, e):
        return self.e_ListComp(e)

    def e_SetComp(self, e):
        return set(self.e_ListComp(e))

    def e_DictComp(self, e):
        out = {}
        fr = self.stack[-1]
        saved = fr.env
        fr.env = dict(saved)
        try:
            self._comp(e.generators, 0, lambda: out.__setitem__(self.ev(e.key), self.ev(e.value)))
        finally:
            fr.env = saved
        return out

    def e_JoinedStr(self, e):
        return ''.join(str(self.ev(v.value)) if isinstance(v, ast.FormattedValue) else str(v.value) for v in e.values)

    def e_Starred(self, e):
        return self.ev(e.value)

    def e_Call(self, e):
        f = self.ev(e.func)
        args = []
        for a in e.args:
            if isinstance(a, ast.Starred):
                args.extend(self.iterate(self.ev(a.value)))
            else:
                args.append(self.ev(a))
        kwargs = {}
        for k in e.keywords:
            if k.arg is None:
                kwargs.update(self.ev(k.value))
            else:
                kwargs[k.arg] = self.ev(k.value)
        self.stack[-1].node = e if not isinstance(self.stack[-1].node, ast.stmt) else self.stack[-1].node
        prev = getattr(self, 'call_node', None)
        self.call_node = e
        try:
            return self.call_value(f, args, kwargs, e)
        finally:
            self.call_node = prev


def explore(make_interp, run, max_paths=4096):
    """run(interp) for every combination of outcomes of undecidable tests (DFS over choice prefixes).
    make_interp(choices) -> Interp.  Returns list of (choices, result_or_exception, interp)."""
    out = []
    stack = [[]]
    while stack:
        ch = stack.pop()
        it = make_interp(ch)
        try:
            res = run(it)
            out.append((ch, res, it))
        except Fork:
            stack.append(ch + [False])
            stack.append(ch + [True])
            continue
        except Raised as r:
            out.append((ch, r, it))
        if len(out) > max_paths:
            raise AnalysisError(f'more than {max_paths} paths')
    return out
