"""C17  Tensor-based DMD (DESIGN.md 3/C17): reduced-matrix contraction typing, option pass-through, paired reorder, class invariant of the modes, frame.
data_driven/tdmd.py interpreted over the Layer-2 array domain."""
import itertools

from . import arr as A
from . import l2, l2rules
from .arr import Arr
from .core import AnalysisError, Finding, Run, norm_text
from .shape import sz_eq

MOD = 'data_driven.tdmd'


def check(repo, tier):
    run = Run('C17', tier, repo, 'data_driven/tdmd.py interpreted from source over symbolic tensor trains (concrete order, symbolic spatial dimensions, snapshot count and ranks).')
    run.rule('D1', 'reduced matrix: the pseudoinverse core of spatial site k is contracted with the core of y at the same site through the row index; rank pairs are merged in one order '
             'throughout; reshapes respect the index structure; the snapshot cores are contracted last')
    run.rule('D2', 'the returned modes satisfy the TT class invariant (4-dimensional cores, metadata agree); eigenvalues and mode columns are re-ordered by the same index; inputs untouched')
    run.rule('D3', 'x.pinv is called at the snapshot core (index order-1) with the caller\'s threshold / ortho_l / ortho_r')
    run.trusted = ['NumPy/SciPy transfer functions']
    orders = (2, 3, 4)          # (order 4 = three spatial cores: the first order at which the loop over interior cores runs more than once)
    run.bounds = f'orders {orders} (last core = snapshots), all ortho flag combinations, threshold 0 and > 0'

    def F(qual, rule, what, msg):
        fn = repo.fn(qual)
        return Finding('C17', rule, fn.where, what, msg, fn.file, fn.node.lineno)
    grid = [(w_, d_, f_, t_, 'complex') for w_, d_, f_, t_ in itertools.product(('tdmd_exact', 'tdmd_standard'), orders, ((True, True), (False, True), (True, False)), (0.0, 1e-6))]
    # real snapshot data (the usual case): the eigenpairs of the real reduced matrix are complex all the same
    grid += [(w_, d_, (True, True), 0.0, 'real') for w_ in ('tdmd_exact', 'tdmd_standard') for d_ in (2, 3)]
    for which, d, (ol, orr), thr, xdt in grid:
        if tier == 'quick' and thr and (ol, orr) != (True, True):
            continue
        if tier == 'quick' and d == 4 and ((ol, orr) != (True, True) or thr):
            continue
        entry = f'{MOD}.{which}'
        scen = f'{which}(order={d}, ortho_l={ol}, ortho_r={orr}, threshold={thr}' + (', real data' if xdt == 'real' else '') + ')'

        def body(sc):
            m = sc.atom('msnap')
            rows = [sc.mode(k) for k in range(d - 1)] + [m]
            x = sc.tt('x', d, 'vec', row=rows, dtype=xdt)
            y = sc.tt('y', d, 'vec', row=rows, dtype=xdt)
            sc.inputs = (x, y)
            sc.old = (list(x._attrs['cores']), list(y._attrs['cores']), list(x._attrs['ranks']), list(y._attrs['ranks']))
            return sc.call(entry, x, y, threshold=thr, ortho_l=ol, ortho_r=orr)
        for ch, sc, res, exc in l2.explore(repo, body, typed=False):
            if exc is not None:
                run.oblige('D2', (entry, scen), False)
                l2rules.raised_finding(run, 'C17', 'D2', repo, entry, scen, exc)
                continue
            ev, modes = res
            x, y = sc.inputs
            l2rules.relative_cut_obligations(run, 'C17', 'D3', repo, sc, scen, {MOD, 'tensor_train'})
            ok = l2rules.invariant_obligation(run, 'C17', 'D2', repo, sc, modes, entry, scen, 'DMD modes', chain=False)
            # D1 site pairing in the reduced matrix
            bad = []
            n_pairs = set()
            for e in sc.events('contract'):
                if e.get('fn') is None or e['fn'].name != '__tdmd_reduced_matrix':
                    continue
                la = [l.resolve() for i in e['axes'][0] for l in e['a'].legs[i]]
                lb = [l.resolve() for j in e['axes'][1] for l in e['b'].legs[j]]
                for p_, q_ in zip(la, lb):
                    if p_.kind == 'M' and q_.kind == 'M':
                        if p_.key != q_.key:
                            bad.append(f'site {p_.key} of one operand is contracted with site {q_.key} of the other')
                        n_pairs.add(p_.key)
                    elif (p_.kind == 'M') != (q_.kind == 'M') and 'X' not in (p_.kind, q_.kind):
                        bad.append(f'a mode index is contracted with a rank index: {p_} with {q_}')
            if n_pairs != set(range(d)):
                bad.append(f'the sites contracted between pinv(x) and y are {sorted(n_pairs)}, expected all of 0..{d - 1}')
            for e in sc.events('reshape-misaligned'):
                if e.get('fn') is not None and e['fn'].mod == MOD and any(l.resolve().kind in ('M', 'R') for g in e['array'].legs for l in g):
                    bad.append('a reshape cuts or reorders indices: ' + e['detail'][:140])
            run.oblige('D1', (entry, scen), not bad, sample={'rule': 'D1', 'scenario': scen, 'sites_contracted': sorted(n_pairs)} if d == 3 and ol and orr and not thr else None)
            if bad:
                run.add(F(f'{MOD}.__tdmd_reduced_matrix', 'D1', 'site pairing in the reduced matrix', f'{scen}: ' + '; '.join(sorted(set(bad))[:3])))
            # D2 (standard tDMD): the projected modes are U W with U the left-orthonormal part of the global SVD of x: the spatial cores of the returned
            # modes (with both orthonormalisation flags) must be left isometries -- a pseudoinverse that carries 1/s on the left of the bond has the same value
            # but its leading cores are not U
            if ok and which == 'tdmd_standard' and ol and orr:
                from .p_c03 import show_unf
                noniso = [k for k in range(d - 1) if l2rules.core_iso(modes._attrs['cores'][k], 'LO') is False]
                run.oblige('D2', (entry, scen, 'U part'), not noniso)
                if noniso:
                    run.add(F(entry, 'D2', 'left-orthonormal part of the modes', f'{scen}: spatial core {noniso[0]} of the modes is not a left isometry: its unfolding is  '
                              f'{show_unf(modes._attrs["cores"][noniso[0]], "LO")}  (the projected DMD modes are U W with U^H U = I)'))
            # D2 conjugation: the modes are (Y X^+ or U) W / lambda with the eigenvector matrix W itself -- on every def-use path the eigenvectors enter the mode
            # coefficient core an even number of conjugations deep (W conjugated gives, for real data, the modes of the conjugate eigenvalues)
            if ok:
                par = l2rules.conj_parities(modes._attrs['cores'][-1], lambda a_: isinstance(a_.tags.get('prov'), dict) and a_.tags['prov'].get('role') == 'v' and 'eig' in a_.tags['prov']
                                            and 'sel' not in a_.tags['prov'])
                if not par:
                    raise AnalysisError(f'{scen}: the eigenvectors of the reduced matrix do not reach the last core of the modes on any path the analysis follows')
                run.oblige('D2', (entry, scen, 'conjugation'), par == {0})
                if par != {0}:
                    run.add(F(entry, 'D2', 'conjugation of the eigenvectors', f'{scen}: the eigenvector matrix of the reduced matrix enters the mode coefficients '
                              + ('complex-conjugated' if par == {1} else 'both conjugated and unconjugated') + ': position k of the modes then holds the mode of the conjugate of eigenvalue k'))
            # D1 the reduced matrix is a general matrix: its eigenpairs come from a general eigensolver (a Hermitian one reads one triangle only, i.e. silently
            # symmetrises; a tolerance comparison with the transpose does not make the matrix symmetric)
            herm = [e for e in sc.events('eig') if e.get('solver') == 'eigh' and e.get('fn') is not None and e['fn'].mod == MOD]
            run.oblige('D1', (entry, scen, tuple(ch), 'general eigensolver'), not herm)
            if herm:
                where, cons, f_, ln = l2rules.ev_where(repo, herm[0], {MOD})
                run.add(Finding('C17', 'D1', where, cons, f'{scen}' + (f' [on the path with test outcomes {ch}]' if ch else '') + ': the eigenpairs of the reduced matrix are computed by a Hermitian '
                                'eigensolver: the reduced matrix of DMD is not symmetric in general, the solver uses one triangle only', f_, ln))
            # D1 y enters as it is: the rank cut belongs to the pseudoinverse of x; a truncated y drops components of the data the DMD operator maps to
            ycut = l2rules.cut_decompositions_of(sc, sc.old[1])
            run.oblige('D1', (entry, scen, tuple(ch), 'y not truncated'), not ycut)
            if ycut:
                run.add(F(entry, 'D1', 'y truncated', f'{scen}: {len(ycut)} decomposition(s) of (arrays computed from) the cores of y are cut by a threshold test: the reduced matrix and the modes are built '
                          'from a truncated y'))
            # D2 dtype: the eigenvectors of the reduced matrix are complex in general; written into a real array they lose their imaginary parts
            for e in sc.events('complex-loss'):
                if e.get('fn') is not None and e['fn'].mod == MOD:
                    where, cons, f_, ln = l2rules.ev_where(repo, e, {MOD})
                    run.oblige('D2', (where, cons, 'dtype'), False)
                    run.add(Finding('C17', 'D2', where, cons, f'{scen}: {e["detail"]} -- the modes of a complex-conjugate eigenvalue pair become U Re(w)', f_, ln))
            # D2 eigenvalues are complex: a test written as an ordering comparison on them (lambda > eps) looks at real parts, not at moduli
            for e in sc.events('complex-order'):
                if e.get('fn') is not None and e['fn'].mod == MOD:
                    where, cons, f_, ln = l2rules.ev_where(repo, e, {MOD})
                    run.oblige('D2', (where, cons, 'complex order'), False)
                    run.add(Finding('C17', 'D2', where, cons, f'{scen}: {e["detail"]} -- eigenvalues with non-positive real part fail a "greater than a small number" test although they are not small', f_, ln))
            # D2 paired reorder
            if ok and isinstance(ev, Arr) and ev.ndim == 1:
                lw = ev.legs[0]
                lv = modes._attrs['cores'][-1].legs[1]
                good = len(lw) == len(lv) and all(p_.same(q_) for p_, q_ in zip(lw, lv))
                run.oblige('D2', (entry, scen, 'paired'), good)
                if not good:
                    run.add(F(entry, 'D2', 'eigenvalue / mode ordering', f'{scen}: the eigenvalues are indexed by {list(lw)} but the mode columns by {list(lv)} (not re-ordered by the same index)'))
            elif ok:
                run.oblige('D2', (entry, scen, 'paired'), False)
                run.add(F(entry, 'D2', 'returned eigenvalues', f'{scen}: the eigenvalues are not a vector: {ev!r}'))
            # inputs untouched
            oc_x, oc_y, or_x, or_y = sc.old
            good = all(a is b for a, b in zip(x._attrs['cores'], oc_x)) and all(a is b for a, b in zip(y._attrs['cores'], oc_y)) and \
                all(sz_eq(a, b) for a, b in zip(x._attrs['ranks'], or_x)) and all(sz_eq(a, b) for a, b in zip(y._attrs['ranks'], or_y)) and len(y._attrs['cores']) == d
            run.oblige('D2', (entry, scen, 'inputs'), good)
            if not good:
                run.add(F(entry, 'D2', 'inputs modified', f'{scen}: a core or the metadata of x or y was replaced'))
            # D3 options
            calls = [e for e in sc.events('call') if e['callee'].name in ('pinv', 'svd') and e['args'] and e['args'][0] is x]
            good = False
            if not calls:
                raise AnalysisError(f'{scen}: neither TT.pinv nor TT.svd is applied to x: the way the pseudoinverse is formed is not one the analysis recognises')
            if calls:
                c = calls[0]
                names = ['self', 'index', 'threshold', 'ortho_l', 'ortho_r', 'overwrite'] if c['callee'].name == 'pinv' else ['self', 'index', 'threshold', 'max_rank', 'ortho_l', 'ortho_r', 'overwrite']
                argd = dict(zip(names, c['args']))
                argd.update(c['kwargs'])
                good = argd.get('index') == d - 1 and argd.get('threshold', 0.0) == thr and argd.get('ortho_l', True) is ol and argd.get('ortho_r', True) is orr
            run.oblige('D3', (entry, scen), good)
            if not good:
                c = calls[0] if calls else None
                run.add(F(entry, 'D3', 'options of the pseudoinverse', f'{scen}: pinv is called with {[a for a in (c["args"][1:] if c else [])]} {c["kwargs"] if c else ""} '
                          f'instead of index={d - 1}, threshold={thr}, ortho_l={ol}, ortho_r={orr}'))
    l2rules.frame_obligations(run, 'C17', 'D2', repo, [f'{MOD}.tdmd_exact', f'{MOD}.tdmd_standard'])
    # R-c (two objects around one core list) in this module
    from . import own, p_c06
    an = own.analyse(repo)
    for f in p_c06.rule_c(repo, an, prop='C17'):
        if f.where.startswith(MOD + '::'):
            f.rule = 'D2'
            run.oblige('D2', (f.where, f.construct), False)
            run.add(f)
    run.floor('obligations decided', run.obligations, 40)
    return run
