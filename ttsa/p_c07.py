"""C07  ALS / MALS linear solvers (DESIGN.md 3/C07): environment typing, slot typestate, sweep coverage, sibling micro-solvers,
rank facts, frame.  solvers/sle.py is interpreted from its source over the Layer-2 array domain."""
import itertools
import math

from . import arr as ARR
from . import l2, l2rules, own, p_c06
from .arr import Arr
from .core import AnalysisError, Finding, Run, norm_text
from .shape import Size

SLE = 'solvers.sle'


def orth_of(core):
    return core.tags.get('orth') if isinstance(core, Arr) else None


def run_solver(repo, which, d, solver, repeats, threshold=1e-12, max_rank=None, dtype='complex'):
    dts = (dtype,) * 3 if isinstance(dtype, str) else dtype

    def body(sc):
        A = sc.tt('A', d, 'op', dtype=dts[0])
        x = sc.tt('x', d, 'vec', dtype=dts[1])
        b = sc.tt('b', d, 'vec', dtype=dts[2])
        sc.inputs = {'A': A, 'x': x, 'b': b}
        sc.old_ranks = list(x._attrs['ranks'])
        if which == 'als':
            return sc.call(f'{SLE}.als', A, x, b, repeats=repeats, solver=solver)
        mr = math.inf if max_rank is None else sc.atom('rho', free=True)
        sc.rho = mr
        return sc.call(f'{SLE}.mals', A, x, b, repeats=repeats, solver=solver, threshold=threshold, max_rank=mr)
    try:
        return l2.explore(repo, body)
    except AnalysisError as ae_:
        # (rules that one recorded event decides are decided on the paths explored before the analysis gave up)
        for item in list(list.__iter__(getattr(ae_, 'paths', []))) + ([(None, ae_.scenario, None, None)] if getattr(ae_, 'scenario', None) is not None else []):
            if STRUCTURE_RULE[0] is not None:
                STRUCTURE_RULE[0](item[1])
        raise


STRUCTURE_RULE = [None]


def solved_sites(sc, result_inputs=None):
    """sequence of core slots that received a freshly solved micro system (ancestry: solve -> ... -> core store)"""
    seq = []
    solves = {id(e['result']): e for e in sc.events('solve')}
    for e in sc.events('core-store'):
        v = e['value']
        if isinstance(v, Arr) and id(v) in solves:
            seq.append(e['slot'])
    return seq


def check(repo, tier):
    run = Run('C07', tier, repo, 'solvers/sle.py is interpreted from its source with concrete order/repeats/solver and symbolic ranks and mode sizes; '
              'every array carries tensor legs (bond, site, variance, conjugation); rules are evaluated on the event log.')
    run.rule('D1', 'environment / micro-system typing: every contraction pairs a ket index with an operator column, a conjugated bra index with an operator '
             'row, equal bonds with equal conjugation; the right-hand side has the row type of the micro matrix; reshapes respect leg boundaries; the '
             'solved core has the layout (left bond, site mode, 1, right bond) and the returned train chains')
    run.rule('D2', 'slot typestate: no environment slot is read before it is written (None operand) or after a core it was computed from has been replaced; no array is read after a destructive library flag (overwrite_a / overwrite_b) let a routine overwrite it')
    run.rule('D3', 'sweep coverage: per repeat the micro systems are solved for cores 0..d-2 then d-1..0 (MALS: pairs 0..d-3 then d-2..0); at return cores 1..d-1 are right-orthonormal factors')
    run.rule('D4', 'sibling micro-solvers: solver=\'lu\' solves the same systems as solver=\'solve\' (trans=0, same operands, same sequence)')
    run.rule('D5', 'ranks: ALS never raises a rank (economic QR/RQ facts), MALS bonds are capped by max_rank; the result satisfies the TT class invariant with the dimensions of the guess')
    run.rule('D6', 'frame: operator, right-hand side and guess are not modified (Layer 1, all paths)')
    run.trusted = ['leg semantics of the NumPy/SciPy transfer functions in ttsa/fakelib.py', 'the contraction rule (multilinear algebra)']
    orders = (1, 2, 3, 4, 5) if tier == 'thorough' else (1, 2, 3)
    reps = (1, 2)
    run.bounds = f'orders {orders}, repeats {reps}, solver in (solve, lu), MALS threshold in (0, 1e-12), max_rank in (inf, symbolic cap); complex data'
    mods = {SLE}
    n_contr = 0
    def structure_rule(sc_):
        # D4: the micro system is solved as the matrix it is: a structure hint that does not describe a complex Hermitian micro matrix makes LAPACK solve another system
        for e_ in sc_.events('solve-structure'):
            if l2rules.in_modules(e_, mods):
                where, cons, f_, ln = l2rules.ev_where(repo, e_, mods)
                # what the code looked at before it chose the hint: a comparison of the micro matrix with its (conjugate) transpose
                mroot = ARR._view_root(e_['matrix'])[0]
                guard = None
                for t_ in sc_.events('tolerance-test'):
                    for x_, y_ in ((t_['a'], t_['b']), (t_['b'], t_['a'])):
                        # y is x transposed (an odd number of 2-D transpositions more), with or without a conjugation
                        def chain_(v_):
                            par, tr, n_ = 0, 0, 0
                            while isinstance(v_, Arr) and v_.parents and n_ < 12 and v_ is not x_ and v_.origin in ('conj', 'transpose', 'copy'):
                                par ^= (v_.origin == 'conj')
                                tr ^= (v_.origin == 'transpose' and v_.ndim == 2)
                                v_, n_ = v_.parents[0], n_ + 1
                            return v_, par, tr
                        ry, py, ty = chain_(y_)
                        if ry is x_ and ty == 1 and (x_ is e_['matrix'] or ARR._view_root(x_)[0] is mroot):
                            guard = ('hermitian' if py else 'symmetric', t_)
                if guard is None:
                    raise AnalysisError(f'{where}: a complex micro matrix is handed to the symmetric solver; the test that guards the hint is not one the analysis recognises')
                run.oblige('D4', (where, cons, 'structure hint'), False)
                if guard[0] == 'hermitian':
                    why = 'the hint is chosen after comparing the matrix with its CONJUGATE transpose: a complex Hermitian micro matrix is then solved as if it were complex symmetric (O(1) residual, no warning)'
                else:
                    why = ('the hint is chosen after a tolerance comparison with the transpose (np.allclose with its absolute atol): a complex Hermitian micro matrix whose entries are below the '
                           'tolerance passes it and is then solved as if it were complex symmetric -- a tolerance test does not make a matrix symmetric')
                run.add(Finding('C07', 'D4', where, cons, f'{e_["detail"]}: {why}', f_, ln))
    STRUCTURE_RULE[0] = structure_rule
    for which in ('als', 'mals'):
        seqs = {}
        for d, rep, solver in itertools.product(orders, reps, ('solve', 'lu')):
            if which == 'mals' and d < 2:
                continue
            variants = [(1e-12, None)] if which == 'als' else ([(1e-12, None), (0, None), (1e-12, 'rho'), (0, 'rho')] if (tier == 'thorough' or (d <= 3 and rep == 1)) else [(1e-12, None)])
            variants = [v_ + ('complex',) for v_ in variants]
            if d in (2, 3) and rep == 1 and solver == 'solve':
                # mixed dtypes (operator, guess, right-hand side): a real right-hand side under a complex Hermitian operator, a real operator with a complex guess
                variants += [(1e-12, None, ('complex', 'complex', 'real')), (1e-12, None, ('real', 'complex', 'real'))]
            for thr, mr, dts in variants:
                scen = f'{which}(order={d}, repeats={rep}, solver={solver}' + (f', threshold={thr}, max_rank={"rho" if mr else "inf"}' if which == 'mals' else '') + \
                    (f', dtypes of operator/guess/right-hand side = {"/".join(dts)}' if dts != 'complex' else '') + ')'
                for ch, sc, res, exc in run_solver(repo, which, d, solver, rep, thr, mr, dtype=dts):
                    entry = f'{SLE}.{which}'
                    n_contr += l2rules.typing_obligations(run, 'C07', 'D1', repo, sc, scen, mods)
                    structure_rule(sc)
                    l2rules.relative_cut_obligations(run, 'C07', 'D5', repo, sc, scen, mods)
                    # D2 stale reads (decided first: what a stale operand leads to later on the path -- a shape error, an ill-typed contraction -- is its consequence)
                    st = sc.events('stale-read') + sc.events('use-after-destroy')
                    run.oblige('D2', (entry, scen, 'stale'), not st)
                    for e in st:
                        where, cons, f, ln = l2rules.ev_where(repo, e)
                        run.add(Finding('C07', 'D2', where, cons, f'{scen}: {e["detail"]}', f, ln, {'scenario': scen}))
                    if exc is not None:
                        if not st:
                            run.oblige('D2' if 'None' in exc.message else 'D1', (entry, scen, 'raises'), False)
                            l2rules.raised_finding(run, 'C07', 'D2' if 'None' in exc.message else 'D1', repo, entry, scen, exc)
                        continue
                    run.oblige('D2', (entry, scen, 'no exception'), True)
                    # D5 invariant + ranks
                    ok = l2rules.invariant_obligation(run, 'C07', 'D5', repo, sc, res, entry, scen)
                    x = sc.inputs['x']
                    dims_ok = ok and all(a == b for a, b in zip(res._attrs['row_dims'], sc.inputs['b']._attrs['row_dims'])) and res._attrs['order'] == d
                    run.oblige('D5', (entry, scen, 'dims'), dims_ok)
                    if ok and not dims_ok:
                        fn = repo.fn(entry)
                        run.add(Finding('C07', 'D5', fn.where, 'result dimensions', f'{scen}: result row_dims {res._attrs["row_dims"]} differ from those of the right-hand side', fn.file, fn.node.lineno))
                    if ok:
                        for k in range(1, d):
                            new, old = res._attrs['ranks'][k], sc.old_ranks[k]
                            if which == 'als':
                                # ALS is a fixed-rank method: a bond changes only through the shape of an economic decomposition, never through a test on the data
                                masked = sorted(a_ for a_ in (new.atoms() if hasattr(new, 'atoms') else ()) if str(sc.ctx.atoms.origin.get(a_) or '').startswith(('boolean mask', 'np.where')))
                                run.oblige('D5', (entry, scen, f'rank{k}', 'fixed rank'), not masked)
                                if masked:
                                    fn = repo.fn(entry)
                                    run.add(Finding('C07', 'D5', fn.where, 'ALS rank selection', f'{scen}: the rank of bond {k} of the result is the number of entries that pass a data-dependent test '
                                                    f'({new}): ALS has no truncation -- a direction of a maximal-rank guess that fails the test is lost and the sweep is no longer exact', fn.file, fn.node.lineno))
                                    continue
                                good = l2rules.rank_le(sc, new, old)
                                run.oblige('D5', (entry, scen, f'rank{k}'), good)
                                if not good:
                                    fn = repo.fn(entry)
                                    run.add(Finding('C07', 'D5', fn.where, 'ALS rank bound', f'{scen}: bond {k} has rank {new} which is not bounded by the rank {old} of the guess', fn.file, fn.node.lineno))
                            elif mr:
                                good = l2rules.rank_le(sc, new, sc.rho)
                                run.oblige('D5', (entry, scen, f'rank{k}'), good)
                                if not good:
                                    fn = repo.fn(entry)
                                    run.add(Finding('C07', 'D5', fn.where, 'MALS rank cap', f'{scen}: bond {k} has rank {new} which is not bounded by max_rank', fn.file, fn.node.lineno))
                    # D1 layout of the returned cores (ket mode index of the right site, plain bonds)
                    if ok:
                        bad = []
                        for k, c in enumerate(res._attrs['cores']):
                            for g in (c.legs[1],):
                                for l in g:
                                    l = l.resolve()
                                    if l.kind == 'M' and (l.key != k or l.var != +1):
                                        bad.append(f'core {k} carries mode index {l}')
                            for g in (c.legs[0], c.legs[3]):
                                for l in g:
                                    l = l.resolve()
                                    if l.kind == 'R' and l.conj and l.key[0] != 'B':
                                        bad.append(f'core {k} carries a conjugated bond index {l}')
                                    if l.kind == 'M':
                                        bad.append(f'core {k} carries mode index {l} on a rank axis')
                        run.oblige('D1', (entry, scen, 'layout'), not bad)
                        if bad:
                            fn = repo.fn(entry)
                            run.add(Finding('C07', 'D1', fn.where, 'layout of the returned cores', f'{scen}: ' + '; '.join(bad[:3]), fn.file, fn.node.lineno))
                    # D3 sweep coverage
                    seq = solved_sites(sc)
                    if which == 'als':
                        want = (list(range(0, d - 1)) + list(range(d - 1, -1, -1))) * rep
                    else:
                        want = (list(range(0, d - 2)) + list(range(d - 2, -1, -1))) * rep
                    # (solving one and the same micro system twice in a row -- core 0 at the end of a backward and at the start of the next forward half sweep -- is
                    # idempotent: consecutive repetitions of a site count once)
                    def collapse(xs):
                        out = []
                        for x_ in xs:
                            if not out or out[-1] != x_:
                                out.append(x_)
                        return out
                    good = collapse(seq) == collapse(want)
                    run.oblige('D3', (entry, scen, 'sequence'), good, sample={'rule': 'D3', 'scenario': scen, 'solved_core_sequence': seq} if d == 3 and rep == 1 and solver == 'solve' and thr == 1e-12 and not mr else None)
                    if not good:
                        fn = repo.fn(entry)
                        run.add(Finding('C07', 'D3', fn.where, 'sweep order', f'{scen}: micro systems were solved for cores {seq}, expected {want}', fn.file, fn.node.lineno))
                    if ok and d > 1:
                        iso = {k: l2rules.core_iso(res._attrs['cores'][k], 'RO') for k in range(1, d)}
                        notro = [k for k, v_ in iso.items() if v_ is False]
                        if not notro and any(v_ is None for v_ in iso.values()):
                            raise AnalysisError(f'{scen}: right-orthonormality of cores {[k for k, v_ in iso.items() if v_ is None]} of the result can neither be proved nor refuted')
                        run.oblige('D3', (entry, scen, 'frame'), not notro)
                        if notro:
                            fn = repo.fn(entry)
                            run.add(Finding('C07', 'D3', fn.where, 'right-orthonormal frame at return', f'{scen}: cores {notro} of the result are not the orthonormal factor of an RQ/SVD decomposition', fn.file, fn.node.lineno))
                    # D4 collect system signature
                    sig = []
                    for e in sc.events('solve'):
                        sig.append((tuple(map(str, e['matrix'].shape)), str(e['matrix'].legs), str(e['rhs'].legs), e.get('trans', 0)))
                    seqs[(d, rep, thr, mr, solver, tuple(ch))] = sig
        # D4 siblings
        for key, sig in seqs.items():
            d, rep, thr, mr, solver, ch = key
            if solver != 'lu':
                continue
            other = seqs.get((d, rep, thr, mr, 'solve', ch))
            if other is None:
                continue
            # bond uids differ between runs: compare shapes, structure and trans
            def norm(sg):
                import re
                return [(a, re.sub(r'#\d+', '#', b), re.sub(r'#\d+', '#', c), t) for a, b, c, t in sg]
            good = norm(sig) == norm(other) and all(t == 0 for _, _, _, t in sig)
            scen = f'{which}(order={d}, repeats={rep})'
            run.oblige('D4', (which, d, rep, str(thr), str(mr)), good)
            if not good:
                fn = repo.fn(f'{SLE}.__update_core_{which}')
                run.add(Finding('C07', 'D4', fn.where, 'lu vs solve', f'{scen}: solver=\'lu\' does not solve the same sequence of micro systems as solver=\'solve\' '
                                f'(trans flags {[t for *_, t in sig]}, {len(sig)} vs {len(other)} systems)', fn.file, fn.node.lineno))
    # D6 frame (Layer 1)
    an = own.analyse(repo)
    ff, obl = p_c06.frame_findings(repo, an, prop='C07', only={f'{SLE}.als', f'{SLE}.mals'})
    for o in obl:
        run.oblige('D6', (o['function'], o['tt_argument'], o['rule']), o['verdict'] == 'held')
    for f in ff:
        f.rule = 'D6'
        run.add(f)
    run.analysed = {'module': SLE, 'contractions_typed': n_contr, 'functions': sorted(q for q in repo.fns if q.startswith(SLE + '.'))}
    run.floor('typed contractions in solvers/sle.py', n_contr, 200)
    controls(run, repo)
    return run


def controls(run, repo):
    """positive controls on synthetic code (controls/l2): the typing and typestate rules must fire"""
    from .core import Repo, VERIF
    import os
    crepo = Repo(os.path.join(VERIF, 'controls', 'l2'))

    def body(which):
        def b(sc):
            A = sc.tt('A', 3, 'op'); x = sc.tt('x', 3, 'vec')
            return sc.call(f'solvers.ctl.{which}', A, x)
        return b
    res = l2.explore(crepo, body('env_missing_conj'))
    run.control('D1: environment built without conjugating the bra factor (controls/l2 env_missing_conj)', any(sc.events('contract-type-error') for _, sc, _, _ in res))
    res = l2.explore(crepo, body('env_wrong_axis'))
    run.control('D1: ket contracted with the operator row (controls/l2 env_wrong_axis)', any(sc.events('contract-type-error') for _, sc, _, _ in res))
    res = l2.explore(crepo, body('env_good'))
    run.control('negative control: correctly typed environment is silent (controls/l2 env_good)', not any(sc.events('contract-type-error') for _, sc, _, _ in res))
    res = l2.explore(crepo, body('stale_env'))
    run.control('D2: environment used after its core was replaced (controls/l2 stale_env)', any(sc.events('stale-read') for _, sc, _, _ in res))
    res = l2.explore(crepo, body('unset_env'))
    run.control('D2: environment slot read before it is written (controls/l2 unset_env)', any(exc is not None and 'None' in exc.message for _, _, _, exc in res))
