"""C18  Tensor-based EDMD (AMUSEt) (DESIGN.md 3/C18): independence of the index-set pairs, ordering and pairing of eigenvalues / eigentensors, structure of the
eigentensor core, metadata.  data_driven/tedmd.py interpreted over the Layer-2 array domain."""
import itertools
import math

from . import arr as A
from . import l2, l2rules
from .arr import Arr, scalar
from .core import AnalysisError, Finding, Run, norm_text
from .shape import sz_eq

MOD = 'data_driven.tedmd'


class BasisFn:
    def __init__(self, mode, k):
        self.mode, self.k = mode, k

    def __call__(self, x):
        if isinstance(x, Arr) and x.ndim == 2 and 'role' in x.tags:
            # a basis function is a map R^d -> R: calling it on the d x m data matrix equals the snapshot-wise evaluation only for functions written column-wise
            A.CTX.event('whole-matrix-call', array=x, detail=f'a basis function is called on the whole data matrix `{x.tags["role"]}` instead of snapshot by snapshot: for a function '
                        'defined at a point (t -> sum(t**2), t -> max(t[0], 0)) the result is one number (or a wrong array) that is broadcast over all snapshots')
            return Arr((x.shape[1],), None, 'real', None, {'basis': ('whole-matrix',), 'point': x, 'vectorised': True}, 'basis-value')
        return Arr((), [], 'real', None, {'basis': (self.mode, self.k), 'point': x}, 'basis-value')


def direct_ancestors(core):
    """ancestors of `core` without looking behind the results of a dense eigen-solve (the reduced matrix has its own factors)"""
    seen, todo = {}, [core]
    while todo:
        a = todo.pop()
        if id(a) in seen:
            continue
        seen[id(a)] = a
        if a.origin in ('eig.v', 'eig.w', 'eigh.v', 'eigh.w'):
            continue
        todo.extend(a.parents)
        todo.extend(a.buf.inputs)
    return seen


def reciprocal_sources(core):
    """the distinct arrays whose reciprocal enters the product that forms `core` (not counting the inside of the reduced matrix)"""
    return [a for a in direct_ancestors(core).values() if 'reciprocal_of' in a.tags]


def check(repo, tier):
    run = Run('C18', tier, repo, 'data_driven/tedmd.py interpreted from source over symbolic data (symbolic snapshot count, ranks, index-set sizes; concrete numbers of modes / basis functions / index pairs).')
    run.rule('D1', 'index-set pairs are treated independently: the k-th eigentensor is an object of its own, its last core is computed from the k-th pair of index sets only, and the shared decomposition psi is not modified')
    run.rule('D2', 'eigenvalues are ordered by |lambda - 1| of the raw (complex) eigenvalues of the reduced matrix; eigenvalues and eigenvectors are selected by the same index; the last core of an eigentensor is '
             'U diag(1/s) W with exactly one inverse of the singular values of psi_x; returned tensors satisfy the class invariant (row_dims updated)')
    run.rule('D3', 'the relative cut s / s[0] > threshold is used for the HOSVD and for the reduced matrix')
    run.trusted = ['NumPy/SciPy transfer functions']
    run.bounds = ('one to three modes' if tier == 'thorough' else 'two modes') + ' with 2-3 basis functions, ' + ('one to three' if tier == 'thorough' else 'one or two') + ' index-set pairs, all (ef_tf, st_tf) combinations; HOSVD and HOCUR variants (HOCUR itself replaced by a symbolic tensor train)'

    def F(qual, rule, what, msg):
        fn = repo.fn(qual)
        return Finding('C18', rule, fn.where, what, msg, fn.file, fn.node.lineno)
    mods = {MOD, 'utils'}
    big = tier == 'thorough'
    rm_cuts = {}          # (variant, HOSVD threshold) -> cut values used on the x-restricted last core (sibling cross-check below)
    grid = [g_ + (False,) for g_ in itertools.product(('amuset_hosvd', 'amuset_hocur'), (1, 2, 3) if big else (1, 2), ((False, False), (True, False), (False, True), (True, True)),
                                                        (1, 2, 3) if big else (2,), (1e-2, 0.0, 1e-5))]
    # one index array object used in several pairs (one set x with several time-lagged sets y; forward / backward pairs)
    grid += [('amuset_hosvd', 2, (False, False), 2, 1e-2, True), ('amuset_hocur', 2, (False, False), 2, 1e-2, True)]
    for variant, npairs, (ef, st), nmodes, thr, shared in grid:
        if variant == 'amuset_hocur' and (ef or st or thr != 1e-2):
            continue
        if thr != 1e-2 and (npairs > 1 or ef or st or (not big and thr == 1e-5)):
            continue
        entry = f'{MOD}.{variant}'
        scen = f'{variant}({npairs} index-set pair(s)' + (f', ef_tf={ef}, st_tf={st}' if variant == 'amuset_hosvd' else '') + (f', {nmodes} modes' if nmodes != 2 else '') + (f', threshold={thr}' if thr != 1e-2 else '') + \
            (', the same index array object as x of both pairs and as y of the second' if shared else '') + ')'
        intercept = {}
        holder = {}
        if variant == 'amuset_hocur':
            def fake_hocur(it, data, basis_list, ranks, repeats=1, multiplier=10, progress=True, string=None):
                sc = holder['sc']
                m = data.shape[1]
                rows = [len(b) for b in basis_list] + [m]
                psi = sc.tt('psi', len(rows), 'vec', row=rows)
                holder['psi'] = psi
                return psi
            intercept['data_driven.transform.hocur'] = fake_hocur

        def body(sc):
            holder['sc'] = sc
            M = sc.atom('M')
            data = Arr([sc.atom('dd'), M], None, 'real', None, {'role': 'data'}, 'data_matrix')
            basis = [[BasisFn(i, k) for k in range(3 - (i % 2))] for i in range(nmodes)]
            xs = [Arr([sc.atom(f'mx{k}')], None, 'int', None, {'role': ('x_indices', k)}, f'x_indices[{k}]') for k in range(npairs)]
            ys = [Arr([xs[k].shape[0]], None, 'int', None, {'role': ('y_indices', k)}, f'y_indices[{k}]') for k in range(npairs)]
            if shared:
                xs = [xs[0], xs[0]]
                ys = [ys[0], xs[0]]
            sc.inputs = (xs, ys)
            xa, ya = (xs, ys) if npairs > 1 else (xs[0], ys[0])
            if variant == 'amuset_hosvd':
                return sc.call(entry, data, xa, ya, basis, threshold=thr, max_rank=sc.atom('rho', free=True), ef_tf=ef, st_tf=st)
            return sc.call(entry, data, xa, ya, basis, max_rank=20)
        for ch, sc, res, exc in l2.explore(repo, body, typed=False, intercept=intercept):
            if exc is not None:
                run.oblige('D2', (entry, scen), False)
                l2rules.raised_finding(run, 'C18', 'D2', repo, entry, scen, exc)
                continue
            l2rules.stale_obligation(run, 'C18', 'D1', repo, sc, entry, scen, mods)
            l2rules.relative_cut_obligations(run, 'C18', 'D3', repo, sc, scen, mods, expected=({thr} if variant == 'amuset_hosvd' else None), only_fns={'truncated_svd', 'amuset_hosvd'})
            l2rules.whole_matrix_call_obligations(run, 'C18', 'D2', repo, sc, scen, mods | {'data_driven.transform'})
            for e in sc.events('where'):
                ex_ = e['cond'].tags.get('expr') if isinstance(e.get('cond'), Arr) else None
                if ex_ and ex_[0] in ('gt', 'ge') and e.get('fn') is not None and e['fn'].mod == MOD and e['fn'].name != variant and isinstance(ex_[1][1], (int, float)):
                    rm_cuts.setdefault((variant, thr), set()).add(float(ex_[1][1]))
            # x[k] and y[k] are paired element by element: neither set is re-ordered on its own
            for e in sc.events('reorder'):
                if isinstance(e.get('array'), Arr) and isinstance(e['array'].tags.get('role'), tuple) and l2rules.in_modules(e, mods):
                    where, cons, f_, ln = l2rules.ev_where(repo, e, mods)
                    run.oblige('D1', (where, cons, 'pairing'), False)
                    run.add(Finding('C18', 'D1', where, cons, f'{scen}: the index set {e["array"].tags["role"]} is sorted on its own: snapshot x[j] is no longer paired with y[j] unless y is an '
                                    f'increasing function of x', f_, ln))
            # the caller's index sets select snapshots as NumPy indexing does (an entry -1 is the last snapshot)
            for e in sc.events('index-mode'):
                if e['mode'] == 'clip' and l2rules.in_modules(e, mods):
                    where, cons, f_, ln = l2rules.ev_where(repo, e, mods)
                    run.oblige('D1', (where, cons, 'index mode'), False)
                    run.add(Finding('C18', 'D1', where, cons, f'{scen}: {e["detail"]}: an index set that counts from the end selects snapshot 0 repeatedly', f_, ln))
            roots_ = [c_ for t_ in (res[1] if isinstance(res[1], list) else [res[1]]) if hasattr(t_, '_attrs') for c_ in t_._attrs.get('cores', [])]
            cr = l2rules.cut_respected(sc, roots_)
            run.oblige('D3', (entry, scen, 'cut respected'), not cr)
            if cr:
                run.add(F(entry, 'D3', 'relative cut overridden', f'{scen}: ' + '; '.join(cr[:2])))
            evs, ets = res[0], res[1]
            if npairs == 1:
                evs, ets = [evs], [ets]
            xs, ys = sc.inputs
            bad = []
            if not (isinstance(ets, list) and len(ets) == npairs and isinstance(evs, list) and len(evs) == npairs):
                run.oblige('D1', (entry, scen, 'count'), False)
                run.add(F(entry, 'D1', 'number of results', f'{scen}: {len(ets) if isinstance(ets, list) else "?"} eigentensors / {len(evs) if isinstance(evs, list) else "?"} eigenvalue arrays for {npairs} pairs'))
                continue
            objs = ets + ([res[-1]] if st else [])
            if len({id(t) for t in objs}) != len(objs):
                bad.append('two returned tensor trains are the same object')
            ninv_of = {}
            from . import mx as _mx
            eigs_ = [e_ for e_ in sc.events('eig') if e_.get('fn') is not None and e_['fn'].mod == MOD]
            left_inv = set()          # pairs whose reduced matrix carries its one S^-1 at the left end (then the eigentensor core is U W, without a further inverse)
            if len(eigs_) == npairs:
                for k, e_ in enumerate(eigs_):
                    mm = _mx.canon(e_['matrix'].tags['mx']) if 'mx' in e_['matrix'].tags else ()
                    if len(mm) >= 3 and [i_ for i_, f_ in enumerate(mm) if f_[0] == 'Sinv'] == [0]:
                        left_inv.add(k)
            for k, t in enumerate(ets):
                if not l2rules.invariant_obligation(run, 'C18', 'D2', repo, sc, t, entry, scen, f'eigentensor {k}', chain=False):
                    continue
                last = t._attrs['cores'][-1]
                anc = A.ancestors([last])
                roles = {a.tags.get('role') for a in anc.values() if isinstance(a.tags.get('role'), tuple)}
                want = {xs[k].tags['role'], ys[k].tags['role']}          # (one array object may serve in several pairs)
                if roles != want:
                    bad.append(f'the last core of eigentensor {k} depends on the index sets {sorted(roles)} instead of {sorted(want)}')
                # structure: U diag(1/s) W
                recs = reciprocal_sources(last)
                svals = [r for r in recs if l2rules._is_singular_values(r.tags['reciprocal_of'])]
                # (the inverse may also be written as a division by s: count the diag(1/s) factors of the matrix expression of the core)
                from . import mx
                mlast = mx.canon(A.unfolding_mx(last, last.shape[0])) if last.ndim >= 2 else ()
                # the relative cut is a selection of singular triplets: where a cut was computed from the singular values of a decomposition, every factor of that
                # decomposition that ends up in the eigentensor carries the selector (an uncut U or 1/s next to a cut -- or zero-filled -- partner keeps the discarded directions)
                cut_uids = set()
                for e_ in sc.events('where'):
                    todo2, seen2 = [e_.get('cond')], set()
                    while todo2:          # the singular values that are compared: the nearest decomposition output on every path (not the decompositions behind it)
                        a_ = todo2.pop()
                        if not isinstance(a_, Arr) or id(a_) in seen2:
                            continue
                        seen2.add(id(a_))
                        pv_ = a_.tags.get('prov')
                        if isinstance(pv_, dict) and 'svd' in pv_:
                            if pv_.get('role') == 's':
                                cut_uids.add(pv_['svd'])
                            continue
                        todo2.extend(a_.parents or ())
                        ex_ = a_.tags.get('expr')
                        if ex_:
                            todo2.extend(o_ for o_ in ex_[1] if isinstance(o_, Arr))
                uncut = [f_ for f_ in mlast if f_[0] in ('U', 'S', 'Sinv', 'V') and f_[1] in cut_uids and f_[3] is None]
                if uncut:
                    bad.append(f'the last core of eigentensor {k} contains the uncut factor(s) {mx.show(tuple(uncut))} of a decomposition whose singular values were cut by the relative threshold')
                # (same rule on the def-use graph, for cores without a matrix expression: a raw factor of a cut decomposition is consumed by something other than the selection)
                raw_used = set()
                seen_, todo_ = {}, [last]
                while todo_:          # value ancestors only: an index array (the selector itself) is not followed
                    a_ = todo_.pop()
                    if id(a_) in seen_ or not isinstance(a_, Arr):
                        continue
                    seen_[id(a_)] = a_
                    if a_.origin in ('eig.v', 'eig.w', 'eigh.v', 'eigh.w'):
                        continue
                    todo_.extend(list(a_.parents[:1]) if a_.origin == 'getitem' else list(a_.parents or ()))
                    todo_.extend(a_.buf.inputs or ())
                for a_ in seen_.values():
                    for p_ in (list(a_.parents[:1]) if a_.origin == 'getitem' else list(a_.parents or ())) + list(a_.buf.inputs or ()):
                        pv_ = p_.tags.get('prov') if isinstance(p_, Arr) else None
                        if isinstance(pv_, dict) and pv_.get('svd') in cut_uids and pv_.get('role') in ('u', 's') and 'sel' not in pv_ and a_.origin != 'getitem' and p_.origin.startswith('svd'):
                            raw_used.add(pv_['role'])
                if raw_used:
                    bad.append(f'the last core of eigentensor {k} is computed from the uncut factor(s) {sorted(raw_used)} of a decomposition whose singular values were cut by the relative threshold '
                               f'(the discarded directions stay in the eigentensor, with their tiny singular values inverted)')
                n_inv = max(len(svals), sum(1 for f_ in mlast if f_[0] == 'Sinv'))
                ninv_of[k] = n_inv
                if n_inv == 0 and k in left_inv:
                    pass
                elif n_inv != 1:
                    if n_inv == 0 and any(f_[0] == 'src' for f_ in mlast) and not any(f_[0] == 'S' for f_ in mlast):
                        raise AnalysisError(f'{scen}: the way the inverse singular values enter the last core of eigentensor {k} is not recognised ({mx.show(mlast)})')
                    bad.append(f'the last core of eigentensor {k} contains {n_inv} inverse(s) of the singular values instead of exactly one')
                elif not svals:
                    pass
                else:
                    uid = svals[0].tags['reciprocal_of'].tags['prov']['svd']
                    has_u = any(isinstance(a.tags.get('prov'), dict) and a.tags['prov'].get('svd') == uid and a.tags['prov'].get('role') == 'u' for a in anc.values())
                    if not has_u:
                        bad.append(f'the last core of eigentensor {k} does not contain the U factor of the decomposition whose singular values are inverted')
                # eigenvalue/eigenvector pairing: same selector on the eigen-index
                ev = evs[k]
                if isinstance(ev, Arr) and ev.ndim == 1:
                    lw, lv = ev.legs[0], last.legs[1]
                    if not (len(lw) == len(lv) and all(p_.same(q_) for p_, q_ in zip(lw, lv))):
                        bad.append(f'eigenvalues {k} are indexed by {list(lw)} but the eigentensor columns by {list(lv)}')
                else:
                    bad.append(f'eigenvalue array {k} is not a vector')
            # convention of the reduced matrix and of the eigentensor core agree: with M = V Y^T U S^-1 (inverse singular values on the right) the eigentensor is
            # U S^-1 W; the similar matrix S^-1 V Y^T U has the same eigenvalues but eigenvectors S^-1 W, so U S^-1 times them carries the inverse twice
            if len(eigs_) == npairs:
                for k, e_ in enumerate(eigs_):
                    mm = _mx.canon(e_['matrix'].tags['mx']) if 'mx' in e_['matrix'].tags else ()
                    inv_pos = [i_ for i_, f_ in enumerate(mm) if f_[0] == 'Sinv']
                    if len(inv_pos) != 1 or len(mm) < 3 or k not in ninv_of:
                        continue
                    left = inv_pos[0] == 0
                    right = inv_pos[0] == len(mm) - 1
                    if not (left or right):
                        continue
                    okc = (right and ninv_of[k] == 1) or (left and ninv_of[k] == 0)
                    run.oblige('D2', (entry, scen, k, 'convention'), okc)
                    if not okc and left:
                        bad.append(f'the reduced matrix of pair {k} is  {_mx.show(mm)}  (inverse singular values on the left): its eigenvectors are S^-1 W, and the eigentensor core U S^-1 (S^-1 W) '
                                   f'carries the inverse singular values twice; the eigenvalues are unaffected')
            # shared decomposition untouched: every eigentensor shares no core-list with another and psi's last core is the decomposed one
            run.oblige('D1', (entry, scen), not bad, sample={'rule': 'D1', 'scenario': scen, 'verdict': 'held' if not bad else 'VIOLATED'})
            if bad:
                run.add(F(entry, 'D1' if any('index sets' in b or 'same object' in b for b in bad) else 'D2', 'eigentensors', f'{scen}: ' + '; '.join(sorted(set(bad))[:3])))
            # D2 ordering key: argsort of |raw eigenvalues - 1|
            bad = []
            for e in sc.ctx.events:
                pass
            keys = []
            for a_ in list(A.ancestors([t._attrs['cores'][-1] for t in ets]).values()):
                if a_.origin == 'argsort' and a_.parents:
                    keys.append(a_.parents[0])
            if not keys:
                bad.append('the eigenpairs are not re-ordered by an argsort')
            for key in keys:
                src = key.tags.get('abs_of')
                ex = src.tags.get('expr') if isinstance(src, Arr) else None
                okk = bool(ex and ex[0] == 'sub' and isinstance(ex[1][0], Arr) and ex[1][0].origin in ('eig.w',) and ex[1][1] == 1)
                if not okk and not (ex and ex[0] in ('sub', 'add') and isinstance(ex[1][0], Arr)):
                    # not of the form |something -/+ constant|: an equivalent way of writing the distance (np.hypot, sqrt of squares ...) cannot be told from a wrong one
                    raise AnalysisError(f'{scen}: the sort key of the eigenpairs is computed in a way the analysis does not recognise')
                if not okk:
                    bad.append('the sort key is not |lambda - 1| of the raw eigenvalues of the reduced matrix' + (f' (it is computed from {ex[1][0].origin})' if ex and isinstance(ex[1][0], Arr) else ''))
            run.oblige('D2', (entry, scen, 'order'), not bad)
            if bad:
                run.add(F(entry, 'D2', 'ordering by distance to 1', f'{scen}: ' + '; '.join(sorted(set(bad))[:2])))
    # D3 sibling cross-check: the two drivers hand the x-/y-restricted last core to one shared routine; the cut it applies to the singular values of the x-part is the
    # same number whichever driver calls it and whatever threshold the HOSVD used ("matrix EDMD with the same relative cut" is one reference for both)
    allc = set().union(*rm_cuts.values()) if rm_cuts else set()
    if rm_cuts and {v_ for v_, _t in rm_cuts} == {'amuset_hosvd', 'amuset_hocur'}:
        run.oblige('D3', ('reduced-matrix cut', 'siblings agree'), len(allc) == 1)
        if len(allc) > 1:
            per = {f'{v_}(threshold={t_})': sorted(c_) for (v_, t_), c_ in sorted(rm_cuts.items())}
            run.add(F(f'{MOD}.amuset_hosvd', 'D3', 'cut of the reduced matrix differs between the drivers', f'the singular values of the x-restricted last core are cut at {per}: the HOSVD and HOCUR '
                      f'drivers (and calls with different HOSVD thresholds) no longer use one and the same relative cut for the reduced matrix'))
    l2rules.frame_obligations(run, 'C18', 'D1', repo, [f'{MOD}.amuset_hosvd', f'{MOD}.amuset_hocur'])
    from . import own, p_c06
    an = own.analyse(repo)
    fe, ex = p_c06.rule_e(repo, an, prop='C18')
    for r in ex:
        if r['function'].startswith(MOD + '.'):
            run.oblige('D1', ('R-e', r['function'], r['append']), r['verdict'] == 'held')
    for f in fe:
        if f.where.startswith(MOD + '::'):
            f.rule = 'D1'
            run.add(f)
    # (results of one call are not carried into the next: no module-level state, no mutable default that is filled or handed out)
    ff, _nf = p_c06.rule_f(repo, prop='C18')
    ff = [f for f in ff if f.where.split('::')[0] == MOD]
    run.oblige('D1', ('R-f', MOD), not ff)
    for f in ff:
        f.rule = 'D1'
        run.add(f)
    run.floor('obligations decided', run.obligations, 25)
    return run
