"""Layer 2 array domain (DESIGN.md 2.2): symbolic ndarrays with shapes, tensor legs, dtype class, buffer identity,
orthonormality / provenance facts, and a log of events.  `FakeNumpy`, `FakeLinalg` ... are the transfer functions that
replace numpy / scipy when repository code is interpreted (ttsa.interp).  Nothing numerical is computed.

Leg typing (the oracle is plain multilinear algebra, not repository internals):
  * a rank leg R(tensor, bond) contracts only with the same bond with the same conjugation flag;
  * a mode leg of site k has a variance: +1 for a vector index and for an operator ROW index, -1 for an operator COLUMN
    index; complex conjugation flips it; two mode legs contract only if they belong to the same site and have opposite
    variance (ket with operator column, conjugated bra with operator row, bra with ket);
  * identity matrices (np.eye) carry polymorphic legs that take the identity of whatever they are contracted with.
"""
import itertools
import math

from .core import AnalysisError
from .interp import Raised, UnknownTruth
from .shape import Atoms, Size, simp, sz_eq, sz_min, sz_prod


def value_error(msg):
    return Raised('ValueError', msg)


# ------------------------------------------------------------------------------------------------ context
class Ctx:
    """per-scenario state: size atoms, event log, counters"""

    def __init__(self):
        self.atoms = Atoms()
        self.events = []
        self.uid = itertools.count(1)
        self.interp = None
        self.typed = True
        self.sub_bonds = {}
        self.cur_operands = ()
        self.core_tokens = {}     # id(arr) -> (tt instance, slot) for arrays that are / were stored in a core list
        self.dead = {}            # id(arr) -> (tt instance, slot, where it was replaced)
        self.keep = []
        self.env_tokens = {}      # id(arr) -> (list id, index) for arrays stored in a slot list that is not a core list

    def sub_bond(self, leg, selkey, size):
        """the bond obtained by restricting bond `leg` with selector `selkey`: u[:, sel], s[sel], v[sel, :] of one decomposition share it"""
        leg = leg.resolve()
        k = (leg.kind, leg.key, leg.conj, selkey)
        if k not in self.sub_bonds:
            self.sub_bonds[k] = ('B', self.new_uid()) if leg.kind == 'R' else self.new_uid()
        if leg.kind == 'R':
            return Leg('R', self.sub_bonds[k], size, 0, leg.conj, 'sub-bond')
        return Leg('X', self.sub_bonds[k], size, origin='sub-index')

    def event(self, kind, **kw):
        kw['kind'] = kind
        if self.interp is not None:
            kw.setdefault('where', self.interp.where())
            n = getattr(self.interp, 'call_node', None) or self.interp.cur_node()
            kw.setdefault('node', n)
            kw.setdefault('fn', self.interp.cur_fn())
            kw.setdefault('callers', self.interp.callers())
            kw.setdefault('path', self.interp.call_path())
        self.events.append(kw)
        return kw

    def new_uid(self):
        return next(self.uid)


CTX = None


def set_ctx(c):
    global CTX
    CTX = c
    return c


# ------------------------------------------------------------------------------------------------ legs
class Cell:
    """binding of a polymorphic identity leg"""
    __slots__ = ('binding', 'uid')

    def __init__(self, uid):
        self.binding, self.uid = None, uid


class Leg:
    __slots__ = ('kind', 'key', 'var', 'conj', 'size', 'origin', 'cell', 'flip', 'side', 'parent')

    def __init__(self, kind, key, size, var=0, conj=False, origin='', cell=None, flip=False, side=0, parent=None):
        self.kind, self.key, self.size, self.var, self.conj, self.origin, self.cell, self.flip, self.side = kind, key, size, var, conj, origin, cell, flip, side
        self.parent = parent       # for kind 'P' (a factor of a split index): (parent leg, part number)

    def ident(self):
        a = self.resolve()
        return (a.kind, a.key, a.var, a.conj)

    def split(self, first):
        """split this index (size F) into a leading factor of size `first` and the remaining factor F/first (C order)"""
        rest = Size.of(self.size, CTX.atoms).divide(first)
        if rest is None:
            return None
        rest = simp(rest)
        me = self.resolve()
        pk = (me.kind, me.key)          # (the parts of an index and of its conjugate have the same key and differ in variance / conjugation, like the index itself)
        a = Leg('P', (pk, str(first), 0), first, me.var, me.conj, origin=f'{self}/0', parent=(self, 0))
        b = Leg('P', (pk, str(first), 1), rest, me.var, me.conj, origin=f'{self}/1', parent=(self, 1))
        return a, b

    def flipped(self):
        """the same index after complex conjugation of the tensor"""
        if self.kind == 'R':
            return Leg('R', self.key, self.size, 0, not self.conj, self.origin)
        if self.kind == 'M':
            return Leg('M', self.key, self.size, -self.var, self.conj, self.origin)
        if self.kind == 'I':
            return Leg('I', self.key, self.size, 0, False, self.origin, self.cell, not self.flip, self.side)
        if self.kind == 'P':
            fp = self.parent[0].flipped()
            fr = fp.resolve()
            return Leg('P', self.key, self.size, fr.var, fr.conj, self.origin, parent=(fp, self.parent[1]))
        return self

    def partner(self):
        """type of the index this one can be contracted with"""
        if self.kind == 'M':
            return Leg('M', self.key, self.size, -self.var, self.conj, self.origin)
        if self.kind == 'P':
            pp = self.parent[0].resolve().partner()
            return Leg('P', self.key, self.size, pp.var, pp.conj, self.origin, parent=(pp, self.parent[1]))
        return self

    def resolve(self):
        if self.kind == 'I' and self.cell.binding is not None:
            t = self.cell.binding
            if self.side:
                t = t.partner()
            if self.flip:
                t = t.flipped()
            return t
        return self

    def same(self, o):
        a, b = self.resolve(), o.resolve()
        if a.kind != b.kind:
            return False
        if a.kind == 'R':
            return a.key == b.key and a.conj == b.conj
        if a.kind == 'M':
            return a.key == b.key and a.var == b.var
        if a.kind == 'I':
            return a.cell is b.cell and a.flip == b.flip and a.side == b.side
        if a.kind == 'P':
            return a.key == b.key and a.var == b.var and a.conj == b.conj
        return a.key == b.key

    def __repr__(self):
        a = self.resolve()
        if a.kind == 'R':
            k = a.key
            s = f'R({k[0]},{k[1]})' if k[0] != 'B' else f'bond#{k[1]}'
            return s + ('^c' if a.conj else '')
        if a.kind == 'M':
            return f"{a.origin or 'mode'}[site {a.key}]{'(+)' if a.var > 0 else '(-)'}"
        if a.kind == 'I':
            return f'eye#{a.cell.uid}.{a.side}' + ("^c" if a.flip else '')
        if a.kind == 'P':
            return f'{a.parent[0]}|{a.parent[1]}'
        return f'?{a.key}'


def rank_leg(tt, bond, size, conj=False):
    return Leg('R', (tt, bond), size, 0, conj, tt)


def bond_leg(size):
    return Leg('R', ('B', CTX.new_uid()), size)


def mode_leg(site, size, var, origin):
    return Leg('M', site, size, var, False, origin)


def opaque_leg(size, origin=''):
    return Leg('X', CTX.new_uid(), size, origin=origin)


def is_one(s):
    return isinstance(s, int) and s == 1 or (isinstance(s, Size) and s.is_const() and s.const() == 1)


def can_contract(a, b):
    """None if the two legs may be contracted, else a reason string.  Binds polymorphic identity legs."""
    a, b = a.resolve(), b.resolve()
    if a.kind == 'I' or b.kind == 'I':
        if a.kind == 'I' and b.kind == 'I':
            return None
        i, o = (a, b) if a.kind == 'I' else (b, a)
        if o.kind == 'X':
            return None
        # the identity's axis must have the type that can be contracted with `o`; its other axis then carries o's own type on
        t = o.partner()
        if i.flip:
            t = t.flipped()
        if i.side:
            t = t.partner()
        i.cell.binding = t
        return None
    if a.kind == 'X' or b.kind == 'X':
        return None
    if a.kind != b.kind:
        return f'{a} is contracted with {b} (a rank index with a mode index)'
    if a.kind == 'R':
        if a.key != b.key:
            return f'different bonds are contracted: {a} with {b}'
        if a.conj != b.conj:
            return f'bond {a} is contracted with {b}: one side is complex-conjugated, the other is not'
        return None
    if a.kind == 'P':
        # parts of a split index: like the index they are parts of
        if a.key != b.key:
            return f'different parts of split indices are contracted: {a} with {b}'
        if a.key[0][0] == 'R':
            return None if a.conj == b.conj else f'bond part {a} is contracted with {b}: one side is complex-conjugated, the other is not'
        if a.key[0][0] == 'M' and a.var == b.var and a.var != 0:
            what = 'two un-conjugated vector/row indices' if a.var > 0 else 'two column/conjugated indices'
            return f'{what} are contracted: {a} with {b} (a conjugation is missing or sits on the wrong factor, or the operator is used transposed)'
        return None
    if a.key != b.key:
        return f'mode indices of different sites are contracted: {a} with {b}'
    if a.var == b.var:
        what = 'two un-conjugated vector/row indices' if a.var > 0 else 'two column/conjugated indices'
        return f'{what} are contracted: {a} with {b} (a conjugation is missing or sits on the wrong factor, or the operator is used transposed)'
    return None


def partner_type(l):
    """type of the index that `l` can be contracted with"""
    return l.resolve().partner()


def legs_conj(legs):
    return [tuple(x.flipped() for x in g) for g in legs]


def flat(legs):
    return [x for g in legs for x in g]


def ancestors(arrs):
    """all arrays the given ones were computed from (through operands and through stores into their buffers)"""
    seen, todo = {}, list(arrs)
    while todo:
        a = todo.pop()
        if id(a) in seen:
            continue
        seen[id(a)] = a
        todo.extend(a.parents)
        todo.extend(a.buf.inputs)
    return seen


# ------------------------------------------------------------------------------------------------ dtype
class DType:
    def __init__(self, cls):
        self.cls = cls          # 'real' | 'complex' | 'bool' | 'int'

    @property
    def kind(self):
        return {'real': 'f', 'complex': 'c', 'int': 'i', 'bool': 'b'}[self.cls]

    def __eq__(self, o):
        if isinstance(o, DType):
            return self.cls == o.cls
        if isinstance(o, str):
            if o.startswith('complex'):
                return self.cls == 'complex'
            if o.startswith('float'):
                return self.cls == 'real'
            return False
        if o is complex:
            return self.cls == 'complex'
        if o is float:
            return self.cls == 'real'
        return False

    def __ne__(self, o):
        return not self.__eq__(o)

    def __hash__(self):
        return hash(self.cls)

    def __repr__(self):
        return f'dtype({self.cls})'


def dtype_of(spec, default='real'):
    if spec is None:
        return default
    if isinstance(spec, DType):
        return spec.cls
    if spec is complex or (isinstance(spec, str) and spec.startswith('complex')):
        return 'complex'
    if spec is float or (isinstance(spec, str) and spec.startswith('float')):
        return 'real'
    if spec is int or (isinstance(spec, str) and spec.startswith('int')) or spec is IntP:
        return 'int'
    if spec is bool:
        return 'bool'
    if getattr(spec, '__name__', None) in ('float64', 'complex128', 'int64', 'int32'):
        return {'float64': 'real', 'complex128': 'complex', 'int64': 'int', 'int32': 'int'}[spec.__name__]
    if getattr(spec, '__name__', None) in ('float32', 'complex64', 'float16'):
        raise AnalysisError(f'single precision ({spec.__name__}) has no model: the domain does not track precision')
    if getattr(spec, '__name__', None) in ('_int', '_float'):    # the interpreter's shadowed builtins int / float
        return 'int' if spec.__name__ == '_int' else 'real'
    raise AnalysisError(f'dtype {spec!r} has no model')


class IntP:
    pass


def join_dtype(*ds):
    if 'complex' in ds:
        return 'complex'
    if 'real' in ds:
        return 'real'
    if 'int' in ds:
        return 'int'
    return ds[0] if ds else 'real'


class Buffer:
    __slots__ = ('uid', 'origin', 'writes', 'fn', 'owner', 'inputs')

    def __init__(self, origin):
        self.uid = CTX.new_uid()
        self.origin = origin
        self.writes = []
        self.inputs = []
        self.fn = CTX.interp.cur_fn().qual if CTX.interp is not None and CTX.interp.cur_fn() else None
        self.owner = None


# ------------------------------------------------------------------------------------------------ arrays
class Arr:
    __array_priority__ = 1000

    def __init__(self, shape, legs=None, dtype='real', buf=None, tags=None, origin='', parents=None):
        self.shape = tuple(simp(Size.of(s, CTX.atoms)) if not isinstance(s, int) else s for s in shape)
        if legs is None:
            legs = [() if is_one(s) else (opaque_leg(s, origin),) for s in self.shape]
        self.legs = [tuple(g) for g in legs]
        if len(self.legs) != len(self.shape):
            raise AnalysisError('internal: legs/shape mismatch')
        self.dt = dtype
        self.buf = buf if buf is not None else Buffer(origin)
        self.tags = dict(tags or {})
        self.origin = origin
        self.parents = tuple(parents) if parents is not None else tuple(getattr(CTX, 'cur_operands', ()))
        srcs = frozenset()
        for p_ in self.parents:
            srcs = srcs | (frozenset([id(p_)]) if id(p_) in CTX.core_tokens else p_.srcs)
        self.srcs = srcs

    # ---- basic attributes
    @property
    def ndim(self):
        return len(self.shape)

    @property
    def dtype(self):
        return DType(self.dt)

    @property
    def size(self):
        return sz_prod(self.shape)

    @property
    def T(self):
        return self.transpose()

    @property
    def real(self):
        r = Arr(self.shape, self.legs, 'real' if self.dt == 'complex' else self.dt, self.buf, {k: v for k, v in self.tags.items() if k in ('prov',)}, origin='real', parents=(self,))
        if self.dt == 'complex':
            CTX.event('real-part', array=self, result=r)
        return r

    @property
    def imag(self):
        return Arr(self.shape, self.legs, 'real', None, origin='imag', parents=(self,))

    def __len__(self):
        if not self.shape:
            raise Raised('TypeError', 'len() of unsized object')
        return self.shape[0]

    def __repr__(self):
        return f"Arr{self.shape}{[list(g) for g in self.legs]}"

    def __bool__(self):
        raise UnknownTruth('truth value of a numerical array/scalar')

    def __iter__(self):
        n = self.shape[0]
        if isinstance(n, int):
            return iter(self[i] for i in range(n))
        raise AnalysisError(f'iteration over an array axis of symbolic length {n} at {CTX.interp.where()}')

    def __hash__(self):
        return id(self)

    # ---- views
    def view(self, shape, legs, tags=None, origin=None):
        return Arr(shape, legs, self.dt, self.buf, tags, origin or self.origin, parents=(self,))

    def copy(self):
        a = Arr(self.shape, self.legs, self.dt, None, self.tags, 'copy', parents=(self,))
        return a

    def astype(self, t, copy=True, **k):
        if k:
            raise AnalysisError(f'ndarray.astype with {sorted(k)} has no model')
        r = Arr(self.shape, self.legs, dtype_of(t), None if copy or dtype_of(t) != self.dt else self.buf, self.tags, 'astype', parents=(self,))
        rank = {'bool': 0, 'int': 1, 'real': 2, 'complex': 3}
        if rank.get(r.dt, 3) < rank.get(self.dt, 0) and self.dt in ('complex', 'real') and r.dt != 'bool':
            # a cast to a narrower kind discards information (imaginary part / fractional part), whatever the values are
            CTX.event('complex-loss' if self.dt == 'complex' else 'float-loss', target=r, value=self,
                      detail=f'astype casts a {self.dt} array to {r.dt}: the ' + ('imaginary part is discarded' if self.dt == 'complex' else 'values are truncated towards zero'))
        return r

    def conj(self):
        t = {}
        if 'orth' in self.tags:
            t['orth'] = self.tags['orth']
        if 'prov' in self.tags:
            t['prov'] = self.tags['prov']
        for k in ('const', 'isometry'):
            if k in self.tags:
                t[k] = self.tags[k]
        from . import mx as _mx
        if 'mx' in self.tags:
            t['mx'] = _mx.C(self.tags['mx'])
        if 'mx_unf' in self.tags:
            t['mx_unf'] = (_mx.C(self.tags['mx_unf'][0]), self.tags['mx_unf'][1])
        return Arr(self.shape, legs_conj(self.legs), self.dt, self.buf if self.dt != 'complex' else None, t, 'conj', parents=(self,))

    conjugate = conj

    def transpose(self, *perm):
        if len(perm) == 1 and isinstance(perm[0], (list, tuple)):
            perm = tuple(perm[0])
        if not perm or perm == (None,):
            perm = tuple(reversed(range(self.ndim)))
        perm = [int(p) for p in perm]
        if sorted(perm) != list(range(self.ndim)):
            raise value_error(f"axes don't match array: transpose{tuple(perm)} of a {self.ndim}-d array")
        t = {}
        if 'orth' in self.tags and self.ndim == 2 and perm == [1, 0]:
            t['orth'] = {'LO': 'RO', 'RO': 'LO'}.get(self.tags['orth'], self.tags['orth'])
        if 'prov' in self.tags and self.ndim == 2 and perm == [1, 0]:
            t['prov'] = dict(self.tags['prov'], transposed=not self.tags['prov'].get('transposed', False))
        if 'const' in self.tags and self.tags['const'] in ('eye', 'zeros', 'ones'):
            t['const'] = self.tags['const']
        t['perm'] = tuple(perm)
        if self.ndim == 2 and perm == [1, 0]:
            from . import mx as _mx
            m_ = _mx.of(self)
            t['mx'] = _mx.T(m_)
        return self.view([self.shape[p] for p in perm], [self.legs[p] for p in perm], t, origin='transpose')

    def reshape(self, *shape, order='C', **kw):
        if kw:
            raise AnalysisError(f'reshape with keyword arguments {sorted(kw)} has no model')
        if len(shape) == 1 and isinstance(shape[0], (list, tuple)):
            shape = tuple(shape[0])
        return reshape_ordered(self, shape, order)

    def flatten(self, order='C'):
        r = reshape_ordered(self, (self.size,), order)
        return Arr(r.shape, r.legs, r.dt, None, r.tags, 'flatten', parents=(self,))

    def ravel(self, order='C'):
        return reshape_ordered(self, (self.size,), order)

    def squeeze(self, axis=None):
        keep = [i for i, s in enumerate(self.shape) if not is_one(s)]
        return self.view([self.shape[i] for i in keep], [self.legs[i] for i in keep])

    def dot(self, o):
        return dot(self, o)

    def __matmul__(self, o):
        return matmul(self, o)

    def __rmatmul__(self, o):
        return matmul(o, self)

    def sum(self, axis=None):
        return np_sum(self, axis)

    def all(self, axis=None):
        if axis is not None:
            raise AnalysisError('all(axis=...) has no model')
        return Arr([], [], 'bool', None, {}, 'all', parents=(self,))          # (a data-dependent truth value: both outcomes are explored where it is tested)

    def any(self, axis=None):
        if axis is not None:
            raise AnalysisError('any(axis=...) has no model')
        return Arr([], [], 'bool', None, {}, 'any', parents=(self,))

    def argsort(self, *a, **k):
        if self.ndim != 1:
            raise AnalysisError('argsort of a non-vector has no model')
        return Arr(self.shape, None, 'int', None, {'index_of': id(self), 'perm': True}, 'argsort')

    def tolist(self):
        raise AnalysisError('tolist() of a symbolic array')

    # ---- arithmetic (elementwise, numpy broadcasting)
    def _bin(self, o, name, rev=False):
        if isinstance(o, float) and math.isinf(o) and name in ('lt', 'gt', 'le', 'ge') and self.ndim == 0:
            # finite data compared with +-infinity
            less = (o > 0)
            if rev:
                less = not less
            res = less if name in ('lt', 'le') else (not less)
            CTX.event('branch', outcome=res, decided=True, expr=(name, (o, self) if rev else (self, o)))
            return res
        if isinstance(o, Arr):
            shape, legs = broadcast(self, o)
            dt = join_dtype(self.dt, o.dt)
            tags = {}
            if CTX.typed and name in ('add', 'sub') and dt == 'complex':
                sum_typing(self, o)
            if name == 'mul':
                for sg_, other_ in ((self, o), (o, self)):
                    if 'sign_of' in sg_.tags and not sg_.tags.get('stores') and not sg_.buf.writes:
                        CTX.event('sign-scale', array=other_, sign=sg_, detail='an array is multiplied by np.sign(...) of data: the sign of an entry that is exactly zero is 0, so the scaled '
                                  'slice is wiped out instead of keeping its sign (no guard replaces the zeros of the sign array)')
        elif isinstance(o, (int, float, complex, Size)) or is_scalar(o):
            shape, legs, dt = self.shape, self.legs, join_dtype(self.dt, 'complex' if isinstance(o, complex) or (isinstance(o, Arr) and o.dt == 'complex') else 'real')
            tags = {}
            if name == 'mul' and isinstance(o, Arr) and 'sign_of' in o.tags and not o.buf.writes:
                CTX.event('sign-scale', array=self, sign=o, detail='an array is multiplied by np.sign(...) of a data value: the sign of a value that is exactly zero is 0, so the array is wiped out '
                          'instead of keeping its sign')
            if name in ('mul', 'div') and 'prov' in self.tags:
                pass
        else:
            return NotImplemented
        if name in ('truediv',) and dt == 'int':
            dt = 'real'
        if name == 'truediv' and rev and isinstance(o, (int, float)) and o == 1 and 'mx' in self.tags and len(self.tags['mx']) == 1 and self.tags['mx'][0][0] in ('S', 'Sinv'):
            f_ = self.tags['mx'][0]
            tags['mx'] = ((('Sinv' if f_[0] == 'S' else 'S'), f_[1], '', f_[3]),)          # 1 / s
        if name in ('lt', 'gt', 'le', 'ge') and (self.dt == 'complex' or (isinstance(o, Arr) and o.dt == 'complex') or isinstance(o, complex)):
            CTX.event('complex-order', array=self, other=o, detail=f'an ordering comparison ({name}) of complex numbers: NumPy orders them by real part first (lexicographically), it does not '
                      f'compare moduli')
        if name in ('lt', 'gt', 'le', 'ge') and isinstance(o, (int, float)) and not isinstance(o, bool) and 0 < abs(o) < 1e-6:
            # a quantity derived from computed eigenvalues compared with a small ABSOLUTE constant (no division on the way: not relative to their scale)
            x_, hops, rel = self, 0, False
            while isinstance(x_, Arr) and hops < 6 and x_.origin not in ('eig.w', 'eigh.w', 'eigs.w'):
                ex_ = x_.tags.get('expr')
                if ex_ and ex_[0] == 'truediv':
                    rel = True
                    break
                nxt = [p_ for p_ in (ex_[1] if ex_ else (x_.parents or ())) if isinstance(p_, Arr)]
                x_, hops = (nxt[0] if nxt else None), hops + 1
            if isinstance(x_, Arr) and not rel and x_.origin in ('eig.w', 'eigh.w', 'eigs.w'):
                CTX.event('abs-tolerance-eig', array=self, const=o, eig=x_, detail=f'a quantity computed from the eigenvalues of a micro problem is compared with the absolute constant {o!r}: '
                          f'the test is not invariant under scaling of the operator (rounding-level parts of eigenvalues of size 1e5 exceed 1e-12)')
        if name in ('lt', 'gt', 'le', 'ge', 'eq', 'ne'):
            dt = 'bool'
        r = Arr(shape, legs, dt, None, tags, name)
        r.tags['expr'] = (name, (o, self) if rev else (self, o))
        if name in ('mul', 'truediv') and isinstance(o, Arr):
            diag_scaling(r, self, o, name, rev)
        if 'arange' in self.tags and name in ('add', 'sub') and isinstance(o, (int, Size)) and not isinstance(o, bool) and not (name == 'sub' and rev):
            lo, hi = self.tags['arange']          # an index vector c + arange(n) stays an index vector
            off = o if name == 'add' else -o
            r.tags['arange'] = (simp(Size.of(lo, CTX.atoms) + off), simp(Size.of(hi, CTX.atoms) + off))
        if name == 'mul' and isinstance(o, (int, float, complex)) and not isinstance(o, bool):
            c0, root = self.tags.get('scale', (1, self))
            r.tags['scale'] = (c0 * o, root)
            if 'opalg' in self.tags:
                r.tags['opalg'] = self.tags['opalg'].scale(o)
        if isinstance(o, Arr) and name in ('add', 'sub'):
            pa, pb = self.tags.get('opalg'), o.tags.get('opalg')
            za, zb = self.tags.get('const') == 'zeros', o.tags.get('const') == 'zeros'
            if (pa is not None or za) and (pb is not None or zb):
                from .opalg import Op
                pa, pb = pa or Op(), pb or Op()
                x, y = (pb, pa) if rev else (pa, pb)
                r.tags['opalg'] = x + y if name == 'add' else x - y
        return r

    def __add__(self, o): return self._bin(o, 'add')
    def __radd__(self, o): return self._bin(o, 'add', True)
    def __sub__(self, o): return self._bin(o, 'sub')
    def __rsub__(self, o): return self._bin(o, 'sub', True)
    def __mul__(self, o): return self._bin(o, 'mul')
    def __rmul__(self, o): return self._bin(o, 'mul', True)
    def __truediv__(self, o): return self._bin(o, 'truediv')
    def __rtruediv__(self, o): return self._bin(o, 'truediv', True)
    def __pow__(self, o): return self._bin(o, 'pow')
    def __rpow__(self, o): return self._bin(o, 'pow', True)
    def __lt__(self, o): return self._bin(o, 'lt')
    def __gt__(self, o): return self._bin(o, 'gt')
    def __le__(self, o): return self._bin(o, 'le')
    def __ge__(self, o): return self._bin(o, 'ge')
    def __and__(self, o): return self._bin(o, 'and')
    def __or__(self, o): return self._bin(o, 'or')

    def __eq__(self, o):
        if isinstance(o, (Arr, int, float, complex)):
            return self._bin(o, 'eq')
        return False

    def __ne__(self, o):
        if isinstance(o, (Arr, int, float, complex)):
            return self._bin(o, 'ne')
        return True

    def __neg__(self):
        c0, root = self.tags.get('scale', (1, self))
        return Arr(self.shape, self.legs, self.dt, None, {'scale': (-c0, root)}, 'neg')

    def __abs__(self):
        return Arr(self.shape, self.legs, 'real', None, {}, 'abs')

    def _inplace(self, o, name):
        r = self._bin(o, name)
        if r is NotImplemented:
            return r
        if self.ndim == 0 and 'sel_of' not in self.tags and self.tags.get('alloc') is None:
            # NumPy scalars (what arithmetic, reductions and element access return) are immutable: `s op= v` rebinds the name to a new value
            return r
        if not all(sz_eq(a, b) for a, b in zip(r.shape, self.shape)) or len(r.shape) != len(self.shape):
            raise value_error(f'non-broadcastable output operand with shape {self.shape} does not match the broadcast shape {r.shape}')
        if r.dt == 'complex' and self.dt != 'complex':
            CTX.event('complex-loss', target=self, value=o, detail='in-place operator with a complex operand on a real array')
        self.buf.writes.append(('inplace-' + name, CTX.interp.where() if CTX.interp else ''))
        if isinstance(o, Arr):
            self.buf.inputs.append(o)
        if 'sel_of' in self.tags and self.tags['sel_of'][0].buf is self.buf:
            root, sel = self.tags['sel_of']
            rec = {'sel': sel, 'value': o, 'where': CTX.interp.where() if CTX.interp else '', 'node': CTX.interp.cur_node() if CTX.interp else None, 'mode': name}
            root.tags.setdefault('stores', []).append(rec)
            if isinstance(o, Arr):
                adopt_legs(root, None, sel, o)
            self.tags['inplace_done'] = True
        elif 'sel_of' not in self.tags and self.tags.get('alloc') in ('zeros', 'ones'):
            # whole-array accumulation  a += v  on an array allocated by np.zeros / np.ones: a store covering every position
            rec = {'sel': tuple(('all',) for _ in self.shape), 'value': o, 'where': CTX.interp.where() if CTX.interp else '', 'node': CTX.interp.cur_node() if CTX.interp else None, 'mode': name}
            self.tags.setdefault('stores', []).append(rec)
        elif 'sel_of' not in self.tags:
            # whole-array in-place operation on a computed array: its content is the previous content combined with the operand (see content.entry)
            self.tags.setdefault('inplace_ops', []).append((name, o, len(self.buf.writes)))
        CTX.event('inplace-op', target=self, op=name, value=o)
        if name in ('mul', 'truediv') and isinstance(o, (int, float, complex)) and not isinstance(o, bool) and 'sel_of' not in self.tags:
            # x *= c : the array now holds c times its previous value; keep that value as a snapshot so that scalar factors stay traceable
            c0, root = self.tags.get('scale', (1, None))
            if root is None or root is self:
                root = Arr(self.shape, self.legs, self.dt, None, {k_: v_ for k_, v_ in self.tags.items() if k_ not in ('scale', 'inplace_done')}, self.origin, parents=self.parents)
            self.tags['scale'] = (c0 * o if name == 'mul' else c0 / o, root)
        elif 'scale' in self.tags and 'sel_of' not in self.tags:
            self.tags.pop('scale', None)
        self.tags.pop('const', None)
        self.tags.pop('orth', None)
        return self

    def __iadd__(self, o): return self._inplace(o, 'add')
    def __isub__(self, o): return self._inplace(o, 'sub')
    def __imul__(self, o): return self._inplace(o, 'mul')
    def __itruediv__(self, o): return self._inplace(o, 'truediv')

    # ---- indexing
    def __getitem__(self, idx):
        return getitem(self, idx)

    def __setitem__(self, idx, v):
        setitem(self, idx, v)


def is_scalar(x):
    return isinstance(x, Arr) and x.ndim == 0


def scalar(dtype='real', origin='scalar', tags=None):
    return Arr((), [], dtype, None, tags, origin)


def broadcast(a, b):
    sa, sb = list(a.shape), list(b.shape)
    la, lb = list(a.legs), list(b.legs)
    n = max(len(sa), len(sb))
    sa, la = [1] * (n - len(sa)) + sa, [()] * (n - len(la)) + la
    sb, lb = [1] * (n - len(sb)) + sb, [()] * (n - len(lb)) + lb
    shape, legs = [], []
    for x, y, gx, gy in zip(sa, sb, la, lb):
        if sz_eq(x, y):
            shape.append(x); legs.append(gx if gx else gy)
        elif is_one(x):
            shape.append(y); legs.append(gy)
        elif is_one(y):
            shape.append(x); legs.append(gx)
        else:
            raise value_error(f'operands could not be broadcast together with shapes {a.shape} {b.shape}')
    return shape, legs


def sum_typing(a, b):
    """terms of a sum carry the same indices: an axis that is a ket index of one term and a bra index of the other (M + M.T for a complex matrix between tensor-train
    indices: the transpose without the conjugate) makes the sum depend on the basis -- for complex data it is not the Hermitian part, nor any tensor at all"""
    n = max(a.ndim, b.ndim)
    la, lb = [()] * (n - a.ndim) + list(a.legs), [()] * (n - b.ndim) + list(b.legs)
    for ax, (ga, gb) in enumerate(zip(la, lb)):
        if not ga or not gb or len(ga) != len(gb):
            continue
        ra, rb = [x.resolve() for x in ga], [y.resolve() for y in gb]
        if not all(x.kind in ('R', 'M') for x in ra + rb):
            continue
        for x, y in zip(ra, rb):
            if x.kind == y.kind and x.key == y.key and (x.var, x.conj) != (y.var, y.conj):
                CTX.event('sum-type-error', a=a, b=b, axis=ax, detail=f'axis {ax} is the index {x} in one term of the sum and its conjugate counterpart {y} in the other '
                          f'(a transpose without the complex conjugate, or the reverse)')
                return


def merge_parts(grp):
    """adjacent factors that are the two parts (in order) of one split index are replaced by that index"""
    grp = list(grp)
    changed = True
    while changed:
        changed = False
        for i in range(len(grp) - 1):
            x, y = grp[i], grp[i + 1]
            if x.kind == 'P' and y.kind == 'P' and x.parent[1] == 0 and y.parent[1] == 1 and x.key[:2] == y.key[:2] and (x.var, x.conj) == (y.var, y.conj):
                grp[i:i + 2] = [x.parent[0]]
                changed = True
                break
    return grp


# ------------------------------------------------------------------------------------------------ reshape
def reshape_ordered(a, shape, order='C'):
    """reshape with NumPy's order argument: 'C' is the model below; 'F' is the C-order reshape of the transposed array, transposed back; 'A' / 'K' follow the memory
    layout the array happens to have, which neither the domain nor the tensor-train class controls"""
    if order in ('C', None):
        return reshape(a, shape)
    if order == 'F':
        return reshape(a.transpose(), tuple(reversed(list(shape)))).transpose()
    if order in ('A', 'K'):
        CTX.event('layout-dependent', array=a, detail=f"reshape / flatten with order='{order}' follows the memory layout of the array: a core that happens to be stored column-major (a transposed "
                  f"view, data loaded in Fortran order) is unfolded in a different index order than a row-major one")
        return reshape(a, shape)
    raise value_error(f"order must be one of 'C', 'F', 'A', or 'K' (got {order!r})")


def reshape(a, shape):
    shape = list(shape)
    total = a.size
    if any(isinstance(s, int) and s == -1 for s in shape):
        k = [i for i, s in enumerate(shape) if isinstance(s, int) and s == -1]
        if len(k) > 1:
            raise value_error('can only specify one unknown dimension')
        rest = sz_prod([s for i, s in enumerate(shape) if i != k[0]])
        q = Size.of(total, CTX.atoms).divide(rest)
        if q is None:
            raise value_error(f'cannot reshape array of size {total} into shape {shape}')
        shape[k[0]] = simp(q)
    shape = [simp(Size.of(s, CTX.atoms)) if not isinstance(s, int) else s for s in shape]
    if not sz_eq(sz_prod(shape), total):
        raise value_error(f'cannot reshape array of shape {a.shape} (size {total}) into shape {tuple(shape)}')
    # leg bookkeeping: the factors of `a` in C order are distributed over the new axes
    factors = list(flat(a.legs))
    out, pos, aligned = [], 0, True
    for s in shape:
        if is_one(s):
            out.append(())
            continue
        grp, prod = [], 1
        while pos < len(factors) and not sz_eq(prod, s):
            f = factors[pos]
            need = Size.of(s, CTX.atoms).divide(prod)
            if need is None:
                break
            need = simp(need)
            if sz_eq(f.size, need) or Size.of(need, CTX.atoms).divide(f.size) is not None:
                grp.append(f); prod = prod * f.size; pos += 1
                continue
            parts = f.split(need)
            if parts is None:
                break
            grp.append(parts[0]); prod = prod * parts[0].size
            factors[pos] = parts[1]
        if not sz_eq(prod, s):
            aligned = False
            break
        out.append(tuple(merge_parts(grp)))
    if aligned and pos != len(factors):
        aligned = False
    if not aligned:
        CTX.event('reshape-misaligned', array=a, new_shape=tuple(shape), detail=f'reshape {a.shape} -> {tuple(shape)} cuts or regroups tensor legs {a.legs}')
        out = [() if is_one(s) else (opaque_leg(s, 'reshape'),) for s in shape]
    tags = {}
    for k in ('prov',):
        if k in a.tags:
            tags[k] = a.tags[k]
    if 'orth' in a.tags:
        # orthonormality is a property of the matricisation: keep it with the split point (number of factors on the row side)
        tags['orth'] = a.tags['orth']
        tags['orth_split'] = a.tags.get('orth_split')
    if 'const' in a.tags and a.tags['const'] in ('zeros', 'ones'):
        tags['const'] = a.tags['const']
    if a.tags.get('const') == 'eye':
        tags['const'] = 'eye-reshaped'
        tags['eye_legs'] = a.legs
    tags['is_reshape'] = True
    # matrix expression of the unfolding: a C-order reshape keeps the row-major flattening, so the matricisation (first axes | rest) with a given number
    # of rows is one and the same matrix for every shape it is written in
    from . import mx as _mx
    root = a
    while root.tags.get('is_reshape') and root.parents:
        root = root.parents[0]
    known = None
    if a.ndim == 2 and 'mx' in a.tags:
        known = (a.tags['mx'], a.shape[0])
    elif 'mx_unf' in a.tags:
        known = a.tags['mx_unf']
    if a.ndim == 1 and 'mx' in a.tags and sum(1 for x in shape if not is_one(x)) <= 1:
        tags['mx'] = a.tags['mx']                   # s.reshape(k, 1, 1, 1): still the diagonal factor
        if len(shape) >= 2 and all(is_one(x) for x in shape[1:]):
            tags['diag_side'] = 'left'
        elif len(shape) >= 2 and all(is_one(x) for x in shape[:-1]):
            tags['diag_side'] = 'right'
    elif len(shape) == 2:
        if known is not None and sz_eq(known[1], shape[0]):
            tags['mx'] = known[0]
        else:
            CTX.keep.append(root)
            CTX.__dict__.setdefault('mx_roots', {})[id(root)] = root
            tags['mx'] = _mx.src(('unf', id(root), str(Size.of(shape[0], CTX.atoms))))
    elif known is not None:
        tags['mx_unf'] = known
    tags['reshape_root'] = root
    r = a.view(shape, out, tags)
    return r


# ------------------------------------------------------------------------------------------------ indexing
class IntVec(list):
    """a concrete integer index vector (np.arange of concrete arguments): a list with NumPy's element-wise arithmetic"""

    def _el(self, o, f):
        if isinstance(o, (list, tuple)):
            if len(o) != len(self):
                raise value_error(f'operands could not be broadcast together with shapes ({len(self)},) ({len(o)},)')
            return IntVec(f(x, y) for x, y in zip(self, o))
        if isinstance(o, (int, Size)):
            return IntVec(f(x, o) for x in self)
        return NotImplemented

    def __add__(self, o): return self._el(o, lambda x, y: x + y)
    def __radd__(self, o): return self._el(o, lambda x, y: y + x)
    def __sub__(self, o): return self._el(o, lambda x, y: x - y)
    def __rsub__(self, o): return self._el(o, lambda x, y: y - x)
    def __mul__(self, o): return self._el(o, lambda x, y: x * y)
    def __rmul__(self, o): return self._el(o, lambda x, y: y * x)

    def _unsupported(self, o, what):
        # element-wise arithmetic that leaves the integers (powers, divisions, floats): the values are not tracked
        raise AnalysisError(f'{what} with an integer index vector has no model in this domain')

    def __pow__(self, o): return self._unsupported(o, 'a power')
    def __rpow__(self, o): return self._unsupported(o, 'a power')
    def __truediv__(self, o): return self._unsupported(o, 'a division')
    def __rtruediv__(self, o): return self._unsupported(o, 'a division')
    def __floordiv__(self, o): return self._el(o, lambda x, y: x // y)
    def __mod__(self, o): return self._el(o, lambda x, y: x % y)
    def __neg__(self): return IntVec(-x for x in self)

    def __getitem__(self, i):
        r = list.__getitem__(self, i)
        return IntVec(r) if isinstance(i, slice) else r

    @property
    def shape(self):
        return (len(self),)


class SymIdx:
    """a symbolic index j in [lo, hi): one representative iteration of a loop whose trip count is a size atom"""

    def __init__(self, lo, hi, name='j'):
        self.lo, self.hi, self.name = lo, hi, name
        self.uid = CTX.new_uid()

    def __repr__(self):
        return f'{self.name}#{self.uid}'

    def __index__(self):
        raise TypeError('symbolic index used where a concrete integer is required')

    def __add__(self, o):
        return SymOff(self, o)

    __radd__ = __add__

    def __sub__(self, o):
        return SymOff(self, -o)

    def __eq__(self, o):
        return self is o

    def __hash__(self):
        return id(self)

    def _cmp(self, o, op):
        lo, hi1 = Size.of(self.lo, CTX.atoms), Size.of(self.hi, CTX.atoms) - 1      # lo <= self <= hi - 1
        o = Size.of(o, CTX.atoms)
        try:
            if op in ('<', '<='):
                if (hi1 < o) if op == '<' else (hi1 <= o):
                    return True
                if (lo >= o) if op == '<' else (lo > o):
                    return False
            else:
                if (lo > o) if op == '>' else (lo >= o):
                    return True
                if (hi1 <= o) if op == '>' else (hi1 < o):
                    return False
        except UnknownTruth:
            pass
        raise UnknownTruth(f'order of index {self} in [{self.lo}, {self.hi}) and {o}')

    def __lt__(self, o): return self._cmp(o, '<')
    def __le__(self, o): return self._cmp(o, '<=')
    def __gt__(self, o): return self._cmp(o, '>')
    def __ge__(self, o): return self._cmp(o, '>=')


class SymOff:
    def __init__(self, base, off):
        self.base, self.off = base, off

    def __add__(self, o):
        return SymOff(self.base, self.off + o)

    __radd__ = __add__

    def __sub__(self, o):
        return SymOff(self.base, self.off - o)

    def __repr__(self):
        return f'{self.base}+{self.off}'

    def __eq__(self, o):
        return isinstance(o, SymOff) and o.base is self.base and sz_eq(o.off, self.off)

    def __hash__(self):
        return hash((id(self.base), str(self.off)))


class SymRange:
    def __init__(self, lo, hi):
        self.lo, self.hi = lo, hi

    def __len__(self):
        n = simp(Size.of(self.hi, CTX.atoms) - self.lo)
        if isinstance(n, int):
            return n
        raise AnalysisError('len() of a range of symbolic length where a concrete integer is needed')

    def __getitem__(self, k):
        # range(lo, hi)[k] = lo + k for 0 <= k < hi - lo (negative k counts from the end)
        if isinstance(k, (int, Size)) and not isinstance(k, bool):
            n = simp(Size.of(self.hi, CTX.atoms) - self.lo)
            i = norm_index(n, k)
            ok = index_in_range(n, i)
            if ok is False:
                raise Raised('IndexError', 'range object index out of range')
            if ok is None:
                raise AnalysisError(f'range(...)[{k}]: the index is not provably inside the range of symbolic length {n}')
            return simp(Size.of(self.lo, CTX.atoms) + i)
        raise AnalysisError(f'range(...)[{type(k).__name__}] has no model')


def norm_index(n, i):
    """python-style negative index on an axis of length n (n may be symbolic)"""
    if isinstance(i, bool):
        i = int(i)
    if isinstance(i, int) and i < 0:
        return simp(Size.of(n, CTX.atoms) + i)
    return i


def index_in_range(n, i):
    """True / False / None"""
    if isinstance(i, (SymIdx, SymOff)):
        base = i if isinstance(i, SymIdx) else i.base
        off = 0 if isinstance(i, SymIdx) else i.off
        try:
            lo_ok = (Size.of(base.lo, CTX.atoms) + off) >= 0
            hi_ok = (Size.of(base.hi, CTX.atoms) + off) <= n
            return bool(lo_ok and hi_ok)
        except UnknownTruth:
            return None
    try:
        s = Size.of(i, CTX.atoms)
    except TypeError:
        return None
    try:
        return bool(s >= 0) and bool(s < n)
    except UnknownTruth:
        if CTX.atoms.le(s + 1, n):
            return True
        return None


def expand_index(a, idx):
    if not isinstance(idx, tuple):
        idx = (idx,)
    n_real = sum(1 for x in idx if x is not None and x is not Ellipsis)
    if n_real > a.ndim:
        raise Raised('IndexError', f'too many indices for array: array is {a.ndim}-dimensional, but {n_real} were indexed')
    out = []
    for x in idx:
        if x is Ellipsis:
            out.extend([slice(None)] * (a.ndim - n_real))
        else:
            out.append(x)
    n_real2 = sum(1 for x in out if x is not None)
    out.extend([slice(None)] * (a.ndim - n_real2))
    return out


def slice_extent(n, s):
    """(start, stop, length) of slice s on an axis of length n; symbolic"""
    if s.step not in (None, 1):
        if s.step == -1 and s.start is None and s.stop is None:
            return 0, n, n
        if isinstance(n, int) and all(isinstance(x, (int, type(None))) for x in (s.start, s.stop, s.step)):
            r = range(*s.indices(n))
            return r.start, r.stop, len(r)
        raise AnalysisError(f'slice with step {s.step} on a symbolic axis has no model')
    start = 0 if s.start is None else norm_index(n, s.start)
    stop = n if s.stop is None else norm_index(n, s.stop)
    # clamp when decidable
    try:
        if Size.of(stop, CTX.atoms) > n:
            stop = n
    except (UnknownTruth, TypeError):
        if isinstance(stop, Size) and CTX.atoms.le(n, stop):
            stop = n
        elif isinstance(stop, Size) and s.stop is not None and not CTX.atoms.le(stop, n):
            # NumPy clamps a slice bound to the length of the axis: a[:k] has min(k, n) entries when the order of k and n is not known
            from .shape import sz_min
            stop = sz_min(CTX.atoms, stop, n)
    if sz_eq(start, 0) and sz_eq(stop, n):
        return 0, n, n
    length = simp(Size.of(stop, CTX.atoms) - start)
    return start, stop, length


def outer_gather(a, idx):
    """a[rows[:, None], :, ..., cols[None, :]] with rows/cols = arange over the full axes: a transposition that moves the two
    indexed axes to the front (NumPy puts advanced-index dimensions first when they are separated by slices)"""
    adv = [(k, x) for k, x in enumerate(idx) if isinstance(x, Arr) and x.ndim == 2]
    if len(adv) != 2 or any(x is None for x in idx) or any(not (isinstance(x, slice) and x == slice(None)) for k, x in enumerate(idx) if k not in (adv[0][0], adv[1][0])):
        return None
    (k0, i0), (k1, i1) = adv
    if not (is_one(i0.shape[1]) and is_one(i1.shape[0])):
        return None
    for k, x in adv:
        rng = x.tags.get('arange')
        if rng is None or not sz_eq(rng[0], 0) or not sz_eq(rng[1], a.shape[k]):
            return None
    rest = [k for k in range(a.ndim) if k not in (k0, k1)]
    order = [k0, k1] + rest
    return Arr([a.shape[k] for k in order], [a.legs[k] for k in order], a.dt, None, {}, 'outer-gather')


def mask_count(x, n):
    """the number of True entries of a boolean mask: one unknown per mask, however often it is applied -- and the same unknown for a mask that is
    re-computed from the same operands ( a[s > t] = f(b[s > t]) )"""
    memo = CTX.__dict__.setdefault('mask_counts', {})
    ex = x.tags.get('expr')
    key = id(x)
    if ex and len(ex) == 2 and isinstance(ex[1], tuple):
        key = ('expr', ex[0]) + tuple(id(o) if isinstance(o, Arr) else repr(o) for o in ex[1])
    if key not in memo:
        memo[key] = CTX.atoms.new('k', free=True, upper=[n], origin='boolean mask')
        CTX.keep.append(x)
        # a comparison used as a mask is a data-dependent selection, exactly like np.where(comparison): same event, so that the rules on how singular
        # values may be cut (relative to the largest one) see it
        CTX.event('where', cond=x, index=None, count=memo[key], env={})
    return memo[key]


def pointwise_advanced(shape, legs, adv_pos, adv_axes):
    """NumPy semantics of several advanced indices: the index arrays are broadcast against each other and produce ONE axis (point-wise selection); that axis
    replaces the first index array if all advanced indices (index arrays and integers) are adjacent, otherwise it comes first"""
    if not adv_axes:
        return shape, legs
    adjacent = all(q == p + 1 for p, q in zip(adv_pos, adv_pos[1:]))
    if len(adv_axes) == 1 and adjacent:
        return shape, legs
    k, g = None, None
    for ax in adv_axes:
        n = shape[ax]
        if k is None or is_one(k):
            k, g = n, legs[ax]
        elif not (is_one(n) or sz_eq(n, k)):
            raise Raised('IndexError', f'shape mismatch: indexing arrays could not be broadcast together with shapes ({k},) ({n},)')
    if len(adv_axes) > 1:
        g = () if is_one(k) else (opaque_leg(k, 'point-wise selection'),)
    first = adv_axes[0]
    shape2 = [s_ for i, s_ in enumerate(shape) if i not in adv_axes]
    legs2 = [l_ for i, l_ in enumerate(legs) if i not in adv_axes]
    at = first if adjacent else 0
    shape2.insert(at, k)
    legs2.insert(at, g)
    return shape2, legs2


def may_repeat(vecs):
    """can the tuples (I1[t], I2[t], ...) formed by the index vectors coincide for two different t?  False (provably not) / True (they do) / None (nothing known)"""
    if any(affine_index(x) is not None or (isinstance(x, Arr) and x.tags.get('unique')) for x in vecs):
        return False                  # one strictly increasing / duplicate-free component makes the tuples distinct
    if all(isinstance(x, IntVec) and all(isinstance(v, int) for v in x) for x in vecs):
        pts = list(zip(*vecs))
        return len(set(pts)) < len(pts)
    return None


def affine_index(x):
    """(start, length) if the index vector x is start + arange(length), else None"""
    if isinstance(x, IntVec):
        if all(isinstance(v, (int, Size)) for v in x) and all(sz_eq(Size.of(b, CTX.atoms) - a, 1) for a, b in zip(x, x[1:])):
            return (x[0] if len(x) else 0), len(x)
        return None
    if isinstance(x, Arr) and x.ndim == 1 and 'arange' in x.tags:
        lo, hi = x.tags['arange']
        return lo, x.shape[0]
    return None


def getitem(a, idx):
    idx = expand_index(a, idx)
    og = outer_gather(a, idx)
    if og is not None:
        return og
    shape, legs, ax = [], [], 0
    adv = [x for x in idx if (isinstance(x, Arr) and x.ndim >= 1) or isinstance(x, list)]
    view = not adv
    sel = []
    adv_pos, adv_axes = [], []          # positions in idx of advanced indices (index arrays, and integers once an index array is present); output axes made by index arrays
    for pos, x in enumerate(idx):
        if adv and not isinstance(x, slice) and x is not None:
            adv_pos.append(pos)
        if (isinstance(x, Arr) and x.ndim >= 1) or isinstance(x, list):
            adv_axes.append(len(shape))
        if x is None:
            shape.append(1); legs.append(()); continue
        n, g = a.shape[ax], a.legs[ax]
        if isinstance(x, slice):
            start, stop, length = slice_extent(n, x)
            if x.step == -1 and sz_eq(length, n):
                shape.append(n)
                legs.append((CTX.sub_bond(g[0], ('rev',), n),) if len(g) == 1 and g[0].resolve().kind in ('R', 'X') else g)
                sel.append(('rev',))
            elif sz_eq(length, n):
                shape.append(n); legs.append(g); sel.append(('all',))
            else:
                shape.append(length)
                if len(g) == 1 and g[0].resolve().kind in ('R', 'X') and not is_one(length):
                    legs.append((CTX.sub_bond(g[0], ('range', str(start), str(stop)), length),))
                else:
                    legs.append(() if is_one(length) else (opaque_leg(length, 'slice'),))
                sel.append(('range', start, stop))
        elif isinstance(x, (Arr,)) and x.ndim >= 1:
            if x.dt == 'bool':
                k = mask_count(x, n)
            else:
                k = x.shape[0] if x.ndim == 1 else None
                if k is None:
                    raise AnalysisError('advanced indexing with a multi-dimensional index array has no model')
            ikey = ('idx', id(x.tags.get('root_index', x)), str(x.tags.get('index_sel', ())))
            if len(g) == 1 and g[0].resolve().kind in ('R', 'X') and not is_one(k):
                legs.append((CTX.sub_bond(g[0], ikey, k),))
            else:
                legs.append(() if is_one(k) else (opaque_leg(k, 'fancy'),))
            shape.append(k)
            sel.append(ikey)
        elif isinstance(x, list):
            shape.append(len(x)); legs.append(() if len(x) == 1 else (opaque_leg(len(x), 'fancy'),))
            sel.append(('idx', tuple(map(str, x)), None))
        else:
            # scalar index: int, Size, SymIdx, 0-d integer Arr
            i = norm_index(n, x) if isinstance(x, (int, Size)) else x
            ok = index_in_range(n, i) if not isinstance(i, Arr) else None
            if ok is False:
                raise Raised('IndexError', f'index {x} is out of bounds for axis {ax} with size {n}')
            if g and not isinstance(i, Arr):
                CTX.event('index-drop', array=a, axis=ax, index=i, legs=g, detail=f'integer index {i} selects one slice of non-unit index {list(g)}')
            sel.append(('int', i))
        ax += 1
    shape, legs = pointwise_advanced(shape, legs, adv_pos, adv_axes)
    tags = {}
    if 'prov' in a.tags:
        tags['prov'] = dict(a.tags['prov'], sel=a.tags['prov'].get('sel', ()) + (tuple(sel),))
    if a.tags.get('const') in ('zeros', 'ones'):
        tags['const'] = a.tags['const']
    if a.tags.get('const') == 'eye' and len(sel) == 2 and sel[0] == ('all',) and sel[1][0] == 'int':
        tags['const'] = 'unitvec'; tags['unit_index'] = sel[1][1]
    if a.tags.get('const') == 'eye' and len(sel) == 2 and sel[1] == ('all',) and sel[0][0] == 'int':
        tags['const'] = 'unitvec'; tags['unit_index'] = sel[0][1]
    if a.dt == 'int' and a.ndim == 1:
        # a selection of an index array: remember the root index array and the selection applied to it
        tags['root_index'] = a.tags.get('root_index', a)
        tags['index_sel'] = a.tags.get('index_sel', ()) + (str(sel),)
        CTX.keep.append(tags['root_index'])
    if 'arange' in a.tags and all(x is None or (isinstance(x, slice) and x == slice(None)) for x in idx):
        tags['arange'] = a.tags['arange']
    if 'orth' in a.tags:
        # selecting columns of a matrix with orthonormal columns (or rows of one with orthonormal rows) keeps the property
        if a.ndim == 2 and a.tags['orth'] == 'LO' and sel[0] == ('all',):
            tags['orth'] = 'LO'
        if a.ndim == 2 and a.tags['orth'] == 'RO' and sel[1] == ('all',):
            tags['orth'] = 'RO'
    r = Arr(shape, legs, a.dt, a.buf if view else None, tags, 'getitem')
    r.tags['sel_of'] = (a, tuple(sel))
    if a.ndim == 1 and a.tags.get('const') == 'eye-reshaped' and sel and sel[0][0] == 'range' and not (is_one(shape[0]) and sz_eq(sel[0][1], 0)):
        # (the first entry alone is the 1 x 1 identity)
        # a proper piece of a flattened identity: its ones sit at multiples of (n + 1) for the n it was built with -- it is not the flattened identity of a smaller n
        CTX.event('eye-slice', array=a, result=r, sel=sel[0], detail=f'a slice {sel[0][1]}:{sel[0][2]} of a flattened {a.tags.get("eye_legs") and "identity" or "identity"} of {a.shape[0]} entries')
    for e_ in reversed(CTX.events[-8:]):
        if e_.get('kind') == 'index-drop' and e_.get('array') is a and 'result' not in e_:
            e_['result'] = r          # (what was selected: a rule may find that the slice is only inspected, e.g. for its sign, and never becomes part of a core)
    if adv:
        r.tags['gathered'] = (a.buf.uid, tuple(id(x) for x in adv))          # a copy gathered through index arrays (see setitem: buffered in-place updates)
    m_ = a.tags.get('mx')
    if m_ is not None and len(m_) == 1 and a.ndim in (1, 2) and not any(x is None for x in idx):
        k_, u_, op_, s_ = m_[0]
        # which axis is the shared (bond) index of the factor
        bond_ax = {'U': 1, 'Q': 1, 'Rr': 1, 'V': 0, 'R': 0, 'Qr': 0}.get(k_) if a.ndim == 2 else 0
        if op_ in ('T', 'H') and a.ndim == 2 and bond_ax is not None:
            bond_ax = 1 - bond_ax
        if bond_ax is not None and len(sel) == a.ndim:
            other_all = all(sel[x] == ('all',) for x in range(a.ndim) if x != bond_ax)
            bs = sel[bond_ax]
            if other_all and bs == ('all',):
                r.tags['mx'] = m_
            elif other_all and bs[0] in ('range', 'idx'):
                key = ('range', str(bs[1]), str(bs[2])) if bs[0] == 'range' else tuple(str(x) for x in bs)
                if s_ is not None:
                    key = ('then', s_, key)             # a selection of a selection (threshold cut followed by the rank cap)
                r.tags['mx'] = ((k_, u_, op_, key),)
    elif m_ is not None and len(m_) > 1 and a.ndim == 2 and len(sel) == 2 and not any(x is None for x in idx):
        # column selection of a product acts on its last factor, row selection on its first
        def col_axis_is_bond(f):
            k_, _, op_, _ = f
            bx = {'U': 1, 'Q': 1, 'Rr': 1, 'V': 0, 'R': 0, 'Qr': 0}.get(k_)
            if bx is None:
                return None
            return (1 - bx if op_ in ('T', 'H') else bx)
        def with_sel(f, bs):
            key = ('range', str(bs[1]), str(bs[2])) if bs[0] == 'range' else tuple(str(x) for x in bs)
            if f[3] is not None:
                key = ('then', f[3], key)
            return (f[0], f[1], f[2], key)
        if sel[0] == ('all',) and sel[1][0] in ('range', 'idx') and col_axis_is_bond(m_[-1]) == 1:
            r.tags['mx'] = tuple(m_[:-1]) + (with_sel(m_[-1], sel[1]),)
        elif sel[1] == ('all',) and sel[0][0] in ('range', 'idx') and col_axis_is_bond(m_[0]) == 0:
            r.tags['mx'] = (with_sel(m_[0], sel[0]),) + tuple(m_[1:])
        elif sel[0] == ('all',) and sel[1] == ('all',):
            r.tags['mx'] = m_
    elif m_ is not None and a.ndim == 1 and any(x is None for x in idx) and all(x is None or (isinstance(x, slice) and x == slice(None)) for x in idx):
        r.tags['mx'] = m_                      # s[:, None] / s[None, :]: still the diagonal factor, the shape says on which side it acts
        r.tags['diag_side'] = 'left' if (len(idx) >= 2 and idx[0] is not None and all(x is None for x in idx[1:])) else ('right' if idx[-1] is not None and all(x is None for x in idx[:-1]) else None)
    return r


def index_at(x, t):
    """element t (int or symbolic loop index) of an index vector"""
    aff = affine_index(x)
    if aff is not None:
        return aff[0] + t if not isinstance(t, SymIdx) else (t + aff[0] if not sz_eq(aff[0], 0) else t)
    if isinstance(x, IntVec):
        if isinstance(t, int):
            return x[t]
        raise AnalysisError('a concrete, non-contiguous index vector indexed by a symbolic position has no model')
    return getitem(x, (t,))


def point_store(a, idx, vecs, v, inplace):
    """point-wise (advanced-index) store / unbuffered in-place operation, executed as the loop over the points"""
    lens = [x.shape[0] for _, x in vecs]
    n = lens[0]
    for m_ in lens[1:]:
        if is_one(n):
            n = m_
        elif not (is_one(m_) or sz_eq(m_, n)):
            raise Raised('IndexError', f'shape mismatch: indexing arrays could not be broadcast together with shapes ({n},) ({m_},)')
    nslices = sum(1 for y in idx if isinstance(y, slice))
    vpos = [p for p, _ in vecs]
    adjacent = all(q == p + 1 for p, q in zip(vpos, vpos[1:])) and not any(not isinstance(y, slice) and y is not None and pos not in vpos for pos, y in enumerate(idx))
    varies = isinstance(v, Arr) and v.ndim > nslices
    if varies and (v.ndim != nslices + 1 or (adjacent and any(isinstance(y, slice) for y in idx[:vpos[0]]))):
        raise AnalysisError('point-wise store of a value whose point axis is not the leading one has no model')
    if varies and not (sz_eq(v.shape[0], n) or is_one(v.shape[0])):
        raise value_error(f'shape mismatch: value array of shape {v.shape} could not be broadcast to the {n} selected points')

    def value_at(t):
        if not varies:
            return v
        return getitem(v, (0,)) if is_one(v.shape[0]) else getitem(v, (t,))

    def one(t):
        pt = tuple(index_at(dict(vecs)[pos], t) if pos in vpos else x for pos, x in enumerate(idx))
        if inplace is None:
            setitem(a, pt, value_at(t))
        else:
            view = getitem(a, pt)
            view._inplace(value_at(t), inplace)
    if isinstance(n, int):
        for t in range(n):
            one(t)
    else:
        one(SymIdx(0, n))


def setitem(a, idx, v):
    if isinstance(v, Arr) and v.buf is a.buf and v.tags.get('inplace_done'):
        return          # x[sel] op= y : the in-place operation on the view has already been recorded; storing the view back is a no-op
    if isinstance(v, (list, tuple)) or type(v).__name__ == 'SymList':
        v = np_array(v)          # a[sel] = [ ... ] stores np.asarray of the list (the elements stay traceable)
    idx = expand_index(a, idx)
    vecs = [(pos, x) for pos, x in enumerate(idx) if (isinstance(x, Arr) and x.ndim >= 1) or isinstance(x, list)]
    if vecs and isinstance(v, Arr) and v.tags.get('gathered') == (a.buf.uid, tuple(id(x) for _, x in vecs)) and v.buf.writes:
        # a[I, J] op= w : NumPy gathers a[I, J] into a temporary, applies the operation there and scatters the temporary back -- for an index tuple that occurs
        # several times only the LAST contribution survives (unlike np.<ufunc>.at).  Harmless iff the index tuples cannot repeat.
        rep = may_repeat([x for _, x in vecs])
        if rep is not False:
            CTX.event('lost-update', target=a, certain=bool(rep), detail=('an index tuple occurs more than once in' if rep else 'nothing keeps the index tuples from repeating in')
                      + ' a buffered in-place update through index arrays (a[I, J] op= w): only the last contribution to a repeated position survives; np.<ufunc>.at accumulates all of them')
    if len(vecs) >= 2 and all((isinstance(x, Arr) and x.ndim == 1) or isinstance(x, IntVec) for _, x in vecs):
        # a[I1, ..., I2] = v with index vectors of one length n is the loop  for j in range(n): a[I1[j], ..., I2[j]] = v[j]
        point_store(a, idx, vecs, v, None)
        return
    sel_shape, sel, ax = [], [], 0
    adv_pos, adv_axes = [], []
    for pos, x in enumerate(idx):
        if vecs and not isinstance(x, slice) and x is not None:
            adv_pos.append(pos)
        if (isinstance(x, Arr) and x.ndim >= 1) or isinstance(x, list):
            adv_axes.append(len(sel_shape))
        if x is None:
            sel_shape.append(1); continue
        n = a.shape[ax]
        if isinstance(x, slice):
            start, stop, length = slice_extent(n, x)
            ok = True
            try:
                if Size.of(stop, CTX.atoms) > n or Size.of(start, CTX.atoms) < 0:
                    ok = False
            except (UnknownTruth, TypeError):
                ok = None if not (CTX.atoms.le(stop, n)) else True
            sel_shape.append(length)
            sel.append(('all',) if sz_eq(length, n) else ('range', start, stop))
            if ok is None:
                CTX.event('store-bounds-unproved', target=a, axis=ax, lo=start, hi=stop, n=n, detail=f'slice {start}:{stop} on axis {ax} of length {n} is not provably in bounds')
        elif (isinstance(x, Arr) and x.ndim >= 1) or isinstance(x, list):
            k = (mask_count(x, n) if x.dt == 'bool' else x.shape[0]) if isinstance(x, Arr) else len(x)
            sel_shape.append(k); sel.append(('idx', id(x)))
        else:
            i = norm_index(n, x) if isinstance(x, (int, Size)) else x
            ok = index_in_range(n, i) if not isinstance(i, Arr) else None
            if ok is False:
                raise Raised('IndexError', f'index {x} is out of bounds for axis {ax} with size {n}')
            if ok is None and not isinstance(i, Arr):
                CTX.event('store-bounds-unproved', target=a, axis=ax, lo=i, hi=i, n=n, detail=f'index {i} on axis {ax} of length {n} is not provably in bounds')
            sel.append(('int', i))
        ax += 1
    # value must broadcast to the selection
    sel_shape, _ = pointwise_advanced(sel_shape, [()] * len(sel_shape), adv_pos, adv_axes)
    if isinstance(v, Arr):
        vs = [s for s in v.shape]
        ss = list(sel_shape)
        # numpy drops leading unit axes of the value
        while len(vs) > len(ss) and is_one(vs[0]):
            vs = vs[1:]
        if len(vs) > len(ss):
            raise value_error(f'could not broadcast input array from shape {v.shape} into shape {tuple(ss)}')
        pad = [1] * (len(ss) - len(vs)) + vs
        for x, y in zip(pad, ss):
            if not (sz_eq(x, y) or is_one(x)):
                raise value_error(f'could not broadcast input array from shape {v.shape} into shape {tuple(ss)}')
        vdt = v.dt
    elif isinstance(v, (list, tuple)):
        vdt = 'complex' if any(isinstance(x, complex) for x in v) else ('real' if any(isinstance(x, float) or (isinstance(x, Arr) and x.dt == 'real') for x in v) else 'int')
    else:
        vdt = 'complex' if isinstance(v, complex) else ('real' if isinstance(v, float) else 'int')
    if vdt in ('real', 'complex') and a.dt in ('int', 'bool'):
        CTX.event('float-loss', target=a, value=v, detail=f'a floating-point value is stored into an integer array (it is truncated towards zero): the array was allocated with an integer dtype')
    if vdt == 'complex' and a.dt != 'complex':
        CTX.event('complex-loss', target=a, value=v, detail=f'a possibly complex value is stored into a {a.dt} array (the imaginary part is discarded)')
    adopt_legs(a, idx, sel, v)
    rec = {'sel': tuple(sel), 'value': v, 'where': CTX.interp.where() if CTX.interp else '', 'node': CTX.interp.cur_node() if CTX.interp else None, 'mode': 'set'}
    a.buf.writes.append(rec)
    if isinstance(v, Arr):
        a.buf.inputs.append(v)
    a.tags.pop('const', None) if a.tags.get('const') not in ('zeros',) else None
    a.tags.setdefault('stores', []).append(rec)
    a.tags.pop('orth', None)
    # a store through a view is a store into the array the view was taken from: recorded there in its coordinates (or, if the selections do not compose, the root's
    # store log is marked incomplete so that no rule reads a definite content from it)
    so = a.tags.get('sel_of')
    hops = 0
    cur_sel = tuple(sel)
    while so is not None and so[0].buf is a.buf and hops < 4:
        root, rsel = so
        comp = compose_sel(rsel, cur_sel)
        if comp is None:
            root.tags['stores_incomplete'] = True
            break
        root.tags.setdefault('stores', []).append(dict(rec, sel=comp))
        root.tags.pop('const', None) if root.tags.get('const') not in ('zeros',) else None
        cur_sel, so, hops = comp, root.tags.get('sel_of'), hops + 1
    CTX.event('store', target=a, sel=tuple(sel), value=v)


def compose_sel(outer, inner):
    """selection in the coordinates of the array a view was taken from: outer = selection that made the view, inner = selection applied to the view"""
    out, it = [], iter(inner)
    for s_ in outer:
        if s_[0] == 'int':
            out.append(s_)
            continue
        if s_[0] == 'new':
            nxt = next(it, None)
            if nxt is None or nxt[0] not in ('all', 'int'):
                return None
            continue
        nxt = next(it, None)
        if nxt is None:
            return None
        if s_[0] == 'all':
            out.append(nxt)
        elif s_[0] == 'range' and nxt[0] == 'all':
            out.append(s_)
        elif s_[0] == 'range' and nxt[0] == 'int' and isinstance(nxt[1], (int, Size, SymIdx, SymOff)):
            out.append(('int', nxt[1] + s_[1] if not isinstance(nxt[1], (SymIdx, SymOff)) else nxt[1] + s_[1]))
        elif s_[0] == 'range' and nxt[0] == 'range':
            out.append(('range', simp(Size.of(s_[1], CTX.atoms) + nxt[1]), simp(Size.of(s_[1], CTX.atoms) + nxt[2])))
        else:
            return None
    if next(it, None) is not None:
        return None
    return tuple(out)


def adopt_legs(a, idx, sel, v):
    """block assembly: an axis of a freshly allocated array that is written with full slices takes over the tensor index of the
    stored blocks (all blocks must agree, otherwise the axis stays opaque)"""
    if not isinstance(v, Arr) or a.tags.get('alloc') not in ('zeros', 'ones'):
        return
    # axes of the target that receive the value's axes, right-aligned
    tgt_axes = [k for k, s_ in enumerate(sel) if s_[0] != 'int']
    vlegs = list(v.legs)
    while len(vlegs) > len(tgt_axes) and not vlegs[0]:
        vlegs = vlegs[1:]
    if len(vlegs) > len(tgt_axes):
        return
    vlegs = [()] * (len(tgt_axes) - len(vlegs)) + vlegs
    adopted = a.tags.setdefault('adopted', {})
    for k, g in zip(tgt_axes, vlegs):
        if sel[k] != ('all',) or not g:
            continue
        if not any(l.resolve().kind in ('M', 'R', 'I', 'X') for l in g):
            continue
        if k not in adopted:
            adopted[k] = g
            a.legs[k] = g
        else:
            cur = adopted[k]
            if cur is None:
                continue
            same = len(cur) == len(g)
            if same:
                for x, y in zip(cur, g):
                    xr, yr = x.resolve(), y.resolve()
                    if yr.kind == 'I' and xr.kind in ('M', 'R'):
                        # an identity block joins typed blocks: it is the identity of that index
                        t = xr
                        if yr.flip:
                            t = t.flipped()
                        if yr.side:
                            t = t.partner()
                        yr.cell.binding = t
                    elif xr.kind == 'I' and yr.kind in ('M', 'R'):
                        t = yr
                        if xr.flip:
                            t = t.flipped()
                        if xr.side:
                            t = t.partner()
                        xr.cell.binding = t
                    elif not x.same(y):
                        same = False
            if not same:
                adopted[k] = None
                a.legs[k] = () if is_one(a.shape[k]) else (opaque_leg(a.shape[k], 'mixed blocks'),)


# ------------------------------------------------------------------------------------------------ contractions
def _view_root(x):
    """(the array `x` is a conjugated / transposed / reshaped / copied view of, parity of the conjugations on the way)"""
    par, n = 0, 0
    while isinstance(x, Arr) and x.parents and n < 12 and (x.origin in ('conj', 'transpose', 'copy') or x.tags.get('is_reshape')):
        if x.origin == 'conj':
            par ^= 1
        x = x.parents[0]
        n += 1
    return x, par


def _self_inner_product(a, b):
    ra, pa = _view_root(a)
    rb, pb = _view_root(b)
    return ra is rb and pa != pb


def _own_factor_projection(a, b):
    """M V^H (= U S) or U^H M (= S V): a matrix contracted with the conjugate of a factor of ITS OWN decomposition (possibly a column / row selection of it)"""
    for m_, f_ in ((a, b), (b, a)):
        rf, par = _view_root(f_)
        hops = 0
        while isinstance(rf, Arr) and rf.origin == 'getitem' and rf.parents and hops < 4:          # u[:, :r], v[idx, :]
            rf, p2 = _view_root(rf.parents[0])
            par ^= p2
            hops += 1
        pv = rf.tags.get('prov') if isinstance(rf, Arr) else None
        if par == 1 and isinstance(pv, dict) and ('svd' in pv or 'qr' in pv) and isinstance(pv.get('of'), Arr):
            rm, pm = _view_root(m_)
            ro, po = _view_root(pv['of'])
            if pm == po and (rm is ro or (isinstance(rm, Arr) and isinstance(ro, Arr) and rm.buf is ro.buf)):
                return f_
    return None


def check_contract(a, b, ax_a, ax_b, what):
    for i, j in zip(ax_a, ax_b):
        if not sz_eq(a.shape[i], b.shape[j]):
            raise value_error(f'shape-mismatch for sum: axis {i} of {a.shape} has size {a.shape[i]} but axis {j} of {b.shape} has size {b.shape[j]} ({what})')
        ga, gb = a.legs[i], b.legs[j]
        if not CTX.typed:
            continue
        if len(ga) != len(gb):
            if any(x.resolve().kind in ('X',) for x in ga + gb) or any(x.resolve().kind == 'I' for x in ga + gb):
                # an identity / opaque axis against a composite axis: bind nothing, cannot type
                continue
            CTX.event('contract-type-error', a=a, b=b, axes=(i, j), detail=f'{what}: index group {list(ga)} is contracted with {list(gb)} (different structure)')
            continue
        for x, y in zip(ga, gb):
            why = can_contract(x, y)
            if why and 'one side is complex-conjugated' in why and _self_inner_product(a, b):
                continue        # X^H X: an array contracted with its own conjugate over the same index (a Gram matrix / norm), not two ends of one bond
            if why and 'one side is complex-conjugated' in why and _own_factor_projection(a, b) is not None:
                continue        # M V^H = U S: the projection of a matrix onto its own singular vectors
            if why:
                CTX.event('contract-type-error', a=a, b=b, axes=(i, j), detail=f'{what}: {why}')
    CTX.event('contract', a=a, b=b, axes=(tuple(ax_a), tuple(ax_b)), what=what)
    if CTX.dead:
        for o in (a, b):
            if id(o) not in CTX.env_tokens:
                continue        # only values that live in environment slots across helper calls can go stale
            toks = o.srcs & CTX.dead.keys()
            for t in toks:
                inst, slot, wh = CTX.dead[t]
                CTX.event('stale-read', operand=o, slot=slot, tt=inst, replaced_at=wh,
                          detail=f'{what}: an operand was computed from core {slot} of a tensor train, but that core has been replaced since ({wh})')


def tensordot(a, b, axes=2):
    a, b = as_arr(a), as_arr(b)
    if isinstance(axes, int):
        ax_a = list(range(a.ndim - axes, a.ndim))
        ax_b = list(range(axes))
    else:
        ax_a, ax_b = axes
        ax_a = [ax_a] if isinstance(ax_a, int) else list(ax_a)
        ax_b = [ax_b] if isinstance(ax_b, int) else list(ax_b)
    ax_a = [x + a.ndim if x < 0 else x for x in ax_a]
    ax_b = [x + b.ndim if x < 0 else x for x in ax_b]
    if len(ax_a) != len(ax_b) or any(x >= a.ndim for x in ax_a) or any(x >= b.ndim for x in ax_b):
        raise value_error('shape-mismatch for sum (tensordot axes)')
    check_contract(a, b, ax_a, ax_b, 'tensordot')
    ra = [i for i in range(a.ndim) if i not in ax_a]
    rb = [i for i in range(b.ndim) if i not in ax_b]
    la, lb = [a.legs[i] for i in ra], [b.legs[i] for i in rb]
    if CTX.typed and ax_a:
        fac = _own_factor_projection(a, b)
        if fac is not None:
            # M V^H = U S (U^H M = S V): the new bond is the plain bond of the decomposition, not the conjugated one the conjugated factor carries
            def unconj(groups):
                return [tuple(l.flipped() if (l.resolve().kind == 'R' and l.resolve().conj) else l for l in g) for g in groups]
            if fac is b:
                lb = unconj(lb)
            else:
                la = unconj(la)
    r = Arr([a.shape[i] for i in ra] + [b.shape[i] for i in rb], la + lb, join_dtype(a.dt, b.dt), None, {}, 'tensordot')
    orth_after_contract(r, a, b, ax_a, ax_b, ra, rb)
    mx_after_contract(r, a, b, ax_a, ax_b)
    if 'opalg' in a.tags and 'opalg' in b.tags:
        if not ax_a:
            r.tags['opalg'] = a.tags['opalg'].outer(b.tags['opalg'])
        elif a.ndim == 2 and b.ndim == 2 and ax_a == [1] and ax_b == [0]:
            r.tags['opalg'] = a.tags['opalg'].dot(b.tags['opalg'])
    return r


def diag_scaling(r, x, o, name, rev):
    """X * s, s[:, None] * Y, X / s, core * s[:, None, None, None] ...: multiplication by diag(s) (or its inverse) from the side the broadcast shape selects"""
    from . import mx as _mx
    a_, b_ = (o, x) if rev else (x, o)              # the expression is  a_ (op) b_
    for big, small, small_is_right in ((a_, b_, True), (b_, a_, False)):
        if name == 'truediv' and not small_is_right:
            continue                                    # s / X is not a scaling
        md = small.tags.get('mx')
        if md is None or len(md) != 1 or md[0][0] not in ('S', 'Sinv') or big.ndim < 2:
            continue
        if name == 'truediv':
            md = ((('Sinv' if md[0][0] == 'S' else 'S'), md[0][1], '', md[0][3]),)
        nz = [k for k, n_ in enumerate(small.shape) if not is_one(n_)]
        if len(nz) > 1:
            continue
        if nz:
            ax = nz[0] + (big.ndim - small.ndim)        # the axis of `big` the diagonal acts on
        elif small.tags.get('diag_side') == 'left' and is_one(big.shape[0]):
            ax = 0                                      # a 1 x 1 diagonal factor written as a column ( s[:, None] ): acts from the left
        elif small.tags.get('diag_side') == 'right' and is_one(big.shape[-1]):
            ax = big.ndim - 1
        elif is_one(big.shape[-1]):
            ax = big.ndim - 1                           # a 1 x 1 diagonal factor (rank-1 bond)
        elif is_one(big.shape[0]):
            ax = 0
        else:
            continue
        if ax == big.ndim - 1:
            rows = sz_prod(big.shape[:-1])
            base = unfolding_mx(big, rows)
            val = _mx.mul(base, md)
        elif ax == 0:
            rows = big.shape[0]
            base = unfolding_mx(big, rows)
            val = _mx.mul(md, base)
        else:
            continue
        if r.ndim == 2:
            r.tags['mx'] = val
        else:
            r.tags['mx_unf'] = (val, rows)
        return


def unfolding_mx(a, rows):
    """matrix expression of the matricisation of `a` with `rows` rows (leading axes | rest)"""
    from . import mx as _mx
    if a.ndim == 2 and sz_eq(a.shape[0], rows):
        return _mx.of(a)
    u = a.tags.get('mx_unf')
    if u is not None and sz_eq(u[1], rows):
        return u[0]
    root = a
    while root.tags.get('is_reshape') and root.parents:
        root = root.parents[0]
    CTX.keep.append(root)
    CTX.__dict__.setdefault('mx_roots', {})[id(root)] = root
    return _mx.src(('unf', id(root), str(Size.of(rows, CTX.atoms))))


def mx_after_contract(r, a, b, ax_a, ax_b):
    """matrix x matrix, matrix x (first axis of a tensor), (last axis of a tensor) x matrix: the result's unfolding is the product of the unfoldings"""
    from . import mx as _mx
    if len(ax_a) != 1:
        return
    i, j = ax_a[0], ax_b[0]
    if a.ndim == 2 and b.ndim == 2 and (i, j) == (1, 0) and 'expm_of' in a.tags and 'expm_of' in b.tags:
        # exp(c1 G) exp(c2 G) = exp((c1 + c2) G) for one and the same generator G
        sa, sb = a.tags['expm_of'].tags.get('scale'), b.tags['expm_of'].tags.get('scale')
        if sa is not None and sb is not None and sa[1] is sb[1]:
            ga = a.tags['expm_of']
            r.tags['expm_of'] = Arr(ga.shape, ga.legs, join_dtype(ga.dt, b.tags['expm_of'].dt), None, {'scale': (sa[0] + sb[0], sa[1])}, 'mul', parents=(sa[1],))
    if a.ndim == 2 and b.ndim == 2:
        ma = _mx.of(a) if i == 1 else _mx.T(_mx.of(a))
        mb = _mx.of(b) if j == 0 else _mx.T(_mx.of(b))
        r.tags['mx'] = _mx.mul(ma, mb)
    elif a.ndim == 2 and b.ndim > 2 and j == 0:
        ma = _mx.of(a) if i == 1 else _mx.T(_mx.of(a))
        r.tags['mx_unf'] = (_mx.mul(ma, unfolding_mx(b, b.shape[0])), r.shape[0])
    elif b.ndim == 2 and a.ndim > 2 and i == a.ndim - 1:
        mb = _mx.of(b) if j == 0 else _mx.T(_mx.of(b))
        rows = sz_prod(a.shape[:-1])
        r.tags['mx_unf'] = (_mx.mul(unfolding_mx(a, rows), mb), rows)
    if r.ndim == 2 and 'mx' in r.tags and 'orth' not in r.tags:
        if _mx.left_isometry(r.tags['mx']):
            r.tags['orth'] = 'LO'
        elif _mx.right_isometry(r.tags['mx']):
            r.tags['orth'] = 'RO'


def orth_after_contract(r, a, b, ax_a, ax_b, ra, rb):
    """(isometry) x (isometry) along the matching side stays an isometry -- used for RO/LO propagation through R-factor pushes"""
    r.tags['factors'] = (a, b)
    r.tags['contract_axes'] = (tuple(ax_a), tuple(ax_b))


def dot(a, b):
    a, b = as_arr(a), as_arr(b)
    if a.ndim == 0 or b.ndim == 0:
        return a * b
    if b.ndim == 1:
        return tensordot(a, b, axes=([a.ndim - 1], [0]))
    return tensordot(a, b, axes=([a.ndim - 1], [b.ndim - 2]))if b.ndim <= 2 or a.ndim <= 2 else _dot_nd(a, b)


def _dot_nd(a, b):
    r = tensordot(a, b, axes=([a.ndim - 1], [b.ndim - 2]))
    return r


def matmul(a, b):
    a, b = as_arr(a), as_arr(b)
    if a.ndim <= 2 and b.ndim <= 2:
        if a.ndim == 0 or b.ndim == 0:
            raise value_error('matmul: input operand does not have enough dimensions')
        return dot(a, b)
    if b.ndim == 1:          # a vector on the right is a matrix with one column: the last axis of a is contracted with it
        return tensordot(a, b, axes=([a.ndim - 1], [0]))
    if a.ndim == 1:
        return tensordot(a, b, axes=([0], [b.ndim - 2]))
    # stacked matrices: broadcast batch axes, contract last of a with second-to-last of b
    if not sz_eq(a.shape[-1], b.shape[-2]):
        raise value_error(f'matmul: mismatch in core dimension {a.shape} @ {b.shape}')
    check_contract(a, b, [a.ndim - 1], [b.ndim - 2], 'matmul')
    fa = Arr(a.shape[:-2], a.legs[:-2], a.dt, None)
    fb = Arr(b.shape[:-2], b.legs[:-2], b.dt, None)
    bs, bl = broadcast(fa, fb)
    return Arr(list(bs) + [a.shape[-2], b.shape[-1]], list(bl) + [a.legs[-2], b.legs[-1]], join_dtype(a.dt, b.dt), None, {}, 'matmul')


def as_arr(x):
    if isinstance(x, Arr):
        return x
    if isinstance(x, (int, float, complex)):
        return Arr((), [], 'complex' if isinstance(x, complex) else 'real', None, {'value': x}, 'const')
    if isinstance(x, Size):
        return Arr((), [], 'int', None, {'value': x}, 'size')
    if isinstance(x, (list, tuple)):
        return np_array(x)
    if x is None:
        raise Raised('TypeError', 'None is used as an array operand (a slot / variable that was never assigned)')
    raise AnalysisError(f'cannot treat {x!r} as an array at {CTX.interp.where() if CTX.interp else "?"}')


def np_sum(a, axis=None, **k):
    if isinstance(a, (list, tuple)):
        return sum(a)
    if axis is None:
        return scalar(a.dt, 'sum')
    ax = [axis] if isinstance(axis, int) else list(axis)
    ax = [x + a.ndim if x < 0 else x for x in ax]
    keep = [i for i in range(a.ndim) if i not in ax]
    r = Arr([a.shape[i] for i in keep], [a.legs[i] for i in keep], a.dt, None, {}, 'sum')
    CTX.event('sum-axis', array=a, axes=tuple(ax), legs=[a.legs[i] for i in ax])
    return r


def np_array(x, dtype=None, ndmin=0, **k):
    if isinstance(x, Arr):
        r = x.copy()
    elif isinstance(x, (int, float, complex, Size)):
        r = as_arr(x)
    elif type(x).__name__ == 'SymList':
        item = np_array(x.elem) if isinstance(x.elem, (list, tuple)) else as_arr(x.elem)
        hook = getattr(CTX, 'array_leg_hook', None)
        lead = hook([item], x.n) if hook else None
        r = Arr((x.n,) + tuple(item.shape), [lead if lead is not None else (() if is_one(x.n) else (opaque_leg(x.n, 'array'),))] + list(item.legs), item.dt, None,
                {'elements': [item], 'symbolic_length': x.n, 'sym_index': getattr(x, 'index', None)}, 'array')
    elif isinstance(x, (list, tuple)):
        if len(x) == 0:
            r = Arr((0,), [(opaque_leg(0),)], 'real', None)
        else:
            items = [np_array(e) if isinstance(e, (list, tuple)) else as_arr(e) for e in x]
            s0 = items[0].shape
            for it in items:
                if len(it.shape) != len(s0) or not all(sz_eq(p, q) for p, q in zip(it.shape, s0)):
                    raise value_error('setting an array element with a sequence. The requested array has an inhomogeneous shape')
            hook = getattr(CTX, 'array_leg_hook', None)
            lead = hook(items, len(x)) if hook else None
            r = Arr((len(x),) + tuple(s0), [lead if lead is not None else (() if len(x) == 1 else (opaque_leg(len(x), 'array'),))] + list(items[0].legs), join_dtype(*[i.dt for i in items]), None,
                    {'elements': items}, 'array')
    else:
        raise AnalysisError(f'np.array of {type(x).__name__} has no model')
    if dtype is not None:
        r = Arr(r.shape, r.legs, dtype_of(dtype), None, r.tags, 'array')
    while r.ndim < ndmin:
        r = Arr((1,) + r.shape, [()] + r.legs, r.dt, None, r.tags, 'array')
    return r
