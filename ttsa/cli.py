"""./check <ID> [--tier quick|thorough] [--replay FILE]

exit 0: every obligation of the property held on everything analysed
exit 1: VIOLATION line(s) printed (rule instance failed and is not a listed known finding)
exit 2: ANALYSIS-ERROR (the analysis itself could not be carried out) -- never a pass
"""
import importlib
import json
import os
import sys
import traceback

from .core import AnalysisError, Repo, write_error_evidence

CHECKS = {
    'C01': 'ttsa.p_c01', 'C02': 'ttsa.p_c02', 'C03': 'ttsa.p_c03', 'C04': 'ttsa.p_c04', 'C05': 'ttsa.p_c05',
    'C06': 'ttsa.p_c06', 'C07': 'ttsa.p_c07', 'C08': 'ttsa.p_c08', 'C09': 'ttsa.p_c09', 'C10': 'ttsa.p_c10',
    'C11': 'ttsa.p_c11', 'C12': 'ttsa.p_c12', 'C13': 'ttsa.p_c13', 'C14': 'ttsa.p_c14', 'C15': 'ttsa.p_c15',
    'C16': 'ttsa.p_c16', 'C17': 'ttsa.p_c17', 'C18': 'ttsa.p_c18', 'C19': 'ttsa.p_c19', 'C20': 'ttsa.p_c20',
}


def main(argv=None):
    argv = list(sys.argv[1:] if argv is None else argv)
    if not argv:
        print(__doc__)
        return 2
    prop = argv[0]
    tier = os.environ.get('VERIF_TIER') or 'quick'
    replay = None
    i = 1
    while i < len(argv):
        if argv[i] == '--tier':
            tier = argv[i + 1]; i += 2
        elif argv[i] == '--replay':
            replay = argv[i + 1]; i += 2
        else:
            print('unknown argument', argv[i]); return 2
    if tier not in ('quick', 'thorough'):
        tier = 'quick'
    if prop not in CHECKS:
        print(f'ANALYSIS-ERROR property={prop} no check registered')
        return 2
    try:
        mod = importlib.import_module(CHECKS[prop])
        repo = Repo()
        if replay:
            # re-derive one recorded finding on the current tree: exit 1 (and the VIOLATION line) iff the same rule fails on the same construct again
            info = json.load(open(replay))
            print('replaying finding:', json.dumps({k: info.get(k) for k in ('property', 'rule', 'where', 'construct', 'message')}, indent=1)[:1500])
            os.environ['TTSA_EVIDENCE_DIR'] = os.path.join(os.path.dirname(os.path.abspath(replay)), 'replay_evidence')
            from . import core
            core.EVIDENCE_DIR = os.environ['TTSA_EVIDENCE_DIR']
            run = mod.check(repo, tier)
            from .core import norm_text
            hit = [f for f in run.findings.values() if (f.prop, f.rule, f.where, norm_text(f.construct)) == (info.get('property'), info.get('rule'), info.get('where'), norm_text(info.get('construct', '')))]
            if hit:
                print(f'  [{hit[0].rule}] {hit[0].where}: {hit[0].message[:420]}')
                print(f'VIOLATION property={prop} replay={replay}')
                return 1
            print(f'replay: the recorded finding does not reproduce on the current tree ({len(run.findings)} other finding(s) in this run; run the check itself for those)')
            return 0
        run = mod.check(repo, tier)
        return run.finish()
    except AnalysisError as e:
        from . import core
        run = core.CURRENT_RUN
        if run is not None and run.prop == prop and run.findings and not replay:
            # part of the analysis could not be carried out, but rule instances decided before that failed: those verdicts stand
            run.note(f'ANALYSIS-ERROR in a later part of the check (not decided): {e}')
            print(f'ANALYSIS-ERROR property={prop} (partial) {e}')
            return run.finish()
        print(f'ANALYSIS-ERROR property={prop} {e}')
        write_error_evidence(prop, tier, str(e))
        return 2
    except Exception as e:      # a crash of the checker is never a verdict about the repository
        traceback.print_exc()
        print(f'ANALYSIS-ERROR property={prop} checker crashed: {type(e).__name__}: {e}')
        write_error_evidence(prop, tier, f'checker crashed: {type(e).__name__}: {e}')
        return 2


if __name__ == '__main__':
    sys.exit(main())
