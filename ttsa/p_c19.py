"""C19  Generator EDMD (DESIGN.md 3/C19): product-rule evaluation of the Kolmogorov generator on a product basis, and the per-snapshot contraction of
the derivative cores with the orthonormal cores in the reduced matrix.  data_driven/tgedmd.py is interpreted from its source over sympy scalars held in
object arrays (small concrete dimensions, every basis function an uninterpreted function of the coordinates); the oracle is sympy differentiating the product itself."""
import itertools
import math

import numpy as np
import sympy as sp

from .core import AnalysisError, Finding, Run, norm_text
from .interp import Fork, Frame, Interp, Raised, UnknownBool, UnknownTruth

MOD = 'data_driven.tgedmd'


class Fn:
    """a basis function: an uninterpreted smooth function of the coordinates"""

    def __init__(self, name, xs):
        self.name, self.xs = name, xs
        self.expr = sp.Function(name)(*xs)

    def __call__(self, x):
        return self.expr

    def gradient(self, x):
        return obj([sp.diff(self.expr, v) for v in self.xs])

    def hessian(self, x):
        return obj([[sp.diff(self.expr, v, w) for w in self.xs] for v in self.xs])

    def partial(self, x, i):
        return sp.diff(self.expr, self.xs[i])

    def partial2(self, x, i, j):
        return sp.diff(self.expr, self.xs[i], self.xs[j])


def obj(nested):
    a = np.empty(np.shape(nested) if not isinstance(nested, list) or nested else np.array(nested, dtype=object).shape, dtype=object)
    a[...] = np.array(nested, dtype=object)
    return a


class NpObject:
    """numpy restricted to object arrays of sympy expressions"""
    inf = math.inf

    def __getattr__(self, name):
        if name in ('dot', 'outer', 'inner', 'trace', 'kron', 'reshape', 'transpose', 'sum', 'tensordot', 'diag', 'remainder', 'prod', 'argsort', 'shape'):
            return getattr(np, name)
        raise AttributeError(name)

    @staticmethod
    def zeros(shape, dtype=None):
        a = np.empty(shape, dtype=object)
        a[...] = sp.Integer(0)
        return a

    @staticmethod
    def ones(shape, dtype=None):
        a = np.empty(shape, dtype=object)
        a[...] = sp.Integer(1)
        return a

    @staticmethod
    def array(x, dtype=None, order=None, copy=True, ndmin=0):
        # (entries are symbolic: the memory order and the requested dtype have no meaning for an object array)
        return np.array(x, dtype=object, ndmin=ndmin)

    @staticmethod
    def sqrt(x):
        if isinstance(x, np.ndarray):
            return np.vectorize(sp.sqrt, otypes=[object])(x)
        return sp.sqrt(x)

    @staticmethod
    def abs(x):
        if isinstance(x, np.ndarray):
            return np.vectorize(sp.Abs, otypes=[object])(x)
        return sp.Abs(x)

    absolute = abs

    @staticmethod
    def einsum(pattern, *ops):
        pattern = pattern.replace(' ', '')
        ins, out = pattern.split('->')
        ins = ins.split(',')
        sizes = {}
        for sub, o in zip(ins, ops):
            for ch, n in zip(sub, o.shape):
                sizes[ch] = n
        letters = sorted(sizes)
        res = np.empty([sizes[c] for c in out], dtype=object)
        res[...] = sp.Integer(0)
        for vals in itertools.product(*[range(sizes[c]) for c in letters]):
            env = dict(zip(letters, vals))
            term = sp.Integer(1)
            for sub, o in zip(ins, ops):
                term = term * o[tuple(env[c] for c in sub)]
            res[tuple(env[c] for c in out)] += term
        return res


class Dom:
    builtins = {'print': lambda *a, **k: None}

    def __init__(self):
        self.facts = []          # equalities assumed on the path being explored: (expression, value)

    def compare(self, op, left, right):
        """== / != of symbolic scalars: sympy's == is structural (f(x) == 0 is False whatever f is); here it is decided only when the difference vanishes
        identically or is a non-zero number, otherwise both outcomes are explored and the equality branch carries the assumption"""
        import ast as _ast
        if not isinstance(op, (_ast.Eq, _ast.NotEq)) or not (isinstance(left, sp.Basic) or isinstance(right, sp.Basic)):
            return None
        if not all(isinstance(v, (sp.Basic, int, float)) and not isinstance(v, bool) for v in (left, right)):
            return None
        d = sp.sympify(left) - sp.sympify(right)
        if d.is_number:
            eq = bool(sp.nsimplify(d) == 0)
        elif zero(d):
            eq = True
        else:
            b = UnknownBool(f'{left} == {right}')
            b.fact = (sp.sympify(left), sp.sympify(right), isinstance(op, _ast.Eq))
            return b
        return eq if isinstance(op, _ast.Eq) else not eq

    def on_branch(self, it, node, v, choice):
        f = getattr(v, 'fact', None)
        if f is not None and choice == f[2]:
            self.facts.append((f[0], f[1]))

    def truth(self, v):
        if isinstance(v, sp.Basic):
            if v is sp.true:
                return True
            if v is sp.false:
                return False
            raise UnknownTruth(str(v))
        return None


def assume(e, facts):
    """the expression under the equalities assumed on a path: the value of an uninterpreted function (or a symbol) is replaced, its derivatives are left alone
    (f(x) = 0 at a point says nothing about grad f(x))"""
    e = sp.sympify(e)
    for lhs, rhs in facts:
        if not isinstance(lhs, (sp.Symbol, sp.core.function.AppliedUndef)):
            lhs, rhs = rhs, lhs
        if not isinstance(lhs, (sp.Symbol, sp.core.function.AppliedUndef)):
            raise AnalysisError(f'a branch assumes {lhs} == {rhs}, which is not an assumption on one symbol or function value')
        keep = {d: sp.Dummy() for d in e.atoms(sp.Derivative)}
        back = {v: k for k, v in keep.items()}
        e = e.xreplace(keep).xreplace({lhs: rhs}).xreplace(back)
    return e


def run_paths(repo, qual, *args, **kwargs):
    """[(result, assumed equalities)] for every combination of outcomes of the tests the symbolic domain cannot decide"""
    out, stack = [], [[]]
    while stack:
        ch = stack.pop()
        if len(out) + len(stack) > 64:
            raise AnalysisError(f'{qual}: more than 64 paths')
        dom = Dom()
        try:
            out.append((run_fn(repo, qual, *args, _dom=dom, _choices=ch, **kwargs), list(dom.facts)))
        except Fork:
            stack.append(ch + [False])
            stack.append(ch + [True])
    return out


def run_fn(repo, qual, *args, _dom=None, _choices=None, **kwargs):
    it = Interp(repo, libs={'numpy': NpObject(), 'typing': object(), 'math': math}, domain=_dom or Dom(), intercept={'utils.progress': lambda it, *a, **k: 0.0})
    fn = repo.fn(qual)
    it.stack.append(Frame(fn, repo.modules[fn.mod], {}))
    if _choices is not None:
        it.choices = list(_choices)
    try:
        return it.call_fn(fn, list(args), kwargs)
    except Fork:
        if _choices is not None:
            raise
        raise AnalysisError(f'{qual}: undecidable test {it.fork_log[-1]}')
    except Raised as r:
        if getattr(r, 'native', False) and (r.exc_type in ('TypeError', 'AttributeError') or 'must be of integer' in r.message or 'object' in r.message):
            # dtype-related failure of real NumPy on object arrays of expressions: no verdict (shape errors are faithful and stay the program's errors)
            raise AnalysisError(f'{qual}: a library call failed in the symbolic domain ({r.exc_type}: {r.message}) at {r.where}')
        raise


_RNG = [sp.Rational(p_, q_) for p_, q_ in ((3, 7), (5, 3), (2, 5), (11, 4), (7, 6), (4, 9), (8, 5), (9, 7), (13, 11), (6, 13), (10, 3), (1, 4), (15, 8), (5, 12), (17, 9), (2, 11),
                                            (19, 6), (3, 10), (21, 13), (7, 15), (23, 14), (4, 17), (25, 12), (9, 16), (27, 19), (8, 21), (29, 18), (11, 20), (31, 22), (12, 23))]


def zero(e):
    """polynomial identity test of the derived residual: the residual is a polynomial in the parameter symbols and in the values / derivatives of the
    uninterpreted basis functions, which are independent indeterminates; it is evaluated exactly (rational arithmetic) at three fixed points with
    distinct rational coordinates (a non-zero polynomial of this degree vanishing at all of them would be an accident of measure zero)"""
    e = sp.sympify(e)
    fl = e.atoms(sp.Float)
    if fl:
        e = e.xreplace({f: sp.nsimplify(f, rational=True) for f in fl})      # literals such as 0.5 are exact rationals
    atoms = sorted(e.atoms(sp.Derivative) | {a for a in e.atoms(sp.core.function.AppliedUndef)} | e.free_symbols, key=sp.default_sort_key)
    for shift in (0, 7, 13):
        sub = {}
        for k, a in enumerate(atoms):
            v = _RNG[(k * 5 + shift) % len(_RNG)] + k // len(_RNG)
            if isinstance(a, sp.Symbol) and a.name.startswith('w'):
                v = v ** 2          # weights: squares, so that their square roots stay rational
            sub[a] = v
        val = e.xreplace(sub)
        val = sp.nsimplify(val) if not val.is_Rational else val
        if val != 0:
            return False
    return True


def check(repo, tier):
    run = Run('C19', tier, repo, 'data_driven/tgedmd.py interpreted from source over sympy scalars (every basis function an uninterpreted smooth function of the coordinates); the '
              'oracle differentiates the product of the basis functions itself.')
    run.rule('D1', 'generator_on_product equals  b . grad F + 1/2 (sigma sigma^T) : hess F  for F = prod_l f_l, and generator_on_product_reversible equals  sigma[:, i] . grad F, '
             'for any drift and non-square diffusion; _generator likewise for one function')
    run.rule('D2', 'reduced matrix: the per-snapshot contraction of the derivative cores with the orthonormal cores equals the dense definition '
             'M = sum_l sqrt(w_l) V[l,:]^T (L Psi(x_l))^T U S^-1 (non-reversible) and M = -1/2 sum_l w_l (grad Psi U S^-1)^T a_l (grad Psi U S^-1) (reversible), with reweighting')
    run.trusted = ['sympy differentiation / simplification', 'numpy object-array arithmetic']
    D, E = 2, 3                     # state dimension, number of noise terms (non-square diffusion)
    xs = [sp.Symbol(f'x{i}', real=True) for i in range(D)]
    bvec = obj([sp.Symbol(f'b{i}') for i in range(D)])
    sigma = obj([[sp.Symbol(f's{i}{j}') for j in range(E)] for i in range(D)])
    a = sigma.dot(sigma.T)
    ps = (2, 3, 4) if tier == 'thorough' else (2, 3)
    run.bounds = f'state dimension {D}, {E} noise terms, {ps} modes with 2 basis functions each, ranks 2, one and two snapshots'

    def gen(F):
        return sum(bvec[i] * sp.diff(F, xs[i]) for i in range(D)) + sp.Rational(1, 2) * sum(a[i, j] * sp.diff(F, xs[i], xs[j]) for i in range(D) for j in range(D))

    def F_(qual, rule, what, msg):
        fn = repo.fn(qual)
        return Finding('C19', rule, fn.where, what, msg, fn.file, fn.node.lineno)
    # ---------------------------------------------------------------- D1
    for p in ps:
        basis = [[Fn(f'f{l}_{k}', xs) for k in range(2)] for l in range(p)]
        for s in ([tuple([0] * p), tuple(k % 2 for k in range(p))] if tier == 'quick' else list(itertools.product(range(2), repeat=p))[:6]):
            prod = sp.Integer(1)
            for l in range(p):
                prod = prod * basis[l][s[l]].expr
            try:
                paths = run_paths(repo, f'{MOD}.generator_on_product', basis, s, obj(xs), bvec, sigma)
            except Raised as r:
                raise AnalysisError(f'generator_on_product raised {r} at {r.where}')
            for got, facts in paths:
                cond = (' on the path that assumes ' + ', '.join(f'{a_} == {b_}' for a_, b_ in facts)) if facts else ''
                ok = zero(assume(got - gen(prod), facts))
                run.oblige('D1', ('generator_on_product', p, s, cond), ok, sample={'rule': 'D1', 'modes': p, 'index': list(s), 'verdict': 'held' if ok else 'VIOLATED'} if s == tuple([0] * p) and not facts else None)
                if not ok:
                    run.add(F_(f'{MOD}.generator_on_product', 'D1', 'product rule', f'{p} modes, index tuple {s}{cond}: the returned expression differs from the generator applied to the product by {sp.expand(assume(got - gen(prod), facts))}'[:600]))
            for i in range(E):
                try:
                    paths = run_paths(repo, f'{MOD}.generator_on_product_reversible', basis, s, i, obj(xs), sigma)
                except Raised as r:
                    raise AnalysisError(f'generator_on_product_reversible raised {r} at {r.where}')
                want = sum(sigma[k, i] * sp.diff(prod, xs[k]) for k in range(D))
                for got, facts in paths:
                    cond = (' on the path that assumes ' + ', '.join(f'{a_} == {b_}' for a_, b_ in facts)) if facts else ''
                    ok = zero(assume(got - want, facts))
                    run.oblige('D1', ('generator_on_product_reversible', p, s, i, cond), ok)
                    if not ok:
                        run.add(F_(f'{MOD}.generator_on_product_reversible', 'D1', 'gradient form', f'{p} modes, index tuple {s}, noise direction {i}{cond}: returned {assume(got, facts)}, expected sigma[:, i] . grad(product) = {assume(want, facts)}'[:600]))
    f0 = Fn('f', xs)
    got = run_fn(repo, f'{MOD}._generator', f0, obj(xs), bvec, sigma)
    ok = zero(got - gen(f0.expr))
    run.oblige('D1', ('_generator',), ok)
    if not ok:
        run.add(F_(f'{MOD}._generator', 'D1', 'generator of one function', f'returned {got}, expected b.grad f + 1/2 a:hess f'))
    # ---------------------------------------------------------------- D2 reduced matrix
    # (the rule calls the private routine directly: it knows the interface  (u, s_inv, V, ranks, x, basis_list, sigma, b, reweight, ...)  only)
    rm_fn = repo.fn(f'{MOD}._reduced_matrix_tgedmd')
    if list(rm_fn.params)[:9] != ['u', 's_inv', 'V', 'ranks', 'x', 'basis_list', 'sigma', 'b', 'reweight']:
        raise AnalysisError(f'_reduced_matrix_tgedmd has the parameters {list(rm_fn.params)}: the rules D2 / D3 know the interface (u, s_inv, V, ranks, x, basis_list, sigma, b, reweight) only')
    for p, m, rev, rew in itertools.product(ps if tier == 'thorough' else (2, 3), (1, 2), (False, True), (False, True)):
        if tier == 'quick' and ((p == 3 and m == 2) or (p == 2 and m == 1 and not rew)):
            continue
        nk, r = 2, 2
        ranks = [1] + [r] * (p - 1) + [r, 1]           # ranks_u as built by amuset_hosvd: [1, r_1, ..., r_p, 1]
        # per-snapshot coordinates and functions
        xsl = [[sp.Symbol(f'x{i}_{l}', real=True) for i in range(D)] for l in range(m)]
        X = obj([[xsl[l][i] for l in range(m)] for i in range(D)])
        bl = obj([[sp.Symbol(f'b{i}_{l}') for l in range(m)] for i in range(D)])
        sig = obj([[[sp.Symbol(f's{i}{j}_{l}') for l in range(m)] for j in range(E)] for i in range(D)])

        class FnAt:
            """basis function usable at every snapshot: its value at coordinates x is the uninterpreted function of those coordinate symbols"""

            def __init__(self, name):
                self.name = name

            def at(self, x):
                return Fn(self.name, list(x))

            def __call__(self, x):
                return self.at(x)(x)

            def gradient(self, x):
                return self.at(x).gradient(x)

            def hessian(self, x):
                return self.at(x).hessian(x)
        basis = [[FnAt(f'f{l}_{k}') for k in range(nk)] for l in range(p)]
        u = [obj([[[sp.Symbol(f'u{k}_{a_}{i}{b_}') for b_ in range(ranks[k + 1])] for i in range(nk)] for a_ in range(ranks[k])]) for k in range(p)]
        rp = ranks[p]
        s_inv = obj([[sp.Symbol(f'si{a_}') if a_ == b_ else sp.Integer(0) for b_ in range(rp)] for a_ in range(rp)])
        V = obj([[sp.Symbol(f'V{l}_{c}') for c in range(rp)] for l in range(m)])
        w = obj([sp.Symbol(f'w{l}', positive=True) for l in range(m)]) if rew else None
        scen = f'_reduced_matrix_tgedmd(modes={p}, snapshots={m}, {"reversible" if rev else "non-reversible"}, {"reweighted" if rew else "unweighted"})'
        try:
            got = run_fn(repo, f'{MOD}._reduced_matrix_tgedmd', u, s_inv, V, ranks, X, basis, sig, b=None if rev else bl, reweight=w)
        except Raised as rr:
            # non-square diffusion, reweighting and both modes are inside the property's quantifier: an exception is a violation
            run.oblige('D2', (scen, 'raises'), False)
            fnr = rr.fn or repo.fn(f'{MOD}._reduced_matrix_tgedmd')
            run.add(Finding('C19', 'D2', fnr.where, f'{rr.exc_type}: {norm_text(rr.node, 120) if rr.node is not None else ""}', f'{scen}: raises {rr.exc_type}: {rr.message} (path: ' +
                            ' -> '.join(q for q, _, _ in (rr.path or [])[-3:]) + ')', fnr.file, getattr(rr.node, 'lineno', None)))
            continue
        # dense definition
        want = np.empty((rp, rp), dtype=object)
        want[...] = sp.Integer(0)
        for l in range(m):
            xl = xsl[l]
            al = obj([[sum(sig[i, k, l] * sig[j, k, l] for k in range(E)) for j in range(D)] for i in range(D)])
            wl = w[l] if rew else sp.Integer(1)
            # Psi U : contraction of the product basis with the orthonormal cores
            rows = {}
            for sidx in itertools.product(range(nk), repeat=p):
                prod = sp.Integer(1)
                for k in range(p):
                    prod = prod * sp.Function(f'f{k}_{sidx[k]}')(*xl)
                # U[s, :] = u_0[0, s0, :] u_1[:, s1, :] ... u_{p-1}[:, s_{p-1}, :]
                vec = [u[0][0, sidx[0], c] for c in range(ranks[1])]
                for k in range(1, p):
                    vec = [sum(vec[a_] * u[k][a_, sidx[k], c] for a_ in range(ranks[k])) for c in range(ranks[k + 1])]
                rows[sidx] = (prod, vec)
            if rev:
                G = [[sum(sp.diff(prod, xl[i]) * vec[c] for prod, vec in rows.values()) * s_inv[c, c] for c in range(rp)] for i in range(D)]
                for c1 in range(rp):
                    for c2 in range(rp):
                        want[c1, c2] += -sp.Rational(1, 2) * wl * sum(G[i][c1] * al[i, j] * G[j][c2] for i in range(D) for j in range(D))
            else:
                def genl(Fx):
                    return sum(bl[i, l] * sp.diff(Fx, xl[i]) for i in range(D)) + sp.Rational(1, 2) * sum(al[i, j] * sp.diff(Fx, xl[i], xl[j]) for i in range(D) for j in range(D))
                LU = [sum(genl(prod) * vec[c] for prod, vec in rows.values()) * s_inv[c, c] for c in range(rp)]
                for c1 in range(rp):
                    for c2 in range(rp):
                        want[c1, c2] += sp.sqrt(wl) * V[l, c1] * LU[c2]
        bad = []
        if not isinstance(got, np.ndarray) or got.shape != (rp, rp):
            bad.append(f'result has shape {getattr(got, "shape", None)}')
        else:
            for c1 in range(rp):
                for c2 in range(rp):
                    if not zero(got[c1, c2] - want[c1, c2]):
                        bad.append(f'entry ({c1},{c2}) differs from the dense definition')
        run.oblige('D2', (scen,), not bad, sample={'rule': 'D2', 'scenario': scen, 'verdict': 'held' if not bad else 'VIOLATED'})
        if bad:
            which = f'{MOD}._contraction_step_dPsi_u' if rev else f'{MOD}._contraction_step_LPsi_u'
            run.add(F_(f'{MOD}._reduced_matrix_tgedmd', 'D2', f'reduced matrix ({"reversible" if rev else "non-reversible"}, {"reweighted" if rew else "unweighted"})', f'{scen}: ' + '; '.join(bad[:2]) +
                       f' (contraction steps in {which})'))
    hosvd_driver_rule(run, repo, tier)
    run.floor('obligations decided', run.obligations, 20)
    return run


def hosvd_driver_rule(run, repo, tier):
    """D3: the driver amuset_hosvd, interpreted over the Layer-2 array domain with _reduced_matrix_tgedmd replaced by a recorder: what reaches the decompositions and
    the reduced matrix (the formulas inside the reduced matrix are D2)."""
    from . import arr as A
    from . import l2, l2rules
    from .arr import Arr
    from .p_c15 import BasisFn
    run.rule('D3', 'the HOSVD driver: every mode is decomposed by utils.truncated_svd with the caller\'s threshold, max_rank and rel_threshold ("the same singular-value cut"); the reduced '
             'matrix receives the orthonormal cores of all modes, diag(1/s) and the transposed right factor V of the LAST decomposition -- unmodified -- and the caller\'s data, '
             'diffusion, drift and weights; the weights enter the last mode only')
    entry = f'{MOD}.amuset_hosvd'
    THR = 3.5e-3
    for p, rew, rev, rel in itertools.product((2, 3) if tier == 'thorough' else (2,), (False, True), (False, True), (False, True)):
        if tier == 'quick' and rew and rev and rel:
            continue
        scen = f'amuset_hosvd({p} modes, {"reweighted" if rew else "unweighted"}, {"reversible" if rev else "with drift"}, rel_threshold={rel})'
        holder = {}

        def fake_reduced(it, u, s_inv, V, ranks, x, basis_list, sigma, b=None, reweight=None, output_freq=None):
            holder['sc'].rec = dict(u=u, s_inv=s_inv, V=V, ranks=ranks, x=x, basis=basis_list, sigma=sigma, b=b, reweight=reweight)
            n = s_inv.shape[0] if isinstance(s_inv, Arr) else 1
            return Arr([n, n], None, 'real', None, {'role': 'M'}, 'reduced_matrix')

        def nearest_factors(a):
            """the decomposition factors an array is computed from, not looking through them: {(uid, role)}"""
            out, seen, todo = set(), set(), [a]
            while todo:
                x_ = todo.pop()
                if not isinstance(x_, Arr) or id(x_) in seen:
                    continue
                seen.add(id(x_))
                pv_ = x_.tags.get('prov')
                if isinstance(pv_, dict) and 'svd' in pv_ and pv_.get('role') in ('u', 's', 'v'):
                    out.add((pv_['svd'], pv_['role']))
                    continue
                if isinstance(pv_, dict) and 'qr' in pv_ and pv_.get('role') in ('q', 'r'):
                    out.add((('qr', pv_['qr']), pv_['role']))
                    continue
                todo.extend(x_.parents)
                todo.extend(x_.buf.inputs)
            return out

        def body(sc):
            holder['sc'] = sc
            sc.rec = {}
            m, d, d2 = sc.atom('m'), sc.atom('d'), sc.atom('dn')
            data = Arr([d, m], None, 'real', None, {'role': 'data'}, 'data_matrix')
            sigma = Arr([d, d2, m], None, 'real', None, {'role': 'sigma'}, 'sigma')
            b = None if rev else Arr([d, m], None, 'real', None, {'role': 'b'}, 'b')
            w = Arr([m], None, 'real', None, {'role': 'w'}, 'reweight') if rew else None
            basis = [[BasisFn(i, k) for k in range(2 + (i % 2))] for i in range(p)]
            sc.inputs = (data, sigma, b, w, basis)
            sc.rho = sc.atom('rho', free=True)
            return sc.call(entry, data, basis, sigma, b=b, reweight=w, threshold=THR, max_rank=sc.rho, return_option='eigenvectors', rel_threshold=rel)
        for ch, sc, res, exc in l2.explore(repo, body, typed=False, intercept={f'{MOD}._reduced_matrix_tgedmd': fake_reduced}):
            fn = repo.fn(entry)
            if exc is not None:
                run.oblige('D3', (entry, scen), False)
                l2rules.raised_finding(run, 'C19', 'D3', repo, entry, scen, exc)
                continue
            data, sigma, b, w, basis = sc.inputs
            bad = []
            calls = [e for e in sc.events('call') if e['callee'].name == 'truncated_svd']
            if not calls:
                raise AnalysisError(f'{scen}: utils.truncated_svd is not called: the way the modes are decomposed is not one this rule recognises')
            names = list(calls[0]['callee'].params)
            for e in calls:
                argd = dict(zip(names, e['args']))
                argd.update(e['kwargs'])
                thr_, cap_, rel_ = argd.get('threshold', 0), argd.get('max_rank', math.inf), argd.get('rel_truncation', True)
                if thr_ != THR or not (cap_ is sc.rho or cap_ == sc.rho) or rel_ is not rel:
                    bad.append(f'truncated_svd is called with threshold={thr_}, max_rank={cap_}, rel_truncation={rel_} instead of the caller\'s {THR}, {sc.rho}, {rel}')
            if len(calls) != p:
                bad.append(f'{len(calls)} decompositions for {p} modes')
            svds = sc.events('svd')
            rec = sc.rec
            if not rec:
                raise AnalysisError(f'{scen}: _reduced_matrix_tgedmd is not called')
            if svds and not bad:
                last = svds[-1]
                # V: the transposed right factor of the last decomposition, never written to
                V = rec['V']
                root, hops, chain = V, 0, [V]
                while isinstance(root, Arr) and root.origin in ('transpose', 'copy', 'getitem', 'conj') and root.parents and hops < 6:
                    root, hops = root.parents[0], hops + 1
                    chain.append(root)
                pv = root.tags.get('prov') if isinstance(root, Arr) else None
                if not (isinstance(pv, dict) and pv.get('svd') == last['uid'] and pv.get('role') == 'v'):
                    # not a view of the right factor: a product of it with isometric factors of a pre-factorisation (v = w q^T) is the right factor of the unfolding as well
                    nf = nearest_factors(V)
                    if (last['uid'], 'v') in nf and all(role == 'q' for (uid_, role) in nf - {(last['uid'], 'v')}):
                        pass
                    elif any(role in ('s', 'u', 'r') for (uid_, role) in nf) or not nf:
                        bad.append(f'V handed to the reduced matrix is computed from {sorted(str(x_) for x_ in nf) or getattr(root, "origin", root)}: not the right factor of the last decomposition')
                    else:
                        raise AnalysisError(f'{scen}: the matrix V handed to the reduced matrix is computed from {sorted(str(x_) for x_ in nf)} in a way this rule does not follow')
                else:
                    if any(isinstance(c_, Arr) and (c_.buf.writes or c_.tags.get('stores') or c_.tags.get('inplace_ops')) for c_ in chain):
                        bad.append('the right factor V of the last decomposition is modified in place before it is handed to the reduced matrix (it is no longer an isometry)')
                    if not (isinstance(V, Arr) and V.ndim == 2 and A.sz_eq(V.shape[0], data.shape[1])):
                        bad.append(f'V has shape {getattr(V, "shape", None)}: its rows are not the snapshots')
                if nearest_factors(rec['s_inv']) != {(last['uid'], 's')}:
                    bad.append('s_inv is not computed from the singular values of the last decomposition (only)')
                for name, want in (('x', data), ('sigma', sigma), ('b', b), ('reweight', w)):
                    if rec[name] is not want:
                        bad.append(f'the reduced matrix receives {rec[name]!r:.60} as `{name}` instead of the caller\'s argument')
                u = rec['u']
                if not (isinstance(u, list) and len(u) == p):
                    bad.append(f'{len(u) if isinstance(u, list) else "?"} orthonormal cores for {p} modes')
                else:
                    for k, c in enumerate(u):
                        anc_k = A.ancestors([c])
                        if nearest_factors(c) != {(svds[k]['uid'], 'u')}:
                            bad.append(f'orthonormal core {k} is not the left factor of the decomposition of mode {k}')
                        # the weights enter the last mode only
                        if rew and any(a_ is w for a_ in anc_k.values()) != (k == p - 1):
                            bad.append(f'the weights {"do not enter" if k == p - 1 else "enter"} the core of mode {k}')
            # the reduced matrix of the non-reversible generator is not symmetric: its eigenpairs are complex in general (rotational drift) and are returned as they are
            if not rev:
                for e in sc.events('real-part'):
                    pv_ = e['array'].tags.get('prov')
                    if isinstance(pv_, dict) and 'eig' in pv_ and e.get('fn') is not None and e['fn'].mod == MOD:
                        bad.append(f'the eigen{"values" if pv_.get("role") == "w" else "vectors"} of the reduced matrix are replaced by their real parts (complex-conjugate pairs of a generator with '
                                   f'rotational drift collapse to a double real value)')
            run.oblige('D3', (entry, scen, tuple(ch)), not bad, sample={'rule': 'D3', 'scenario': scen, 'decompositions': len(calls)} if not rew and not rev and not rel else None)
            if bad:
                run.add(Finding('C19', 'D3', fn.where, 'HOSVD driver', f'{scen}: ' + '; '.join(sorted(set(bad))[:3]), fn.file, fn.node.lineno))
