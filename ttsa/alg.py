"""TT-level algebra domain (DESIGN.md 2.3): tensor trains are terms of a small free algebra.

Operators are polynomials in one symbol A with scalar (sympy) coefficients; vectors are linear combinations
sum_j c_j A^k atom_j of opaque atoms (initial value, Solve(op, rhs), ...).  Truncation (`ortho`) is the identity on the
term ("without effective truncation") and is logged; normalisation divides by an uninterpreted norm symbol.
The integrators of the repository are *interpreted from their source* over these terms (ttsa.interp); the result is
compared with the textbook recurrence built from the same constructors.
"""
import hashlib

import sympy as sp

from .interp import Raised


def S(c):
    """exact scalar: python floats such as 0.5 become rationals"""
    if isinstance(c, float):
        return sp.nsimplify(c, rational=True)
    if isinstance(c, (int, sp.Basic)):
        c = sp.sympify(c)
        if c.has(sp.Float):
            c = sp.nsimplify(c, rational=True)
        return c
    if isinstance(c, complex):
        return sp.nsimplify(c.real, rational=True) + sp.I * sp.nsimplify(c.imag, rational=True)
    raise TypeError(f'not a scalar: {c!r}')


def is_scalar(c):
    return isinstance(c, (int, float, complex, sp.Basic)) and not isinstance(c, bool)


class Log:
    def __init__(self):
        self.events = []

    def add(self, *e):
        self.events.append(e)


class OpT:
    """operator: polynomial in A"""
    order = 3

    def __init__(self, poly, log, name='op'):
        self.poly = {k: sp.expand(v) for k, v in poly.items() if sp.expand(v) != 0}
        self.log = log
        self.row_dims = ['m0', 'm1', 'm2']
        self.col_dims = ['m0', 'm1', 'm2']
        self.touched = []

    def key(self):
        return tuple(sorted((k, sp.srepr(sp.nsimplify(sp.expand(v), rational=True))) for k, v in self.poly.items()))

    def copy(self):
        return OpT(self.poly, self.log)

    def __add__(self, o):
        if not isinstance(o, OpT):
            raise TypeError('operator + non-operator')
        p = dict(self.poly)
        for k, v in o.poly.items():
            p[k] = p.get(k, 0) + v
        return OpT(p, self.log)

    def __sub__(self, o):
        return self + (-1) * o

    def __mul__(self, c):
        if not is_scalar(c):
            raise TypeError('operator * non-scalar')
        c = S(c)
        return OpT({k: v * c for k, v in self.poly.items()}, self.log)

    __rmul__ = __mul__

    def dot(self, o):
        if isinstance(o, OpT):
            p = {}
            for k1, v1 in self.poly.items():
                for k2, v2 in o.poly.items():
                    p[k1 + k2] = p.get(k1 + k2, 0) + v1 * v2
            return OpT(p, self.log)
        if isinstance(o, VecT):
            nf = {}
            for k1, v1 in self.poly.items():
                for (k2, a), v2 in o.nf.items():
                    nf[(k1 + k2, a)] = nf.get((k1 + k2, a), 0) + v1 * v2
            return VecT(nf, self.log)
        raise TypeError('operator applied to a non tensor train')

    __matmul__ = dot

    def ortho(self, threshold=0, max_rank=None):
        self.log.add('trunc-op', self.key())
        self.touched.append('ortho')
        return self

    def norm(self, p=2):
        return sp.Function('opnorm')(sp.Integer(p), sp.Symbol('OP' + hashlib.md5(repr(self.key()).encode()).hexdigest()[:8]))

    def __eq__(self, o):
        return self is o

    def __hash__(self):
        return id(self)


class VecT:
    """vector: sum of coeff * A^k atom"""
    order = 3

    def __init__(self, nf, log):
        self.nf = {}
        for k, v in nf.items():
            v = sp.expand(v)
            if v != 0:
                self.nf[k] = v
        self.log = log
        self.touched = []
        self.row_dims = ['m0', 'm1', 'm2']
        self.col_dims = [1, 1, 1]

    @staticmethod
    def atom(name, log):
        return VecT({(0, ('x', name)): sp.Integer(1)}, log)

    def key(self):
        return tuple(sorted((str(k), sp.srepr(sp.nsimplify(sp.expand(v), rational=True))) for k, v in self.nf.items()))

    def same(self, o):
        if not isinstance(o, VecT):
            return False
        keys = set(self.nf) | set(o.nf)
        for k in keys:
            d = sp.simplify(self.nf.get(k, 0) - o.nf.get(k, 0))
            if d != 0:
                return False
        return True

    def copy(self):
        return VecT(self.nf, self.log)

    def __add__(self, o):
        if not isinstance(o, VecT):
            raise TypeError('tensor train + non tensor train')
        nf = dict(self.nf)
        for k, v in o.nf.items():
            nf[k] = nf.get(k, 0) + v
        return VecT(nf, self.log)

    def __sub__(self, o):
        return self + (-1) * o.copy()

    def __mul__(self, c):
        if not is_scalar(c):
            raise TypeError('tensor train * non-scalar')
        c = S(c)
        return VecT({k: v * c for k, v in self.nf.items()}, self.log)

    __rmul__ = __mul__

    def ortho(self, threshold=0, max_rank=None):
        # in place in the repository: the object itself is truncated (identity on the term) and returned
        self.log.add('trunc', id(self), threshold, max_rank)
        self.touched.append('ortho')
        return self

    def ortho_left(self, *a, **k):
        self.touched.append('ortho_left')
        return self

    def ortho_right(self, *a, **k):
        self.touched.append('ortho_right')
        return self

    def norm(self, p=2):
        if p not in (1, 2):
            raise Raised('ValueError', 'p must be 1 or 2')
        name = 'V' + hashlib.md5(repr(self.key()).encode()).hexdigest()[:8]
        self.log.add('norm', p, self.key())
        return sp.Function('norm')(sp.Integer(p), sp.Symbol(name, positive=True))

    def dot(self, o):
        raise TypeError('vector.dot: not supported in this algebra')

    def __eq__(self, o):
        return self is o

    def __hash__(self):
        return id(self)

    def __repr__(self):
        return ' + '.join(f'({v})*A^{k[0]}*{k[1]}' for k, v in sorted(self.nf.items(), key=str)) or '0'


def solve(op, rhs, log):
    """what sle.als / sle.mals denote: the solution of op y = rhs (independent of the initial guess)"""
    return VecT({(0, ('solve', op.key(), rhs.key())): sp.Integer(1)}, log)


def normalized(v, p):
    return (1 / v.norm(p=p)) * v


class FakeNp:
    inf = sp.oo
    pi = sp.pi

    @staticmethod
    def abs(x):
        return sp.Abs(x)

    @staticmethod
    def amin(x):
        return sp.Min(*x)

    min = amin

    @staticmethod
    def amax(x):
        return sp.Max(*x)

    max = amax

    @staticmethod
    def sqrt(x):
        return sp.sqrt(x)

    @staticmethod
    def isclose(a, b, *x, **k):
        """tolerance test: decided for numbers and for identical terms; otherwise both outcomes are explored and neither says anything about equality"""
        if all(isinstance(v, (int, float)) for v in (a, b)):
            import numpy as _np
            return bool(_np.isclose(a, b, *x, **k))
        if sp.simplify(sp.sympify(a) - sp.sympify(b)) == 0:
            return True
        from .fakelib import _tolerance_test
        return _tolerance_test('np.isclose', x, k)

    allclose = isclose


class FakeTime:
    @staticmethod
    def time():
        return 0.0
