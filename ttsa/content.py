"""Entry-level content of symbolic arrays: what is stored at a (partly symbolic) position of an array that was assembled by block / point-wise stores,
comprehensions, np.array of nested lists, transposes, same-shape reshapes and selections.

`entry(arr, idx)` returns
    ('zero',)                          the position is never written (array allocated by np.zeros)
    ('num', c)                         a literal number
    ('basis', label, (role, point))    value of the basis function `label` at the data point `point` of the input array with that role
    ('delta', i, j)                    entry of an identity matrix
    None                               the analysis cannot tell (unknown provenance)  -- callers must treat this as "no verdict", never as a defect

Positions are ints, Sizes, or *query symbols* (SymIdx objects created by the caller: a generic snapshot index).  A store made inside a loop over a symbolic
range (`for j in range(m): a[j, :, 0, j] = ...`, or its point-wise form `a[jj, :, 0, jj] = V` with jj = np.arange(m)) covers the query position (Q, ., ., Q)
with the loop index bound to Q, and does not cover (Q, ., ., Q') for a different query symbol Q' (generic positions are pairwise different and different
from every constant)."""
from . import arr as A
from .arr import Arr, SymIdx, SymOff
from .shape import Size, sz_eq

UNKNOWN = None


def is_query(i):
    return isinstance(i, SymIdx)


def idx_eq(a, b):
    """True / False / None for two positions (ints, Sizes, query symbols)"""
    if is_query(a) or is_query(b):
        if is_query(a) and is_query(b):
            return a is b
        return False            # a generic position differs from every constant
    try:
        return bool(sz_eq(a, b))
    except Exception:
        return None


def subst(i, env):
    """apply the loop-index binding to a stored index"""
    if isinstance(i, SymIdx):
        return env.get(id(i), i)
    if isinstance(i, SymOff):
        b = env.get(id(i.base), i.base)
        if sz_eq(i.off, 0):
            return b
        if isinstance(b, SymIdx):
            return SymOff(b, i.off)
        return b + i.off
    return i


def covers(sel_axis, q, n, env):
    """does one axis of a store selection cover position q?  returns (True/False/None, relative index inside the selection or None, new env)"""
    kind = sel_axis[0]
    if kind == 'all':
        return True, q, env
    if kind == 'range':
        lo, hi = sel_axis[1], sel_axis[2]
        if is_query(q):
            if sz_eq(lo, 0) and sz_eq(hi, n):
                return True, q, env
            return None, None, env
        if all(isinstance(v, int) for v in (lo, hi, q)):
            inside = lo <= q < hi
            return inside, (q - lo if inside else None), env
        at = A.CTX.atoms
        ge_lo = at.le(lo, q)
        lt_hi = at.le(Size.of(q, at) + 1, hi)
        if ge_lo and lt_hi:
            return True, q - lo, env
        if at.le(hi, q) or at.le(Size.of(q, at) + 1, lo):
            return False, None, env
        return None, None, env
    if kind == 'int':
        i = sel_axis[1]
        base = i if isinstance(i, SymIdx) else (i.base if isinstance(i, SymOff) else None)
        if base is not None and id(base) not in env and not getattr(base, 'is_query', False):
            # an unbound loop index: bind it so that the stored index equals q  (only offset 0 and query / in-range positions are handled)
            off = 0 if isinstance(i, SymIdx) else i.off
            if is_query(q) and sz_eq(off, 0):
                env = dict(env)
                env[id(base)] = q
                return True, None, env
            if not is_query(q):
                env = dict(env)
                env[id(base)] = q - off
                return True, None, env
            return None, None, env
        j = subst(i, env)
        if isinstance(j, SymOff):
            return None, None, env
        e = idx_eq(j, q)
        return e, None, env
    return None, None, env


def root_stores(a):
    """the store log of the allocation `a` is a view of (same buffer), or None"""
    v, seen = a, 0
    while isinstance(v, Arr) and seen < 20:
        seen += 1
        if 'stores' in v.tags or v.tags.get('alloc') in ('zeros', 'ones', 'empty'):
            return v
        if v.parents and v.parents[0].buf is v.buf and all(sz_eq(x, y) for x, y in zip(v.shape, v.parents[0].shape)) and len(v.shape) == len(v.parents[0].shape):
            v = v.parents[0]
            continue
        break
    return None


def _operand_entry(o, a, idx, env):
    """entry of an operand of an element-wise operation whose result has the shape of `a` (NumPy broadcasting: trailing axes, unit axes repeat)"""
    if isinstance(o, (int, float, complex)) and not isinstance(o, bool):
        return ('num', o)
    if not isinstance(o, Arr):
        return UNKNOWN
    oi = idx[len(idx) - o.ndim:] if o.ndim else []
    oi = [0 if A.is_one(n) and not A.is_one(m_) else q for q, n, m_ in zip(oi, o.shape, a.shape[len(a.shape) - o.ndim:])]
    return entry(o, oi, env)


def entry(a, idx, env=None, _before=None):
    """_before = n: the content the array had before the n-th write into its buffer (used to undo whole-array in-place operations)"""
    env = env or {}
    if isinstance(a, (int, float, complex)):
        return ('num', a) if not idx else UNKNOWN
    if not isinstance(a, Arr):
        return UNKNOWN
    idx = list(idx)
    ops = a.tags.get('inplace_ops')
    if ops and _before is None and a.ndim == len(idx):
        # x op= v  on a computed array: every write into the buffer must be one of these whole-array operations, applied in order to the original content
        if len(a.buf.writes) != len(ops) or [n_ for _, _, n_ in ops] != list(range(1, len(ops) + 1)):
            return UNKNOWN
        cur = entry(a, idx, env, _before=0)
        for name, o, _n in ops:
            oe = _operand_entry(o, a, idx, env)
            if name == 'mul':
                cur = prod_([cur, oe])
            elif name == 'add':
                cur = sum_([cur, oe])
            else:
                return UNKNOWN
        return cur
    if a.ndim != len(idx):
        # numpy broadcasting of a value with fewer axes: leading positions are ignored
        if a.ndim < len(idx):
            idx = idx[len(idx) - a.ndim:]
        else:
            return UNKNOWN
    # ---- element-wise products / sums of values that have not been written to since
    ex = a.tags.get('expr')
    if ex is not None and ex[0] in ('mul', 'add') and a.origin == ex[0] and (not a.buf.writes or _before == 0):
        parts = [_operand_entry(o, a, idx, env) for o in ex[1]]
        return prod_(parts) if ex[0] == 'mul' else sum_(parts)
    # ---- leaves
    if 'basis' in a.tags and a.ndim == 1 and a.tags.get('vectorised'):
        # a basis function CALLED ON THE WHOLE DATA MATRIX: component idx[0] of f(x).  This is f(x[:, j]) only for functions that happen to be written
        # column-wise; a Function R^d -> R defined at a point (e.g. t -> sum(t**2)) reduces over all snapshots.  The two are kept apart.
        pt = point(a.tags.get('point'), env)
        if pt is None:
            return UNKNOWN
        return ('basis', tuple(a.tags['basis']) + ('called on the whole data matrix, component', str(idx[0])), pt)
    if a.ndim == 0:
        if 'basis' in a.tags:
            return ('basis', a.tags['basis'], point(a.tags.get('point'), env))
        if 'value' in a.tags and isinstance(a.tags['value'], (int, float, complex)):
            return ('num', a.tags['value'])
        if not (a.origin == 'getitem' and 'sel_of' in a.tags):
            return UNKNOWN
    if a.tags.get('const') == 'eye' and a.ndim == 2 and a.origin in ('eye', 'transpose', 'copy', 'astype'):
        return ('delta', idx[0], idx[1])
    # ---- outer products and contractions over a concrete index
    if 'outer' in a.tags and len(idx) == 2:
        u, v = a.tags['outer']
        if isinstance(u, Arr) and isinstance(v, Arr) and u.ndim == 1 and v.ndim == 1:
            return prod_([entry(u, [idx[0]], env), entry(v, [idx[1]], env)])
    if a.origin == 'tensordot' and 'factors' in a.tags and 'contract_axes' in a.tags:
        x, y = a.tags['factors']
        ax_x, ax_y = a.tags['contract_axes']
        if isinstance(x, Arr) and isinstance(y, Arr) and len(ax_x) == 1:
            n = x.shape[ax_x[0]]
            if isinstance(n, int) or (hasattr(n, 'is_const') and n.is_const()):
                n = int(n) if isinstance(n, int) else int(n.const())
                rx = [k for k in range(x.ndim) if k not in ax_x]
                ry = [k for k in range(y.ndim) if k not in ax_y]
                if len(idx) == len(rx) + len(ry):
                    terms = []
                    for t in range(n):
                        ix = [None] * x.ndim
                        iy = [None] * y.ndim
                        for pos, k in enumerate(rx):
                            ix[k] = idx[pos]
                        for pos, k in enumerate(ry):
                            iy[k] = idx[len(rx) + pos]
                        ix[ax_x[0]] = t
                        iy[ax_y[0]] = t
                        terms.append(prod_([entry(x, ix, env), entry(y, iy, env)]))
                    return sum_(terms)
            return UNKNOWN
    # ---- arrays assembled by stores
    alloc = root_stores(a)
    if alloc is not None and alloc.tags.get('stores_incomplete'):
        return UNKNOWN          # written through a view whose selection does not translate into the array's own coordinates
    if alloc is not None and alloc.tags.get('alloc') in ('zeros', 'ones', 'empty') and (alloc is a or alloc.buf is a.buf):
        added = []
        for st in reversed(alloc.tags.get('stores', [])):
            if st.get('mode') == 'add':
                e2, rel, ok = env, [], True
                for ax, s_ in enumerate(st['sel']):
                    c, r, e2 = covers(s_, idx[ax], alloc.shape[ax], e2)
                    if c is None:
                        return UNKNOWN
                    if not c:
                        ok = False
                        break
                    if s_[0] != 'int':
                        rel.append(r)
                if ok:
                    added.append(entry(st['value'], rel, e2) if isinstance(st['value'], Arr) else ('num', st['value']))
                continue
            break
        if added:
            base = [s_ for s_ in alloc.tags.get('stores', []) if s_.get('mode') != 'add']
            if base or alloc.tags.get('alloc') != 'zeros':
                return _fold_stores(alloc, idx, env)          # accumulation on top of explicit stores
            return sum_(added)
        if any(st.get('mode') not in (None, 'set', 'add') for st in alloc.tags.get('stores', [])):
            return _fold_stores(alloc, idx, env)
        for st in reversed(alloc.tags.get('stores', [])):
            e2, rel, ok = env, [], True
            for ax, s in enumerate(st['sel']):
                c, r, e2 = covers(s, idx[ax], alloc.shape[ax], e2)
                if c is None:
                    return UNKNOWN
                if not c:
                    ok = False
                    break
                if s[0] != 'int':
                    rel.append(r)
            if not ok:
                continue
            if st.get('mode') not in (None, 'set'):
                return UNKNOWN
            return entry(st['value'], rel, e2) if isinstance(st['value'], Arr) or not isinstance(st['value'], (int, float, complex)) else ('num', st['value'])
        return _initial(alloc)
    # ---- opaque input arrays that carry a name: the entry is that array's entry
    if a.origin != 'getitem' and not a.tags.get('is_reshape') and ('element' in a.tags or 'role' in a.tags) and 'stores' not in a.tags:
        return ('src', (a.tags.get('element', a.tags.get('role')), id(a)), tuple(idx))
    # ---- reshape that keeps the shape, or only inserts / removes axes of size one
    if a.tags.get('is_reshape') and a.parents:
        p = a.parents[0]
        if len(p.shape) == len(a.shape) and all(sz_eq(x, y) for x, y in zip(p.shape, a.shape)):
            return entry(p, idx, env)
        nz_a = [k for k, n in enumerate(a.shape) if not A.is_one(n)]
        nz_p = [k for k, n in enumerate(p.shape) if not A.is_one(n)]
        if len(nz_a) == len(nz_p) and all(sz_eq(a.shape[x], p.shape[y]) for x, y in zip(nz_a, nz_p)):
            pidx = [0] * p.ndim
            for x, y in zip(nz_a, nz_p):
                pidx[y] = idx[x]
            return entry(p, pidx, env)
        if all(isinstance(n, int) for n in tuple(a.shape) + tuple(p.shape)) and all(isinstance(i, int) for i in idx):
            # concrete shapes and a concrete position: C-order re-indexing
            flat = 0
            for i, n in zip(idx, a.shape):
                flat = flat * n + i
            pidx = []
            for n in reversed(p.shape):
                pidx.append(flat % n)
                flat //= n
            return entry(p, list(reversed(pidx)), env)
        return UNKNOWN
    # ---- np.array of (nested) lists / comprehensions
    if a.origin == 'array' and 'elements' in a.tags:
        els = a.tags['elements']
        if 'symbolic_length' in a.tags:
            j = a.tags.get('sym_index')
            e2 = dict(env)
            if j is not None:
                e2[id(j)] = idx[0]
            return entry(els[0], idx[1:], e2)
        if isinstance(idx[0], int) and 0 <= idx[0] < len(els):
            return entry(els[idx[0]], idx[1:], env)
        return UNKNOWN
    # ---- selections
    so = a.tags.get('sel_of')
    if so is not None and a.origin == 'getitem':
        p = so[0]
        pidx, k = [], 0
        for s_ in so[1]:
            if s_[0] == 'all':
                pidx.append(idx[k]); k += 1
            elif s_[0] == 'range':
                if is_query(idx[k]):
                    return UNKNOWN
                pidx.append(idx[k] + s_[1]); k += 1
            elif s_[0] == 'int':
                pidx.append(subst(s_[1], env))
            else:
                return UNKNOWN
        if k != len(idx):
            return UNKNOWN
        return entry(p, pidx, env)
    # ---- views
    if a.parents:
        p = a.parents[0]
        if a.origin == 'transpose' and 'perm' in a.tags:
            perm = a.tags['perm']
            pidx = [None] * len(perm)
            for ax, src in enumerate(perm):
                pidx[src] = idx[ax]
            return entry(p, pidx, env)
        if a.origin in ('copy', 'astype', 'asarray', 'ascontiguousarray'):
            return entry(p, idx, env)
        if a.origin == 'reshape' and len(p.shape) == len(a.shape) and all(sz_eq(x, y) for x, y in zip(p.shape, a.shape)):
            return entry(p, idx, env)
    return UNKNOWN


def _initial(alloc):
    """content of a position no store has reached (np.empty: whatever was in memory)"""
    return {'zeros': ('zero',), 'ones': ('num', 1)}.get(alloc.tags.get('alloc'), UNKNOWN)


def _fold_stores(alloc, idx, env):
    """content of a position of an allocated array after all stores / in-place operations, applied in program order"""
    cur = _initial(alloc)
    for st in alloc.tags.get('stores', []):
        e2, rel, ok = env, [], True
        for ax, s_ in enumerate(st['sel']):
            c, r, e2 = covers(s_, idx[ax], alloc.shape[ax], e2)
            if c is None:
                ok = None
                break
            if not c:
                ok = False
                break
            if s_[0] != 'int':
                rel.append(r)
        if ok is False:
            continue
        if ok is None:
            cur = UNKNOWN          # the store may or may not hit the position; a later definite assignment makes the content known again
            continue
        v = st['value']
        val = entry(v, rel, e2) if isinstance(v, Arr) else (('num', v) if isinstance(v, (int, float, complex)) and not isinstance(v, bool) else UNKNOWN)
        mode = st.get('mode')
        if mode in (None, 'set'):
            cur = val
        elif mode == 'add':
            cur = sum_([cur, val])
        elif mode == 'mul':
            cur = prod_([cur, val])
        else:
            cur = UNKNOWN
    return cur


def prod_(fs):
    if any(f is None for f in fs):
        return UNKNOWN
    if any(f == ('zero',) for f in fs):
        return ('zero',)
    flat = []
    for f in fs:
        flat.extend(f[1] if f[0] == 'prod' else [f])
    flat = [f for f in flat if not (f[0] == 'num' and f[1] == 1)]
    if not flat:
        return ('num', 1)
    if len(flat) == 1:
        return flat[0]
    return ('prod', tuple(sorted(flat, key=repr)))


def sum_(ts):
    if any(t is None for t in ts):
        return UNKNOWN
    flat = []
    for t in ts:
        if t == ('zero',):
            continue
        flat.extend(t[1] if t[0] == 'sum' else [t])
    if not flat:
        return ('zero',)
    if len(flat) == 1:
        return flat[0]
    return ('sum', tuple(sorted(flat, key=repr)))


def point(p, env):
    """(role of the data array, per-axis position) of an evaluation point, following selections back to an array that carries a role"""
    sels = []
    v, seen = p, 0
    while isinstance(v, Arr) and 'role' not in v.tags and seen < 10:
        seen += 1
        so = v.tags.get('sel_of')
        if so is None:
            return None
        sels.append(so[1])
        v = so[0]
    if not isinstance(v, Arr) or 'role' not in v.tags:
        return None
    # compose the selections from the root outwards
    pos = [('all',)] * v.ndim
    for sel in reversed(sels):
        free = [k for k, s in enumerate(pos) if s == ('all',)]
        if len(sel) != len(free):
            return None
        for k, s in zip(free, sel):
            if s[0] == 'all':
                continue
            if s[0] == 'int':
                j = subst(s[1], env)
                pos[k] = ('int', j)
            else:
                return None
    return (v.tags['role'], tuple(pos))


def same_content(a, b):
    if a is None or b is None:
        return None
    if a[0] in ('sum', 'prod') and len(a[1]) == 1:
        a = a[1][0]
    if b[0] in ('sum', 'prod') and len(b[1]) == 1:
        b = b[1][0]
    if a[0] != b[0]:
        return False
    if a[0] == 'num':
        return abs(complex(a[1]) - complex(b[1])) < 1e-15
    if a[0] == 'zero':
        return True
    if a[0] == 'src':
        if a[1] != b[1] or len(a[2]) != len(b[2]):
            return False
        for x, y in zip(a[2], b[2]):
            e = idx_eq(x, y)
            if e is None:
                return None
            if not e:
                return False
        return True
    if a[0] in ('sum', 'prod'):
        if len(a[1]) != len(b[1]):
            return False
        rest = list(b[1])
        unknown = False
        for x in a[1]:
            hit = None
            for y in rest:
                e = same_content(x, y)
                if e:
                    hit = y
                    break
                if e is None:
                    unknown = True
            if hit is None:
                return None if unknown else False
            rest.remove(hit)
        return True
    if a[0] == 'basis':
        if a[1] != b[1]:
            return False
        pa, pb = a[2], b[2]
        if pa is None or pb is None:
            return None
        if pa[0] != pb[0] or len(pa[1]) != len(pb[1]):
            return False
        for x, y in zip(pa[1], pb[1]):
            if x[0] != y[0]:
                return False
            if x[0] == 'int':
                e = idx_eq(x[1], y[1])
                if e is None:
                    return None
                if not e:
                    return False
        return True
    return None


def show(c):
    if c is None:
        return 'unknown'
    if c[0] == 'basis':
        p = c[2]
        if p is None:
            return f'f{list(c[1])}(?)'
        pos = ', '.join(':' if s[0] == 'all' else str(s[1]) for s in p[1])
        return f'f{list(c[1])}({p[0]}[{pos}])'
    if c[0] == 'num':
        return str(c[1])
    if c[0] == 'src':
        return f'{c[1]}[{", ".join(str(i) for i in c[2])}]'
    if c[0] == 'prod':
        return ' * '.join(show(x) for x in c[1])
    if c[0] == 'sum':
        return ' + '.join(show(x) for x in c[1])
    return c[0]
