"""Layer 1: whole-repository may-alias / ownership / effect analysis (DESIGN.md 2.1).

For every function of the repository a summary is computed to a fixpoint over the call graph:

    rebinds[path]   -- stores to  <path>.cores / .cores[..] / .ranks[..] / .row_dims / ... or list mutators on them
    bufwrites[path] -- subscript store / in-place operator / destructive library flag on a may-alias of a core buffer of <path>
    ret             -- what the result may be (fresh, a parameter itself, something sharing buffers with a parameter)

`path` is a parameter name, optionally followed by record fields (`trains.solution`).
Values are abstract: Val(alias tokens, contained buffer tokens, kind, record fields).
Tokens:  P:<path> the object passed in,  C:<path> its core list,  M:<path> another metadata list of it,
         B:<path> (a view of) one of its core buffers,  F not derived from any parameter.
"""
import ast

from .core import AnalysisError, norm_text

VIEW_METHODS = {'reshape', 'transpose', 'squeeze', 'ravel', 'view', 'swapaxes'}
VIEW_ATTRS = {'T', 'real', 'imag'}
VIEW_FUNCS = {'transpose', 'reshape', 'squeeze', 'ravel', 'asarray', 'swapaxes', 'moveaxis', 'atleast_1d', 'atleast_2d', 'real', 'imag', 'ascontiguousarray', 'asfortranarray',
              'asanyarray', 'require', 'rollaxis', 'flip', 'fliplr', 'flipud', 'rot90', 'split', 'array_split', 'hsplit', 'vsplit', 'trim_zeros'}
# library keyword -> index of the positional argument it lets the routine destroy
DESTRUCTIVE_KW = {'overwrite_a': 0, 'overwrite_b': 1, 'overwrite_x': 0}
LIST_MUTATORS = {'append', 'extend', 'reverse', 'insert', 'pop', 'remove', 'sort', 'clear'}
META = ('cores', 'ranks', 'row_dims', 'col_dims', 'order')
# method names that exist on ndarray (or list): a repo method of the same name is resolved by the receiver's kind
NDARRAY_METHODS = {'transpose', 'conj', 'conjugate', 'copy', 'dot', 'squeeze', 'diagonal', 'reshape', 'ravel', 'flatten', 'astype', 'sum', 'max', 'min',
                   'mean', 'argsort', 'sort', 'fill', 'all', 'any', 'round', 'tolist', 'item', 'view', 'swapaxes', 'nonzero', 'trace', 'std', 'var',
                   'cumsum', 'prod', 'clip', 'repeat', 'take', 'put', 'append', 'extend', 'insert', 'pop', 'remove', 'reverse', 'index', 'count', 'clear'}
LIB_ROOTS = {'np', 'numpy', 'lin', 'linalg', 'sp', 'scipy', 'splin', 'math', 'sys', '_time', 'time', 'plt', 'expm_multiply', 'legendre', 'BSpline'}


class Val:
    __slots__ = ('alias', 'contains', 'kind', 'fields', 'const')

    def __init__(self, alias=(), contains=(), kind=None, fields=None, const=None):
        self.alias, self.contains, self.kind, self.fields, self.const = frozenset(alias), frozenset(contains), kind, fields, const

    def __or__(self, o):
        f = None
        if self.fields or o.fields:
            f = dict(self.fields or {})
            for k, v in (o.fields or {}).items():
                f[k] = (f[k] | v) if k in f else v
        return Val(self.alias | o.alias, self.contains | o.contains, self.kind if self.kind == o.kind else (self.kind or o.kind if not (self.kind and o.kind) else None),
                   f, self.const if self.const == o.const else None)

    def key(self):
        return (self.alias, self.contains, self.kind, tuple(sorted((k, v.key()) for k, v in (self.fields or {}).items())))

    def __repr__(self):
        return f'Val({sorted(self.alias)},{sorted(self.contains)},{self.kind})'

    def param_tokens(self):
        return {t for t in self.alias | self.contains if t != 'F'}


FRESH = Val({'F'})
FRESH_ARR = Val({'F'}, kind='arr')
FRESH_TT = Val({'F'}, kind='tt')


def tok(prefix, path):
    return prefix + ':' + path


def tpath(t):
    return t[2:]


class Summary:
    def __init__(self, params):
        self.params = params
        self.rebinds = {}     # path -> {site tuples}
        self.bufwrites = {}
        self.ret = Val()
        self.ttkind = set()   # parameter paths used as tensor trains (or lists of tensor trains)
        self.shares = []      # R-c sites: (line, text)

    def key(self):
        return (tuple(sorted((k, tuple(sorted(v))) for k, v in self.rebinds.items())),
                tuple(sorted((k, tuple(sorted(v))) for k, v in self.bufwrites.items())),
                self.ret.key(), tuple(sorted(self.ttkind)), tuple(self.shares))


def const_variants(fn):
    """guard parameters analysed once per value (DESIGN 2.1 constant-parameter pruning)"""
    out = [{}]
    if 'overwrite' in fn.params:
        out = [{'overwrite': False}, {'overwrite': True}]
    return out


class Analyzer:
    def __init__(self, repo):
        self.repo = repo
        self.summ = {}
        self.pending = set()
        self.unresolved = {}      # (fn qual, call text) -> line
        self.resolved_calls = 0
        self.destructive_sites = {}   # (file, line, kw) -> text : every destructive library flag seen
        self.rounds = 0
        tt_classes = [(m.name, c) for m in repo.modules.values() for c in m.classes if c == 'TT']
        if len(tt_classes) != 1:
            raise AnalysisError(f'expected exactly one class TT, found {tt_classes}')
        self.tt_mod, _ = tt_classes[0]
        self.tt_methods = repo.modules[self.tt_mod].classes['TT']
        # the method-name based resolution is sound only if no other repo class defines these names
        for m in repo.modules.values():
            for c, ms in m.classes.items():
                if c == 'TT':
                    continue
                clash = {x for x in set(ms) & set(self.tt_methods) if not x.startswith('__')}
                if clash:
                    raise AnalysisError(f'class {m.name}.{c} defines TT method names {clash}: name-based method resolution is not sound')

    def key_of(self, fn, consts):
        return (fn.qual, tuple(sorted(consts.items())))

    def summary_for_call(self, fn, consts):
        k = self.key_of(fn, consts)
        if k not in self.summ:
            self.summ[k] = Summary(fn.params)
            self.pending.add((fn.qual, k[1]))
        return self.summ[k]

    def fixpoint(self):
        for fn in self.repo.all_functions():
            for c in const_variants(fn):
                self.pending.add((fn.qual, tuple(sorted(c.items()))))
        changed = True
        while changed:
            changed = False
            self.rounds += 1
            if self.rounds > 25:
                raise AnalysisError('ownership analysis did not converge in 25 rounds')
            self.resolved_calls = 0
            for qual, ct in sorted(self.pending, key=lambda x: (x[0], str(x[1]))):
                fn = self.repo.fns[qual]
                old = self.summ.get((qual, ct))
                A = FnAnalysis(self, fn, dict(ct))
                A.run()
                new = A.summary
                if old is not None:      # monotone merge
                    for k, v in old.rebinds.items():
                        new.rebinds.setdefault(k, set()).update(v)
                    for k, v in old.bufwrites.items():
                        new.bufwrites.setdefault(k, set()).update(v)
                    new.ret = new.ret | old.ret
                    new.ttkind |= old.ttkind
                if old is None or old.key() != new.key():
                    self.summ[(qual, ct)] = new
                    changed = True
        return self.rounds


def names_in(n):
    return {x.id for x in ast.walk(n) if isinstance(x, ast.Name)}


class FnAnalysis:
    def __init__(self, an, fn, consts, inline_env=None):
        self.an, self.fn, self.consts = an, fn, consts
        self.repo = an.repo
        self.mod = self.repo.modules[fn.mod]
        self.summary = Summary(fn.params)
        self.env = {}
        self.fresh_slots = set()
        self.local_fns = {}
        self.returned = False
        self.callables = {}        # local name -> [ast.Lambda | ast.Attribute (bound method)] it may hold

    # ------------------------------------------------------------------ setup
    def run(self):
        node = self.fn.node
        a = node.args
        allargs = a.posonlyargs + a.args + a.kwonlyargs
        for arg in allargs:
            name = arg.arg
            if name in self.consts:
                self.env[name] = Val(const=self.consts[name])
                continue
            kind = None
            ann = ast.unparse(arg.annotation) if arg.annotation is not None else ''
            if name == 'self' and self.fn.cls == 'TT':
                kind = 'tt'
            elif 'TT' in ann.replace('List', ''):
                kind = 'ttlist' if ('List' in ann and 'Union' not in ann) else 'tt'
            elif 'ndarray' in ann:
                kind = 'arr'
            if kind in ('tt', 'ttlist'):
                self.summary.ttkind.add(name)
            self.env[name] = Val({tok('P', name)}, kind=kind)
        if a.vararg:
            self.env[a.vararg.arg] = FRESH
        if a.kwarg:
            self.env[a.kwarg.arg] = FRESH
        self.block(node.body)

    # ------------------------------------------------------------------ effects
    def site(self, node, what):
        return (self.fn.qual, self.repo.relfile(self.fn.file), getattr(node, 'lineno', 0), what)

    def eff_rebind(self, val, node, what):
        for t in val.alias:
            if t[0] in 'PCM' and t[1] == ':':
                self.summary.rebinds.setdefault(tpath(t), set()).add(self.site(node, what))

    def eff_bufwrite(self, val, node, what):
        for t in val.alias | val.contains:
            if t[:2] in ('B:', 'P:'):
                self.summary.bufwrites.setdefault(tpath(t), set()).add(self.site(node, what))

    def mark_tt(self, val):
        for t in val.alias:
            if t[:2] == 'P:':
                self.summary.ttkind.add(tpath(t))

    # ------------------------------------------------------------------ statements
    def block(self, body):
        for st in body:
            if getattr(self, 'returned', False):
                break                      # statements after a `return` that is reached on every path through the block so far
            self.stmt(st)

    def stmt(self, st):
        if isinstance(st, ast.Assign) and len(st.targets) == 1 and isinstance(st.targets[0], ast.Name) and (
                isinstance(st.value, ast.Lambda) or (isinstance(st.value, ast.Attribute) and st.value.attr in self.an.tt_methods and not st.value.attr.startswith('_'))):
            # a callable value bound to a local name (`f = lambda v: v`, `f = operator.dot`): remember every candidate (the branches of an if may bind different ones)
            self.callables.setdefault(st.targets[0].id, []).append(st.value)
        if isinstance(st, ast.Assign):
            if len(st.targets) == 1 and isinstance(st.targets[0], (ast.Tuple, ast.List)) and isinstance(st.value, (ast.Tuple, ast.List)) and \
                    len(st.targets[0].elts) == len(st.value.elts) and not any(isinstance(x, ast.Starred) for x in st.targets[0].elts + st.value.elts):
                # a, b = x, y : element by element (all right-hand sides are evaluated first), so that what each target is bound to stays known
                vs = [self.ev(x) for x in st.value.elts]
                for t, v in zip(st.targets[0].elts, vs):
                    self.assign(t, v, st)
            else:
                v = self.ev(st.value)
                for t in st.targets:
                    self.assign(t, v, st)
        elif isinstance(st, ast.AnnAssign):
            if st.value is not None:
                self.assign(st.target, self.ev(st.value), st)
        elif isinstance(st, ast.AugAssign):
            v = self.ev(st.value)
            tv = self.ev(st.target)
            if isinstance(st.target, ast.Name):
                # `x op= y`: an ndarray is modified in place; a TT (no __iop__) is rebound to a new object
                if any(t.startswith('B:') for t in tv.alias) or (tv.kind == 'arr' and any(t.startswith('P:') for t in tv.alias)):
                    self.eff_bufwrite(Val({t for t in tv.alias if t[:2] in ('B:', 'P:')}), st, 'in-place operator on an array')
                keep = {x for x in tv.alias if not x.startswith('P:')} if tv.kind != 'arr' else set(tv.alias)
                self.env[st.target.id] = Val(keep | {'F'}, tv.contains, tv.kind)
                self.kill_slots({st.target.id})
            else:
                self.store(st.target, v | tv, st, aug=True)
        elif isinstance(st, ast.Expr):
            self.ev(st.value)
        elif isinstance(st, ast.If):
            c = self.truth(st.test)
            if c is True:
                self.block(st.body)
            elif c is False:
                self.block(st.orelse)
            else:
                e0, f0 = dict(self.env), set(self.fresh_slots)
                self.block(st.body)
                e1, f1, r1 = self.env, self.fresh_slots, getattr(self, 'returned', False)
                self.env, self.fresh_slots, self.returned = dict(e0), set(f0), False
                self.block(st.orelse)
                r2 = self.returned
                if r1 and not r2:
                    pass                                   # only the else path continues
                elif r2 and not r1:
                    self.env, self.fresh_slots = e1, f1    # only the then path continues
                else:
                    self.env = merge(e1, self.env)
                    self.fresh_slots = f1 & self.fresh_slots
                self.returned = r1 and r2
        elif isinstance(st, (ast.For, ast.While)):
            for _ in range(6):
                e0, f0 = dict(self.env), set(self.fresh_slots)
                if isinstance(st, ast.For):
                    it = self.ev(st.iter)
                    elem = Val(it.contains | {a for a in it.alias if a.startswith('P:')} or {'F'}, it.contains,
                               kind='tt' if it.kind == 'ttlist' else None)
                    self.assign(st.target, elem, st)
                    self.kill_slots(names_in(st.target))
                else:
                    self.ev(st.test)
                self.block(st.body)
                self.returned = False                      # (a return inside a loop body need not be reached)
                self.env = merge(e0, self.env)
                self.fresh_slots = f0 & self.fresh_slots
                if envkey(self.env) == envkey(e0):
                    break
            self.block(st.orelse)
        elif isinstance(st, ast.Return):
            if st.value is not None:
                self.summary.ret = self.summary.ret | self.ev(st.value)
            self.returned = True
        elif isinstance(st, ast.Try):
            e0 = dict(self.env)
            self.block(st.body)
            self.returned = False                          # (the body may have been left by an exception before its return)
            for h in st.handlers:
                e1 = self.env
                self.env = merge(e0, e1)
                self.block(h.body)
                self.env = merge(e1, self.env)
            self.block(st.orelse)
            self.block(st.finalbody)
        elif isinstance(st, ast.With):
            for it in st.items:
                self.ev(it.context_expr)
            self.block(st.body)
        elif isinstance(st, ast.FunctionDef):
            self.local_fns[st.name] = st
        elif isinstance(st, (ast.Raise, ast.Pass, ast.Continue, ast.Break, ast.Import, ast.ImportFrom, ast.Assert, ast.Global, ast.Delete, ast.Nonlocal)):
            pass
        else:
            raise AnalysisError(f'{self.fn.qual}: unsupported statement {type(st).__name__} at line {st.lineno}')

    def kill_slots(self, names):
        self.fresh_slots = {fs for fs in self.fresh_slots if fs[0] not in names and not (fs[2] & names)}

    def assign(self, t, v, node):
        if isinstance(t, ast.Name):
            self.env[t.id] = v
            self.kill_slots({t.id})
            for k in [k for k in self.env if k.startswith(t.id + '.')]:
                del self.env[k]
        elif isinstance(t, (ast.Tuple, ast.List)):
            for e in t.elts:
                self.assign(e.value if isinstance(e, ast.Starred) else e, Val(v.alias | v.contains or {'F'}, v.contains, None), node)
        else:
            self.store(t, v, node)

    def store(self, t, v, node, aug=False):
        if isinstance(t, ast.Attribute):
            base = self.ev(t.value)
            if t.attr in META:
                self.eff_rebind(base, node, f'{norm_text(t, 60)} = ...')
                self.mark_tt(base)
                if t.attr == 'cores' and any(a.startswith('C:') for a in v.alias):
                    # X.cores = Y.cores : two objects around one list object (R-c)
                    self.summary.shares.append((getattr(node, 'lineno', 0), norm_text(node, 120)))
                own_paths = {tpath(a) for a in base.alias if a.startswith('P:')}
                if t.attr in ('row_dims', 'col_dims', 'ranks') and any(a.startswith('M:') and tpath(a) not in own_paths for a in v.alias):
                    # X.row_dims = Y.col_dims : two objects around one metadata list (an in-place operation on one -- rank_transpose, a partial transpose, a store
                    # into row_dims[k] -- silently changes the other's metadata)
                    self.summary.shares.append((getattr(node, 'lineno', 0), norm_text(node, 120) + '  [metadata list]'))
            if isinstance(t.value, ast.Name):
                cur = self.env.get(t.value.id)
                if cur is not None:
                    if t.attr == 'cores':
                        self.env[t.value.id] = Val(cur.alias, cur.contains | v.contains | {a for a in v.alias if a.startswith('B:')}, cur.kind, cur.fields)
                        self.kill_slots({t.value.id})
                    elif t.attr not in META:
                        # record field of a local object (e.g. trains.solution = ...)
                        f = dict(cur.fields or {})
                        f[t.attr] = v
                        self.env[t.value.id] = Val(cur.alias, cur.contains, cur.kind or 'rec', f)
                        if any(a.startswith('P:') for a in cur.alias):
                            # attribute store on a parameter object that is not TT metadata: recorded as rebind of the path
                            for a in cur.alias:
                                if a.startswith('P:'):
                                    self.summary.rebinds.setdefault(tpath(a) + '.' + t.attr, set()).add(self.site(node, f'{norm_text(t, 60)} = ...'))
        elif isinstance(t, ast.Subscript):
            base = self.ev(t.value)
            self.ev(t.slice)
            if any(a[0] in 'CM' and a[1] == ':' for a in base.alias):
                self.eff_rebind(base, node, f'{norm_text(t, 60)} {"op" if aug else ""}= ...')
                if aug and base.contains:
                    # cores[i] += x modifies the array held in the slot
                    self.eff_bufwrite(Val(base.contains), node, f'{norm_text(t, 60)} op= ... (in place on a core buffer)')
            if isinstance(t.value, ast.Attribute) and t.value.attr == 'cores' and isinstance(t.value.value, ast.Name):
                obj = t.value.value.id
                slot = (obj, ast.dump(t.slice), frozenset(names_in(t.slice)))
                if not aug and v.alias <= {'F'} and not v.contains:
                    self.fresh_slots.add(slot)
                else:
                    self.fresh_slots.discard(slot)
                cur = self.env.get(obj)
                if cur is not None:
                    self.env[obj] = Val(cur.alias, cur.contains | {a for a in v.alias if a.startswith('B:')} | v.contains, cur.kind, cur.fields)
            if any(a.startswith('B:') for a in base.alias):
                self.eff_bufwrite(Val({a for a in base.alias if a.startswith('B:')}), node, f'{norm_text(t, 60)} = ... (subscript store into a core buffer)')
            elif any(a.startswith('P:') for a in base.alias) and not any(a[0] in 'CM' for a in base.alias):
                if base.kind == 'arr':
                    self.eff_bufwrite(Val({a for a in base.alias if a.startswith('P:')}), node, f'{norm_text(t, 60)} = ... (store into array parameter)')
                else:
                    # element of a list parameter rebound, e.g. L[i] = L[i][:, :, None]
                    for a in base.alias:
                        if a.startswith('P:'):
                            self.summary.rebinds.setdefault(tpath(a) + '[]', set()).add(self.site(node, f'{norm_text(t, 60)} = ... (element of list parameter)'))
            if isinstance(t.value, ast.Name):
                cur = self.env.get(t.value.id)
                if cur is not None and 'F' in cur.alias and cur.kind != 'arr':
                    # (a store into an ndarray copies the value's data: the array does not come to contain the value)
                    self.env[t.value.id] = Val(cur.alias, cur.contains | {a for a in v.alias if a[:2] in ('B:', 'P:')} | v.contains, cur.kind, cur.fields)
        elif isinstance(t, ast.Starred):
            self.store(t.value, v, node, aug)
        else:
            raise AnalysisError(f'{self.fn.qual}: unsupported store target {type(t).__name__} at line {node.lineno}')

    # ------------------------------------------------------------------ expressions
    def truth(self, e):
        """decide tests on the guard constants only"""
        try:
            if isinstance(e, ast.Compare) and len(e.ops) == 1 and isinstance(e.left, ast.Name) and e.left.id in self.consts \
                    and isinstance(e.comparators[0], ast.Constant):
                lv, rv, op = self.consts[e.left.id], e.comparators[0].value, e.ops[0]
                if isinstance(op, ast.Is): return lv is rv
                if isinstance(op, ast.IsNot): return lv is not rv
                if isinstance(op, ast.Eq): return lv == rv
                if isinstance(op, ast.NotEq): return lv != rv
            if isinstance(e, ast.Name) and e.id in self.consts:
                return bool(self.consts[e.id])
            if isinstance(e, ast.UnaryOp) and isinstance(e.op, ast.Not):
                v = self.truth(e.operand)
                return None if v is None else (not v)
        except Exception:
            pass
        self.ev(e)
        return None

    def ev(self, e):
        if e is None:
            return Val()
        m = getattr(self, 'e_' + type(e).__name__, None)
        if m is None:
            for ch in ast.iter_child_nodes(e):
                if isinstance(ch, ast.expr):
                    self.ev(ch)
            return FRESH
        return m(e)

    def e_Constant(self, e):
        return Val({'F'}, const=e.value)

    def e_Name(self, e):
        return self.env.get(e.id, FRESH)

    def e_Attribute(self, e):
        base = self.ev(e.value)
        if base.fields and e.attr in base.fields:
            return base.fields[e.attr]
        if e.attr == 'cores':
            self.mark_tt(base)
            out_a, out_c = set(), set(base.contains)
            for a in base.alias:
                if a.startswith('P:'):
                    out_a.add(tok('C', tpath(a))); out_c.add(tok('B', tpath(a)))
                elif a == 'F':
                    out_a.add('F')
            return Val(out_a or {'F'}, out_c, 'list')
        if e.attr in META:
            self.mark_tt(base)
            out_a = {tok('M', tpath(a)) for a in base.alias if a.startswith('P:')}
            return Val(out_a or {'F'}, (), 'list')
        if e.attr in VIEW_ATTRS:
            return base
        if e.attr in ('shape', 'ndim', 'dtype', 'size'):
            return FRESH
        # unknown attribute of a parameter object: a sub-object reached through it (record field)
        out_a = {tok('P', tpath(a) + '.' + e.attr) for a in base.alias if a.startswith('P:')}
        if out_a:
            return Val(out_a, (), None)
        return Val({'F'}, base.contains)

    def e_Subscript(self, e):
        base = self.ev(e.value)
        self.ev(e.slice)
        if isinstance(e.value, ast.Attribute) and e.value.attr == 'cores' and isinstance(e.value.value, ast.Name):
            if (e.value.value.id, ast.dump(e.slice), frozenset(names_in(e.slice))) in self.fresh_slots:
                return FRESH_ARR
        is_list_slice = isinstance(e.slice, ast.Slice)
        if any(x.startswith('C:') for x in base.alias) or (base.kind == 'list' and 'F' in base.alias):
            if is_list_slice:                       # a new list holding the same buffers
                return Val({'F'}, base.contains, 'list')
            return Val(set(base.contains) | ({'F'} if 'F' in base.alias else set()), (), 'arr')
        if any(x.startswith('M:') for x in base.alias):
            return FRESH
        a = set()
        for x in base.alias:
            if x.startswith('B:'):
                a.add(x)                            # basic indexing of an array: view
            elif x.startswith('P:'):
                a.add(x)                            # element of a list parameter (collapsed with the list) / view of an array parameter
            elif x == 'F':
                a.add('F')
        if base.contains and 'F' in base.alias and base.kind != 'arr':
            # element of a local list holding parameter-derived things
            if is_list_slice:
                return Val({'F'}, base.contains, base.kind)
            return Val(set(base.contains) | {'F'}, (), 'tt' if base.kind == 'ttlist' else None)
        kind = 'tt' if base.kind == 'ttlist' and not is_list_slice else (base.kind if base.kind in ('arr',) else (base.kind if is_list_slice else None))
        return Val(a or {'F'}, base.contains, kind)

    def e_BinOp(self, e):
        l, r = self.ev(e.left), self.ev(e.right)
        if isinstance(e.op, ast.Add) and (l.kind == 'list' or r.kind == 'list' or ((l.contains or r.contains) and l.kind != 'tt' and r.kind != 'tt')):
            return Val({'F'}, l.contains | r.contains, 'list')          # list concatenation keeps the buffers
        if isinstance(e.op, ast.Mult) and (l.kind == 'list' or r.kind == 'list'):
            return Val({'F'}, l.contains | r.contains, 'list')
        if isinstance(e.op, (ast.Add, ast.Sub, ast.Mult, ast.MatMult)) and (l.kind == 'tt' or r.kind == 'tt'):
            # TT operators: resolved to the dunder methods (all of them return new objects if their summaries say so)
            name = {ast.Add: '__add__', ast.Sub: '__sub__', ast.Mult: '__mul__', ast.MatMult: '__matmul__'}[type(e.op)]
            recv, arg = (l, r)
            if l.kind != 'tt' and isinstance(e.op, ast.Mult):
                name, recv, arg = '__rmul__', r, l
            if name in self.an.tt_methods:
                return self.apply(self.an.tt_methods[name], [recv, arg], {}, {}, e)
        return Val({'F'}, kind='tt' if 'tt' in (l.kind, r.kind) else None)

    def e_List(self, e):
        c = set()
        kinds = set()
        for x in e.elts:
            v = self.ev(x)
            kinds.add(v.kind)
            c |= {a for a in v.alias if a[:2] in ('B:', 'P:')} | v.contains
        return Val({'F'}, c, 'ttlist' if kinds == {'tt'} else 'list')

    e_Tuple = e_List

    def e_ListComp(self, e):
        saved = dict(self.env)
        for g in e.generators:
            it = self.ev(g.iter)
            self.assign(g.target, Val(it.contains | {a for a in it.alias if a.startswith('P:')} or {'F'}, (), 'tt' if it.kind == 'ttlist' else None), e)
            for c in g.ifs:
                self.ev(c)
        v = self.ev(e.elt)
        self.env = saved
        return Val({'F'}, {a for a in v.alias if a[:2] in ('B:', 'P:')} | v.contains, 'ttlist' if v.kind == 'tt' else 'list')

    e_GeneratorExp = e_ListComp

    def e_IfExp(self, e):
        self.ev(e.test)
        return self.ev(e.body) | self.ev(e.orelse)

    def e_Starred(self, e):
        return self.ev(e.value)

    def e_Lambda(self, e):
        return FRESH

    # ------------------------------------------------------------------ calls
    def e_Call(self, e):
        f = e.func
        args = [self.ev(a) for a in e.args]
        kws = {k.arg: self.ev(k.value) for k in e.keywords if k.arg}
        kwnodes = {k.arg: k.value for k in e.keywords if k.arg}
        # destructive library flags
        for kw, pos in DESTRUCTIVE_KW.items():
            if kw in kwnodes:
                n = kwnodes[kw]
                is_true = isinstance(n, ast.Constant) and n.value is True
                maybe = not isinstance(n, ast.Constant)
                if is_true or maybe:
                    self.an.destructive_sites[(self.repo.relfile(self.fn.file), e.lineno, kw)] = norm_text(e, 100)
                    tgt = args[pos] if pos < len(args) else kws.get({'overwrite_a': 'a', 'overwrite_b': 'b', 'overwrite_x': 'x'}[kw])
                    if tgt is not None:
                        self.eff_bufwrite(Val({a for a in tgt.alias if a[:2] in ('B:', 'P:')}), e,
                                          f'{norm_text(f, 40)}(..., {kw}=True) may work in place on a view of a core buffer it does not own')
        if 'out' in kwnodes:
            tgt = kws['out']
            self.eff_bufwrite(Val({a for a in tgt.alias if a[:2] in ('B:', 'P:')}), e, f'{norm_text(f, 40)}(..., out=...) writes into a core buffer')

        if isinstance(f, ast.Name):
            name = f.id
            if name in self.local_fns:
                return self.inline_local(self.local_fns[name], args, kws, e)
            if name in self.callables:
                res = None
                for cand in self.callables[name]:
                    if isinstance(cand, ast.Lambda):
                        saved = self.env
                        self.env = dict(saved)
                        for p_, a_ in zip([a.arg for a in cand.args.args], args):
                            self.env[p_] = a_
                        for k_, v_ in kws.items():
                            self.env[k_] = v_
                        r_ = self.ev(cand.body)
                        self.env = saved
                    else:
                        r_ = self.e_Call(ast.copy_location(ast.Call(func=cand, args=e.args, keywords=e.keywords), e))
                    res = r_ if res is None else (res | r_)
                self.an.resolved_calls += 1
                return res if res is not None else FRESH
            r = self.repo.resolve_name(self.mod, name)
            if r is not None:
                self.an.resolved_calls += 1
                if r[0] == 'fn':
                    return self.apply(r[1], args, kws, kwnodes, e)
                if r[0] == 'class':
                    if r[2] == 'TT':
                        return self.construct_tt(args, kws, kwnodes, e)
                    return Val({'F'}, kind='rec')
            if name in ('list', 'tuple') and args:
                return Val({'F'}, args[0].contains | {a for a in args[0].alias if a.startswith('P:')}, args[0].kind if args[0].kind == 'ttlist' else 'list')
            if name in ('len', 'range', 'int', 'float', 'str', 'bool', 'abs', 'min', 'max', 'sum', 'isinstance', 'print', 'enumerate', 'zip',
                        'sorted', 'reversed', 'all', 'any', 'complex', 'round', 'type', 'super', 'set', 'dict', 'divmod', 'map', 'filter', 'slice', 'iter', 'next', 'id', 'repr', 'hash', 'callable', 'getattr', 'hasattr',
                        'expm_multiply', 'legendre', 'BSpline', 'ValueError', 'TypeError', 'IndexError', 'NotImplementedError', 'Exception'):
                if name in ('enumerate', 'zip', 'sorted', 'reversed') and args:
                    c = set()
                    for a in args:
                        c |= a.contains | {x for x in a.alias if x.startswith('P:')}
                    return Val({'F'}, c, 'list')
                return FRESH
            if name in self.mod.imports:
                return FRESH
            if name in self.env and not any(a.kind in ('tt', 'ttlist') for a in list(args) + list(kws.values())):
                # a callable VALUE held in a local variable (basis-function object taken from a list, scipy poly1d, ...) applied to non-TT data:
                # same treatment as the subscripted form basis_list[i][k](x): an external callable that returns a fresh value
                return FRESH
            self.an.unresolved[(self.fn.qual, norm_text(e, 80))] = e.lineno
            return FRESH

        if isinstance(f, ast.Attribute):
            root = f
            while isinstance(root, ast.Attribute):
                root = root.value
            # module-qualified call
            if isinstance(root, ast.Name) and root.id not in self.env:
                mn = self.repo.module_of_alias(self.mod, root.id) if isinstance(f.value, ast.Name) else None
                if mn is not None:
                    mm = self.repo.modules[mn]
                    self.an.resolved_calls += 1
                    if f.attr in mm.functions:
                        return self.apply(mm.functions[f.attr], args, kws, kwnodes, e)
                    if f.attr == 'TT' and 'TT' in mm.classes or (f.attr == 'TT' and self.repo.resolve_name(mm, 'TT')):
                        return self.construct_tt(args, kws, kwnodes, e)
                    if f.attr in mm.classes:
                        return Val({'F'}, kind='rec')
                    raise AnalysisError(f'{self.fn.qual}:{e.lineno}: {norm_text(f)} not found in module {mn}')
                if root.id in LIB_ROOTS or root.id in self.mod.imports:
                    return self.library_call(f, args, kws, e)
                if root.id == 'TT' and isinstance(f.value, ast.Name):
                    # TT.method(obj, ...) unbound call
                    if f.attr in self.an.tt_methods:
                        self.an.resolved_calls += 1
                        return self.apply(self.an.tt_methods[f.attr], args, kws, kwnodes, e)
            recv = self.ev(f.value)
            return self.method_call(f, recv, args, kws, kwnodes, e)
        self.ev(f)
        return FRESH

    def library_call(self, f, args, kws, e):
        name = f.attr
        if name in VIEW_FUNCS and args:
            return Val(args[0].alias, args[0].contains, 'arr')
        if name in ('expand_dims', 'atleast_3d', 'broadcast_to', 'diagonal') and args:
            return Val(args[0].alias, args[0].contains, 'arr')
        return FRESH_ARR

    def method_call(self, f, recv, args, kws, kwnodes, e):
        m = f.attr
        is_listy = any(a[0] in 'CM' and a[1] == ':' for a in recv.alias) or recv.kind in ('list', 'ttlist')
        if m in LIST_MUTATORS and (is_listy or (m in ('append', 'extend', 'insert', 'reverse', 'pop', 'remove', 'sort', 'clear') and recv.kind not in ('tt', 'arr'))):
            if any(a[0] in 'CM' and a[1] == ':' for a in recv.alias):
                self.eff_rebind(recv, e, f'{norm_text(f, 60)}(...)')
                if m in ('extend',) and args and any(a.startswith('C:') for a in args[0].alias):
                    pass
            elif any(a.startswith('P:') for a in recv.alias):
                for a in recv.alias:
                    if a.startswith('P:'):
                        self.summary.rebinds.setdefault(tpath(a) + '[]', set()).add(self.site(e, f'{norm_text(f, 60)}(...) on a list parameter'))
            add = set()
            for v in args:
                add |= {a for a in v.alias if a[:2] in ('B:', 'P:')} | v.contains
            tgt = f.value
            if isinstance(tgt, ast.Name):
                cur = self.env.get(tgt.id, FRESH)
                kind = cur.kind
                if m == 'append' and args and args[0].kind == 'tt' and kind in (None, 'list', 'ttlist'):
                    kind = 'ttlist' if (kind == 'ttlist' or not cur.contains and kind in (None, 'list')) else kind
                self.env[tgt.id] = Val(cur.alias, cur.contains | add, kind or 'list', cur.fields)
            elif isinstance(tgt, ast.Attribute) and isinstance(tgt.value, ast.Name):
                cur = self.env.get(tgt.value.id)
                if cur is not None:
                    self.env[tgt.value.id] = Val(cur.alias, cur.contains | add, cur.kind, cur.fields)
                    self.kill_slots({tgt.value.id})
            return FRESH
        if m == 'copy' and is_listy and recv.kind != 'tt':
            return Val({'F'}, recv.contains, recv.kind)                       # shallow list copy keeps the buffers
        # tensor-train methods
        looks_arr = recv.kind == 'arr' or any(a.startswith('B:') for a in recv.alias)
        looks_tt = recv.kind == 'tt'
        tt_only = m not in NDARRAY_METHODS
        if m in self.an.tt_methods and not m.startswith('__') and (tt_only or not looks_arr):
            self.an.resolved_calls += 1
            res_tt = self.apply(self.an.tt_methods[m], [recv] + args, kws, kwnodes, e)
            if tt_only or looks_tt:
                return res_tt
            # unknown receiver kind: join with the ndarray reading (adds may-aliases only)
            return res_tt | self.ndarray_method(m, recv, args)
        if m in self.an.tt_methods and m.startswith('__') and looks_tt:
            return self.apply(self.an.tt_methods[m], [recv] + args, kws, kwnodes, e)
        # methods of other repo classes (Function hierarchy ...) have no TT effects; ndarray methods:
        return self.ndarray_method(m, recv, args)

    def ndarray_method(self, m, recv, args):
        if m in VIEW_METHODS or m in ('conj', 'conjugate', 'diagonal'):
            # ndarray.conj() returns its argument unchanged for real data
            return Val(recv.alias, recv.contains, 'arr')
        if m in ('copy', 'flatten', 'astype', 'dot', 'sum', 'argsort', 'tolist', 'max', 'min', 'mean', 'round', 'nonzero', 'all', 'any', 'item'):
            return FRESH_ARR
        if m in ('fill', 'sort', 'resize', 'itemset', 'partition', 'put', 'setfield', 'setflags') :
            self.eff_bufwrite(Val({a for a in recv.alias if a[:2] in ('B:', 'P:')}), ast.Constant(0), f'.{m}() modifies the array in place')
            return FRESH
        return FRESH

    def inline_local(self, fnode, args, kws, e):
        saved_env, saved_ret = self.env, self.summary.ret
        self.env = dict(saved_env)
        params = [a.arg for a in fnode.args.args]
        for p, a in zip(params, args):
            self.env[p] = a
        for k, v in kws.items():
            self.env[k] = v
        self.summary.ret = Val()
        saved_returned, self.returned = getattr(self, 'returned', False), False
        self.block(fnode.body)
        r = self.summary.ret
        self.returned = saved_returned
        self.env, self.summary.ret = saved_env, saved_ret
        return r if (r.alias or r.contains) else FRESH

    def construct_tt(self, args, kws, kwnodes, e):
        arg0 = args[0] if args else kws.get('x', Val())
        if any(a.startswith('C:') for a in arg0.alias):
            self.summary.shares.append((e.lineno, norm_text(e, 120)))
        r = Val({'F'}, arg0.contains | {a for a in arg0.alias if a.startswith('B:')}, 'tt')
        trunc = len(args) > 1 or any(k in kws for k in ('threshold', 'max_rank'))
        if trunc and 'ortho' in self.an.tt_methods:
            sm = self.an.summary_for_call(self.an.tt_methods['ortho'], {})
            if 'self' in sm.bufwrites:
                self.eff_bufwrite(Val(r.contains), e, 'truncating TT(...) constructor -> ' + sorted(sm.bufwrites['self'])[0][3])
            if 'self' in sm.rebinds and any(a[0] == 'C' for a in arg0.alias):
                self.eff_rebind(Val({a for a in arg0.alias if a[0] == 'C'}), e, 'truncating TT(...) constructor rebinds the slots of the list it was given')
        return r

    def apply(self, callee, args, kws, kwnodes, node):
        params = callee.params
        consts = {}
        if 'overwrite' in params:
            ow = False
            n = kwnodes.get('overwrite')
            pos = params.index('overwrite')
            if n is None and pos < len(node.args) if isinstance(node, ast.Call) else False:
                n = node.args[pos]
            if n is None:
                d = callee.defaults().get('overwrite')
                ow = bool(d.value) if isinstance(d, ast.Constant) else None
            elif isinstance(n, ast.Constant):
                ow = bool(n.value)
            elif isinstance(n, ast.Name) and n.id in self.consts:
                ow = bool(self.consts[n.id])
            else:
                ow = None
            if ow is None:
                r = Val()
                for v in (False, True):
                    r = r | self.apply_with(callee, {'overwrite': v}, params, args, kws, node)
                return r
            consts['overwrite'] = ow
        return self.apply_with(callee, consts, params, args, kws, node)

    def resolve_path(self, path, actual):
        """actual value for a callee path like 'trains.solution' or 'L[]' given the bound parameters"""
        is_elem = path.endswith('[]')
        if is_elem:
            path = path[:-2]
        parts = path.split('.')
        v = actual.get(parts[0])
        if v is None:
            return None, is_elem
        for fld in parts[1:]:
            if v.fields and fld in v.fields:
                v = v.fields[fld]
            else:
                # unknown field of a parameter object: the sub-object reached through the corresponding path of the caller
                v = Val({tok('P', tpath(a) + '.' + fld) for a in v.alias if a.startswith('P:')} or {'F'}, v.contains)
        return v, is_elem

    def apply_with(self, callee, consts, params, args, kws, node):
        sm = self.an.summary_for_call(callee, consts)
        actual = {}
        for p, a in zip(params, args):
            actual[p] = a
        for k, v in kws.items():
            actual[k] = v
        via = f'via {callee.qual}'
        for p in sm.ttkind:
            v, _ = self.resolve_path(p, actual)
            if v is not None:
                self.mark_tt(v)
        for path, sites in sm.rebinds.items():
            a, is_elem = self.resolve_path(path, actual)
            if a is None:
                continue
            origin = sorted(sites)[0]
            if is_elem:
                for x in a.alias:
                    if x.startswith('P:'):
                        self.summary.rebinds.setdefault(tpath(x) + '[]', set()).update(sites)
                continue
            for x in a.alias:
                if x[0] in 'PCM' and x[1] == ':':
                    self.summary.rebinds.setdefault(tpath(x), set()).update(sites)
            if a.param_tokens() or True:
                # the callee rebinds slots of this object: strong-update knowledge about it is void
                for n_ in (node.args if isinstance(node, ast.Call) else []):
                    if isinstance(n_, ast.Name):
                        self.kill_slots({n_.id})
        for path, sites in sm.bufwrites.items():
            a, _ = self.resolve_path(path, actual)
            if a is None:
                continue
            toks = {x for x in a.alias if x[:2] in ('P:', 'B:')} | a.contains
            for x in toks:
                self.summary.bufwrites.setdefault(tpath(x), set()).update(sites)
        # return value
        out_a, out_c = set(), set()
        fields = None
        for t in sm.ret.alias:
            if t == 'F':
                out_a.add('F')
                continue
            a, _ = self.resolve_path(tpath(t), actual)
            if a is None:
                out_a.add('F')
                continue
            if t[0] == 'P':
                out_a |= a.alias; out_c |= a.contains
                fields = a.fields or fields
            elif t[0] == 'B':
                out_a |= {x if x.startswith('B:') else tok('B', tpath(x)) for x in a.alias if x[:2] in ('P:', 'B:')} | a.contains
                if 'F' in a.alias:
                    out_a.add('F')
            else:
                out_a |= {t[0] + ':' + tpath(x) for x in a.alias if x.startswith('P:')} or {'F'}
        for t in sm.ret.contains:
            a, _ = self.resolve_path(tpath(t), actual)
            if a is not None:
                out_c |= {tok('B', tpath(x)) for x in a.alias if x[:2] in ('P:', 'B:')} | a.contains
        return Val(out_a or {'F'}, out_c, sm.ret.kind, fields)


def merge(a, b):
    out = {}
    for k in set(a) | set(b):
        if k in a and k in b:
            out[k] = a[k] | b[k]
        else:
            out[k] = (a.get(k) or b.get(k)) | Val()
    return out


def envkey(env):
    return tuple(sorted((k, v.key()) for k, v in env.items()))


_CACHE = {}


def analyse(repo):
    if repo.digest not in _CACHE:
        an = Analyzer(repo)
        an.fixpoint()
        _CACHE[repo.digest] = an
    return _CACHE[repo.digest]
