"""C13  Bundled models -- structural clauses (DESIGN.md 3/C13).  models.py interpreted over the Layer-2 array domain with concrete sizes (slot assignment,
chaining, literal block stores in bounds, reaction tables inside the state space, QFT / inverse QFT as siblings, Kronecker powers of the fractal seeds), and the
explicit-core Markov generator two_step_destruction over sympy rate symbols (vanishing column sums, sign structure, for all rates)."""
import cmath
import itertools
import math

import numpy as np
import sympy as sp

from . import arr as A
from . import l2, l2rules
from .arr import Arr
from .core import AnalysisError, Finding, Run, norm_text
from .interp import Fork, Frame, Interp, Raised
from .shape import sz_eq

MOD = 'models'


def stores_of(tt_obj):
    """[(core index, selection, value)] of the block stores that built the cores (walking back through scalar multiples / copies)"""
    out = []
    for k, c in enumerate(tt_obj._attrs['cores']):
        v, coef = c, 1
        seen = 0
        while isinstance(v, Arr) and 'stores' not in v.tags and v.parents and seen < 10:
            seen += 1
            if 'scale' in v.tags and v.tags['scale'][1] is not v:
                coef = coef * v.tags['scale'][0]
                v = v.tags['scale'][1]
            else:
                v = v.parents[0]
        for st in (v.tags.get('stores', []) if isinstance(v, Arr) else []):
            out.append((k, st['sel'], st['value'], coef))
    return out


def literal(v):
    """nested python numbers of a stored literal (list / number / array built from literals)"""
    if isinstance(v, (int, float, complex)):
        return v
    if isinstance(v, (list, tuple)):
        return [literal(x) for x in v]
    if isinstance(v, Arr):
        if v.tags.get('const') == 'eye':
            return 'eye'
        if 'value' in v.tags:
            return v.tags['value']
        els = v.tags.get('elements')
        if els:
            return [literal(e) for e in els]
    return None


def conj_lit(x):
    if isinstance(x, list):
        return [conj_lit(y) for y in x]
    if isinstance(x, complex):
        return x.conjugate()
    return x


def close(a, b):
    if isinstance(a, list) and isinstance(b, list):
        return len(a) == len(b) and all(close(x, y) for x, y in zip(a, b))
    if isinstance(a, (int, float, complex)) and isinstance(b, (int, float, complex)):
        return abs(complex(a) - complex(b)) < 1e-13
    return a == b


def check(repo, tier):
    run = Run('C13', tier, repo, 'models.py interpreted from source: concrete model sizes, symbolic array contents (Layer 2) for the structural clauses; sympy rate symbols for the explicit-core generator.')
    run.rule('D1', 'structure: for every model and every size in the grid, every core slot is assigned before the tensor train is built, neighbouring cores chain, every literal block store is in '
             'bounds and conformable, the result satisfies the class invariant with the documented order')
    run.rule('D2', 'reaction tables handed to SLIM stay inside the declared state space (CO oxidation, toll station), with the documented number of cells / bonds')
    run.rule('D3', 'qft and iqft are siblings: same cores, same store positions, every stored literal of one is the complex conjugate of the other\'s; the k-th gate group has k+1 non-trivial cores')
    run.rule('D4', 'fractals: the result is the (level-1)-fold Kronecker product of the generator with itself (cantor_dust, multisponge); rgb_fractal chains level cores')
    run.rule('D5', 'two_step_destruction is a Markov generator for ALL rates: column sums vanish identically in (k_1, k_2, k_3) and every off-diagonal entry is a non-negative combination of the rates')
    run.trusted = ['NumPy transfer functions', 'sympy polynomial arithmetic']
    run.bounds = 'sizes up to 6 (qubits, lanes, cars, levels, cells), two_step_destruction m in {1, 2}'

    def F(fname, rule, what, msg):
        fn = repo.fn(f'{MOD}.{fname}')
        return Finding('C13', rule, fn.where, what, msg, fn.file, fn.node.lineno)
    big = tier == 'thorough'
    grid = []
    for d in ((2, 3, 4, 6) if big else (2, 3, 4)):
        grid.append(('ising', (d, 0.5, 0.25), {}, d))
        grid.append(('exciton_chain', (d, 1.5, 0.5), {}, d))
        grid.append(('signaling_cascade', (d,), {}, d))
        grid.append(('fpu_coefficients', (max(d, 3),), {}, max(d, 3) + 1))
        grid.append(('co_oxidation', (d, 1e4), {'cyclic': d > 2}, d))
    grid.append(('qfa', (), {}, 4))
    grid.append(('simon', (), {}, 8))
    for k in (2, 3, 4):
        grid.append(('qfan', (k,), {}, 3 * k + 1))
    for a in (2, 7):
        grid.append(('shor', (a,), {}, 12))
    for lanes, cars in ((2, 2), (3, 2), (2, 4)):
        grid.append(('toll_station', (lanes, cars), {}, lanes))
    for m in (1, 2):
        grid.append(('two_step_destruction', (1.0, 2.0, 3.0, m), {}, 4))
    for fname, args, kw, want_order in grid:
        scen = f'{fname}{args}{kw or ""}'

        def body(sc):
            a = list(args)
            return sc.call(f'{MOD}.{fname}', *a, **kw)
        for ch, sc, res, exc in l2.explore(repo, body, typed=False):
            if exc is not None:
                run.oblige('D1', (fname, scen), False)
                l2rules.raised_finding(run, 'C13', 'D1', repo, f'{MOD}.{fname}', scen, exc)
                continue
            ok = hasattr(res, '_attrs') and l2rules.invariant_obligation(run, 'C13', 'D1', repo, sc, res, f'{MOD}.{fname}', scen, 'model', chain=False)
            bad = []
            if ok and res._attrs['order'] != want_order:
                bad.append(f'order {res._attrs["order"]} instead of {want_order}')
            for e in sc.events('store-bounds-unproved'):
                bad.append('a block store is not provably in bounds: ' + e['detail'][:120])
            if ok and not (sz_eq(res._attrs['ranks'][0], 1) and sz_eq(res._attrs['ranks'][-1], 1)):
                bad.append(f'boundary ranks {res._attrs["ranks"][0]}, {res._attrs["ranks"][-1]}')
            run.oblige('D1', (fname, scen, 'structure'), ok and not bad, sample={'rule': 'D1', 'model': scen, 'ranks': [str(r) for r in res._attrs['ranks']]} if ok and len(run.samples) < 4 else None)
            if bad:
                run.add(F(fname, 'D1', 'structure of the model', f'{scen}: ' + '; '.join(bad[:3])))
            # D2: reaction tables
            if fname in ('co_oxidation', 'toll_station'):
                calls = [e for e in sc.events('call') if e['callee'].name == 'slim_mme']
                bad = []
                if not calls:
                    bad.append('slim_mme is not called')
                else:
                    ss, scr, tcr = calls[0]['args'][:3]
                    ncell = args[0]
                    if len(ss) != ncell or len(scr) != ncell:
                        bad.append(f'{len(ss)} cells / {len(scr)} single-cell lists for {ncell} cells')
                    want_b = ncell if (fname == 'co_oxidation' and kw.get('cyclic')) else ncell - 1
                    if len(tcr) != want_b:
                        bad.append(f'{len(tcr)} two-cell lists, expected {want_b}')
                    for i, lst in enumerate(scr):
                        for r in lst:
                            if not (0 <= r[0] < ss[i] and 0 <= r[1] < ss[i]):
                                bad.append(f'single-cell reaction {r[:2]} of cell {i} leaves the state space of size {ss[i]}')
                    for i, lst in enumerate(tcr):
                        j = (i + 1) % len(ss)
                        for r in lst:
                            if not (0 <= r[0] < ss[i] and 0 <= r[1] < ss[i] and 0 <= r[2] < ss[j] and 0 <= r[3] < ss[j]):
                                bad.append(f'two-cell reaction {r[:4]} of bond {i} leaves the state space')
                            if not (r[4] > 0):
                                bad.append(f'two-cell reaction {r[:4]} has a non-positive rate')
                run.oblige('D2', (fname, scen), not bad)
                if bad:
                    run.add(F(fname, 'D2', 'reaction tables', f'{scen}: ' + '; '.join(sorted(set(bad))[:3])))
    # ------------------------------------------------------------------ D3 qft / iqft
    for n in ((1, 2, 3, 4, 5, 6, 7) if big else (1, 2, 3, 5, 6)):
        groups = {}
        for fname in ('qft', 'iqft'):
            def body(sc):
                return sc.call(f'{MOD}.{fname}', n)
            for ch, sc, res, exc in l2.explore(repo, body, typed=False):
                if exc is not None:
                    run.oblige('D3', (fname, n), False)
                    l2rules.raised_finding(run, 'C13', 'D3', repo, f'{MOD}.{fname}', f'{fname}({n})', exc)
                    continue
                ok = isinstance(res, list) and len(res) == n and all(hasattr(g, '_attrs') for g in res)
                if ok:
                    ok = all(l2rules.invariant_obligation(run, 'C13', 'D1', repo, sc, g, f'{MOD}.{fname}', f'{fname}({n}) group {k}', 'gate group', chain=False) for k, g in enumerate(res))
                if not ok:
                    run.add(F(fname, 'D3', 'gate groups', f'{fname}({n}) does not return {n} well-formed gate groups'))
                    continue
                groups[fname] = [[(k, str(sel), literal(v), coef) for k, sel, v, coef in stores_of(g)] for g in res]
        if len(groups) == 2:
            bad = []
            for k, (ga, gb) in enumerate(zip(groups['qft'], groups['iqft'])):
                if len(ga) != len(gb):
                    bad.append(f'group {k}: {len(ga)} vs {len(gb)} stores')
                    continue
                for (ka, sa, va, ca), (kb, sb, vb, cb) in zip(ga, gb):
                    if ka != kb or sa != sb:
                        bad.append(f'group {k}: store into core {ka} at {sa} vs core {kb} at {sb}')
                    elif va is None or vb is None:
                        bad.append(f'group {k}: a stored value is not a literal')
                    elif not close(conj_lit(va), vb) or abs(complex(ca) - complex(cb).conjugate()) > 1e-13:
                        bad.append(f'group {k}, core {ka}, {sa}: qft stores {va} (factor {ca}), iqft stores {vb} (factor {cb}) -- not complex conjugates')
                # the phases of group k: exp(i pi / 2^(k-i)) on core i
                for (kc, sel, v, coef) in ga:
                    if isinstance(v, list) and len(v) == 2 and isinstance(v[1], list) and isinstance(v[1][1], complex) and k >= 1 and kc < k:
                        want = cmath.exp(1j * math.pi / (2 ** (k - kc)))
                        if abs(v[1][1] - want) > 1e-13:
                            bad.append(f'qft group {k}, core {kc}: phase {v[1][1]} instead of exp(i pi / 2^{k - kc})')
            run.oblige('D3', ('qft/iqft', n), not bad, sample={'rule': 'D3', 'qubits': n, 'verdict': 'held' if not bad else 'VIOLATED'})
            if bad:
                run.add(F('iqft', 'D3', 'qft / iqft are not conjugate siblings', f'{n} qubits: ' + '; '.join(bad[:3])))
    # ------------------------------------------------------------------ D4 fractals
    for fname, argsets in (('cantor_dust', [(1, 3), (2, 3), (3, 2), (2, 1)]), ('multisponge', [(2, 3), (3, 2), (2, 1)])):
        for (dim, level) in argsets:
            scen = f'{fname}(dimension={dim}, level={level})'

            def body(sc):
                return sc.call(f'{MOD}.{fname}', dim, level)
            for ch, sc, res, exc in l2.explore(repo, body, typed=False):
                if exc is not None:
                    run.oblige('D4', (fname, scen), False)
                    l2rules.raised_finding(run, 'C13', 'D4', repo, f'{MOD}.{fname}', scen, exc)
                    continue
                bad = []
                if not (isinstance(res, Arr) and res.ndim == dim and all(sz_eq(s, 3 ** level) for s in res.shape)):
                    bad.append(f'result shape {getattr(res, "shape", None)} instead of {(3 ** level,) * dim}')
                # the result is the level-fold Kronecker power of ONE generator, however the products are grouped (g (x) g (x) g left-nested, or (g (x) g) (x) g ...):
                # the leaves of the tree of np.kron calls
                def leaves(v, depth=0):
                    if not isinstance(v, Arr) or depth > 60:
                        return [v]
                    if 'kron' in v.tags:
                        a_, b_ = v.tags['kron']
                        return leaves(a_, depth + 1) + leaves(b_, depth + 1)
                    if v.parents and v.origin in ('astype', 'copy'):
                        return leaves(v.parents[0], depth + 1)
                    return [v]
                lv = leaves(res)
                if len(lv) != level:
                    bad.append(f'the result is a Kronecker product of {len(lv)} factors for level {level}')
                if any(x is not lv[0] for x in lv[1:]):
                    bad.append('the Kronecker factors are not one and the same generator')
                run.oblige('D4', (fname, scen), not bad)
                if bad:
                    run.add(F(fname, 'D4', 'Kronecker power', f'{scen}: ' + '; '.join(bad[:3])))
    # ------------------------------------------------------------------ D4b generators of the fractals (level 1) cell by cell, and dtype of the RGB cores
    fractal_generator_rule(run, repo, F, big)
    # ------------------------------------------------------------------ D5 two_step_destruction over rate symbols
    two_step_rule(run, repo, F)
    coefficient_rule(run, repo, F, big)
    circuit_rule(run, repo, F, big)
    hamiltonian_rule(run, repo, F, big)
    run.floor('obligations decided', run.obligations, 40)
    return run


def sym_np():
    from .p_c19 import NpObject

    class Np(NpObject):
        ndarray = np.ndarray
        pi = math.pi
        complex128 = complex
        stack = staticmethod(np.stack)
        concatenate = staticmethod(lambda parts, axis=0, dtype=None, **k: np.concatenate([np.asarray(p_, dtype=object) for p_ in parts], axis=axis))
        add = staticmethod(lambda a, b, dtype=None, **k: a + b)

        @staticmethod
        def block(blocks):
            def conv(b_):
                return [conv(x_) for x_ in b_] if isinstance(b_, list) else np.asarray(b_, dtype=object)
            return np.block(conv(blocks))
        dtype = staticmethod(np.dtype)
        newaxis = None
        binary_repr = staticmethod(np.binary_repr)
        mod = staticmethod(lambda a, b: a % b)
        result_type = staticmethod(lambda *a: object)

        class linalg:
            matrix_power = staticmethod(np.linalg.matrix_power)

        @staticmethod
        def sqrt(x):
            if isinstance(x, (int, float)):
                return math.sqrt(x)
            return NpObject.sqrt(x)

        @staticmethod
        def exp(x):
            if isinstance(x, (int, float, complex)):
                return cmath.exp(x)
            return np.array([sp.exp(v) for v in x.flat], dtype=object).reshape(x.shape)

        @staticmethod
        def eye(n, m=None, k=0, dtype=None):
            a = np.empty((n, n if m is None else m), dtype=object)
            a[...] = sp.Integer(0)
            for i in range(n):
                j = i + k
                if 0 <= j < a.shape[1]:
                    a[i, j] = sp.Integer(1)
            return a

        @staticmethod
        def arange(*a, **kw):
            # native integers / floats: usable as index vectors; arithmetic with symbols turns them into object arrays
            return np.arange(*a)

        @staticmethod
        def reciprocal(a):
            return np.array([1 / sp.nsimplify(x, rational=True) for x in np.asarray(a).flat], dtype=object).reshape(np.shape(a))

        @staticmethod
        def diag(v, k=0):
            v = np.asarray(v, dtype=object)
            if v.ndim == 1:
                n = len(v) + abs(k)
                a = np.empty((n, n), dtype=object)
                a[...] = sp.Integer(0)
                for i in range(len(v)):
                    a[(i, i + k) if k >= 0 else (i - k, i)] = v[i]
                return a
            return np.array([v[i, i] for i in range(min(v.shape))], dtype=object)

        def __getattr__(self, name):
            if name == 'all':
                return lambda xs, **k: all(bool(x) for x in xs)
            if name in ('complex', 'iscomplexobj', 'zeros_like'):
                return {'iscomplexobj': lambda a: False, 'zeros_like': lambda a, **k: Np.zeros(a.shape)}[name]
            return NpObject.__getattr__(self, name)
    return Np()


def sym_call(repo, fname, *args):
    from .p_c19 import Dom
    it = Interp(repo, libs={'numpy': sym_np(), 'typing': object(), 'math': math, '__future__': object()}, domain=Dom(),
                intercept={'utils.progress': lambda it, *a, **k: 0.0, 'tensor_train.TT.ortho': lambda it, self_, *a, **k: self_})   # ortho preserves the represented operator (C03 / C05)
    fn = repo.fn(f'{MOD}.{fname}')
    it.stack.append(Frame(fn, repo.modules[fn.mod], {}))
    try:
        return it.call_fn(fn, list(args), {})
    except Fork:
        raise AnalysisError(f'{fname} could not be interpreted over symbols: undecidable test {it.fork_log[-1]}')
    except Raised as r:
        if getattr(r, 'native', False) and (r.exc_type in ('TypeError', 'AttributeError') or 'must be of integer' in r.message or 'object' in r.message):
            # real NumPy working on object arrays of expressions can fail for dtype reasons where it would not fail on numbers: no verdict
            # (shape / broadcasting errors are the same for object arrays and are kept as the program's own errors)
            raise AnalysisError(f'{fname}: a library call failed in the symbolic domain ({r.exc_type}: {r.message}) at {r.where}')
        raise


def small(e, tol=1e-12):
    e = sp.expand(e)
    if e == 0:
        return True
    return all(abs(complex(c)) < tol for c in sp.Poly(e, *sorted(e.free_symbols, key=str)).coeffs()) if e.free_symbols else abs(complex(e)) < tol


def coefficient_rule(run, repo, F, big):
    """D6: the MANDy coefficient tensors contracted with the transformed state give the right-hand sides documented in the repository
    (examples/kuramoto.py, examples/fermi_pasta_ulam_1.py): polynomial identity in the basis-function values (independent indeterminates)"""
    run.rule('D6', 'coefficient tensors: kuramoto_coefficients(d, w) contracted with (1, sin x_1..sin x_d) x (1, cos x_1..cos x_d) equals w_q + (2/d) sum_j sin(x_j - x_q) + 0.2 sin(x_q) for every q, '
             'identically in sin/cos values and frequencies; fpu_coefficients(d) contracted with (1, x, x^2, x^3) per oscillator equals (x_{q+1} - 2 x_q + x_{q-1}) + 0.7((x_{q+1}-x_q)^3 - (x_q-x_{q-1})^3)')
    for d in ((2, 3, 4, 5, 7) if big else (2, 3, 5)):
        w = np.array(sp.symbols(f'w1:{d + 1}'), dtype=object)
        sn = sp.symbols(f's1:{d + 1}')
        cs = sp.symbols(f'c1:{d + 1}')
        try:
            t = sym_call(repo, 'kuramoto_coefficients', d, w)
        except Raised as e:
            run.oblige('D6', ('kuramoto', d), False)
            run.add(F('kuramoto_coefficients', 'D6', 'construction', f'd={d}: raises {e}'))
            continue
        cores = t._attrs['cores']
        b = [np.array([1, *sn], dtype=object), np.array([1, *cs], dtype=object)]
        bad = None
        if len(cores) != 3 or cores[2].shape[1] != d:
            bad = f'{len(cores)} cores / output dimension {cores[-1].shape[1]}'
        else:
            v = np.tensordot(b[0], cores[0][0, :, 0, :], axes=(0, 0))
            v = np.dot(v, np.tensordot(b[1], cores[1][:, :, 0, :], axes=(0, 1)))
            out = np.dot(v, cores[2][:, :, 0, 0])
            for q in range(d):
                want = w[q] + sp.Rational(2, d) * sum(sn[j] * cs[q] - cs[j] * sn[q] for j in range(d)) + sp.Rational(1, 5) * sn[q]
                if not small(out[q] - want):
                    bad = bad or f'component {q}: tensor gives {sp.expand(out[q])}, the system has {sp.expand(want)}'
        run.oblige('D6', ('kuramoto', d), bad is None, sample={'rule': 'D6', 'model': 'kuramoto', 'd': d} if d == 3 else None)
        if bad:
            run.add(F('kuramoto_coefficients', 'D6', 'right-hand side', f'd={d}: {bad}'))
    for d in ((3, 4, 5, 6) if big else (3, 4, 5)):
        xs = sp.symbols(f'x1:{d + 1}')
        try:
            t = sym_call(repo, 'fpu_coefficients', d)
        except Raised as e:
            run.oblige('D6', ('fpu', d), False)
            run.add(F('fpu_coefficients', 'D6', 'construction', f'd={d}: raises {e}'))
            continue
        cores = t._attrs['cores']
        bad = None
        if len(cores) != d + 1 or cores[-1].shape[1] != d:
            bad = f'{len(cores)} cores / output dimension {cores[-1].shape[1]}'
        else:
            v = np.array([sp.Integer(1)], dtype=object)
            for k in range(d):
                bk = np.array([1, xs[k], xs[k] ** 2, xs[k] ** 3], dtype=object)
                v = np.dot(v, np.tensordot(bk, cores[k][:, :, 0, :], axes=(0, 1)))
            out = np.dot(v, cores[d][:, :, 0, 0])
            xx = (0, *xs, 0)
            for q in range(1, d + 1):
                want = (xx[q + 1] - 2 * xx[q] + xx[q - 1]) + sp.Rational(7, 10) * ((xx[q + 1] - xx[q]) ** 3 - (xx[q] - xx[q - 1]) ** 3)
                if not small(out[q - 1] - want):
                    bad = bad or f'component {q - 1}: tensor gives {sp.expand(out[q - 1])}, the system has {sp.expand(want)}'
        run.oblige('D6', ('fpu', d), bad is None)
        if bad:
            run.add(F('fpu_coefficients', 'D6', 'right-hand side', f'd={d}: {bad[:400]}'))


def fractal_generator_rule(run, repo, F, big):
    """the level-1 fractal is the generator itself; its cells are given by the definitions: Cantor dust {0, 2}^D; Vicsek cross: at most one coordinate differs
    from the centre; multisponge (Sierpinski carpet, Menger sponge, ...): fewer than two coordinates at the centre.  Constant propagation of the core tables."""
    specs = {'cantor_dust': lambda c: all(x != 1 for x in c),
             'vicsek_fractal': lambda c: sum(1 for x in c if x != 1) <= 1,
             'multisponge': lambda c: sum(1 for x in c if x == 1) < 2}
    dims = {'cantor_dust': (1, 2, 3, 4, 5) if big else (1, 2, 3, 4), 'vicsek_fractal': (2, 3, 4, 5, 6) if big else (2, 3, 4, 5), 'multisponge': (2, 3, 4, 5) if big else (2, 3, 4)}
    for fname, spec in specs.items():
        for dim in dims[fname]:
            scen = f'{fname}(dimension={dim}, level=1)'
            try:
                g = sym_call(repo, fname, dim, 1)
            except Raised as e:
                run.oblige('D4', (fname, scen, 'cells'), False)
                run.add(F(fname, 'D4', 'generator cells', f'{scen}: raises {e}'))
                continue
            g = np.asarray(g)
            bad = None
            if g.shape != (3,) * dim:
                bad = f'shape {g.shape}'
            else:
                for c in itertools.product(range(3), repeat=dim):
                    want = 1 if spec(c) else 0
                    if int(g[c]) != want:
                        bad = f'cell {c} is {int(g[c])} instead of {want} ({int(g.sum())} cells set instead of {sum(1 for c_ in itertools.product(range(3), repeat=dim) if spec(c_))})'
                        break
            run.oblige('D4', (fname, scen, 'cells'), bad is None)
            if bad:
                run.add(F(fname, 'D4', 'generator cells', f'{scen}: {bad}'))
    # rgb_fractal: three channels with matrices of possibly different dtypes: no value may be truncated when the cores are filled
    for dts in (('int', 'real', 'real'), ('real', 'int', 'int'), ('real', 'real', 'real')):
        scen = f'rgb_fractal(matrices of dtype {dts}, level=2)'

        def body(sc):
            n = sc.atom('n')
            ms = [Arr([n, n], None, dt, None, {'role': f'matrix_{c}'}, f'matrix_{c}') for c, dt in zip('rgb', dts)]
            return sc.call(f'{MOD}.rgb_fractal', ms[0], ms[1], ms[2], 2)
        for ch, sc, res, exc in l2.explore(repo, body, typed=False):
            if exc is not None:
                run.oblige('D4', ('rgb_fractal', scen), False)
                l2rules.raised_finding(run, 'C13', 'D4', repo, f'{MOD}.rgb_fractal', scen, exc)
                continue
            loss = sc.events('float-loss') + sc.events('complex-loss')
            run.oblige('D4', ('rgb_fractal', scen, 'dtype'), not loss)
            if loss:
                run.add(F('rgb_fractal', 'D4', 'dtype of the cores', f'{scen}: {loss[0]["detail"]}'))


def colsum_norm2(cores):
    """sum over all column multi-indices of (column sum)^2 of a TT operator with object-array cores, computed in TT form by transfer matrices"""
    E = np.array([[sp.Integer(1)]], dtype=object)
    for c in cores:
        G = c.sum(axis=1)                     # a, n, b
        E2 = np.empty((G.shape[2], G.shape[2]), dtype=object)
        E2[...] = sp.Integer(0)
        for n in range(G.shape[1]):
            g = G[:, n, :]
            if all(x == 0 for x in g.flat):
                continue
            E2 = E2 + g.T.dot(E).dot(g)
        E = E2
    return sp.expand(E[0, 0])


def sign_sets(block):
    """(signs on the diagonal, signs off the diagonal) of a square block with numeric / polynomial entries; sign of a polynomial in positive symbols = the common sign of its coefficients ('?' if mixed)"""
    def sg(e):
        e = sp.expand(e)
        if e == 0:
            return 0
        if e.free_symbols:
            cs = sp.Poly(e, *sorted(e.free_symbols, key=str)).coeffs()
            if all(c > 0 for c in cs):
                return 1
            if all(c < 0 for c in cs):
                return -1
            return '?'
        return 1 if e > 0 else -1
    dg, off = set(), set()
    n = block.shape[0]
    for i in range(n):
        for j in range(block.shape[1]):
            v = block[i, j]
            if v == 0:
                continue
            (dg if i == j else off).add(sg(v))
    return dg, off


def offdiag_nonneg(cores):
    """sufficient structural argument: the operator is the sum over rank paths of Kronecker products of blocks; if for every path every product of one diagonal-or-off-diagonal
    sign per factor, not all diagonal, is non-negative, all off-diagonal entries are non-negative.  Returns None if the argument goes through, otherwise the offending path."""
    info = []
    for c in cores:
        d = {}
        for a in range(c.shape[0]):
            for b in range(c.shape[3]):
                blk = c[a, :, :, b]
                if any(x != 0 for x in blk.flat):
                    d[(a, b)] = sign_sets(blk)
        info.append(d)
    # dynamic programme over the chain: state = (rank index, set of reachable (sign, any-offdiag-so-far))
    states = {0: {(1, False)}}
    trace = {0: ()}
    for k, d in enumerate(info):
        nxt = {}
        for (a, b), (dg, off) in d.items():
            if a not in states:
                continue
            for (sgn, anyoff) in states[a]:
                for s_ in dg:
                    nxt.setdefault(b, set()).add((mul(sgn, s_), anyoff))
                for s_ in off:
                    nxt.setdefault(b, set()).add((mul(sgn, s_), True))
        states = nxt
    bad = [st for st in states.get(0, ()) if st[1] and st[0] in (-1, '?')]
    return None if not bad else bad


def mul(a, b):
    if a == 0 or b == 0:
        return 0
    if '?' in (a, b):
        return '?'
    return a * b


def dense_offdiag_negative(cores):
    """exact fallback: enumerate the non-zero entries of the operator sparsely (sum over rank paths of products of non-zero block entries)"""
    nnz = [sum(1 for x in c.flat if x != 0) for c in cores]
    if np.prod([float(x) for x in nnz]) > 2e6:
        return 'undecided'
    state = {0: {((), ()): sp.Integer(1)}}
    for c in cores:
        nxt = {}
        entries = [(a, i, j, b, c[a, i, j, b]) for a in range(c.shape[0]) for i in range(c.shape[1]) for j in range(c.shape[2]) for b in range(c.shape[3]) if c[a, i, j, b] != 0]
        for (a, i, j, b, v) in entries:
            for (row, col), w in state.get(a, {}).items():
                d = nxt.setdefault(b, {})
                key = (row + (i,), col + (j,))
                d[key] = d.get(key, 0) + w * v
        state = nxt
    for (row, col), e in state.get(0, {}).items():
        if row == col:
            continue
        e = sp.expand(e)
        if e != 0:
            cs = sp.Poly(e, *sorted(e.free_symbols, key=str)).coeffs() if e.free_symbols else [e]
            if any(c_ < -1e-14 for c_ in cs):
                return (row, col, e)
    return None


def tt_generator_rule(run, F, fname, scen, cores):
    n2 = colsum_norm2(cores)
    scale = sum(abs(complex(x)) ** 2 if not getattr(x, 'free_symbols', None) else 1 for c in cores for x in c.flat if x != 0)
    ok = small(n2, 1e-20 * max(1.0, scale))
    run.oblige('D5', (fname, scen, 'column sums'), ok, sample={'rule': 'D5', 'model': scen, 'sum_of_squared_column_sums': str(n2)[:80]})
    if not ok:
        run.add(F(fname, 'D5', 'column sums', f'{scen}: the sum over all columns of (column sum)^2, computed in TT form, is {str(n2)[:200]} instead of 0'))
    bad = offdiag_nonneg(cores)
    if bad is not None:
        dense = dense_offdiag_negative(cores)
        if dense == 'undecided' and any(f.rule == 'D5' and fname in f.where for f in run.findings.values()):
            run.note(f'{scen}: sign argument not decided at this size (a violation at a smaller size is already reported)')
            return
        if dense == 'undecided':
            raise AnalysisError(f'{fname} {scen}: the sign argument over rank paths does not go through ({bad}) and the operator is too large to enumerate')
        bad = dense
    run.oblige('D5', (fname, scen, 'signs'), bad is None)
    if bad is not None:
        run.add(F(fname, 'D5', 'off-diagonal signs', f'{scen}: entry {bad[0]} <- {bad[1]} is {bad[2]} (negative off the diagonal)'))


def to_complex(cores):
    return [np.array(c, dtype=complex) for c in cores]


def dense_op(cores):
    """dense matrix of a TT operator (first mode most significant), entries of whatever type the cores hold"""
    t = cores[0][0]                                   # m, n, r
    for c in cores[1:]:
        t = np.tensordot(t, c, axes=(t.ndim - 1, 0))  # m1 n1 m2 n2 ... r
    t = t[..., 0]
    d = len(cores)
    t = t.transpose([2 * k for k in range(d)] + [2 * k + 1 for k in range(d)])
    rows = int(np.prod([c.shape[1] for c in cores]))
    cols = int(np.prod([c.shape[2] for c in cores]))
    return t.reshape(rows, cols)


def isometry_defect(cores):
    """|| U^H U - I ||_F^2 in TT form: cores of V = U^H U have rank r^2; ||V - I||^2 = ||V||^2 - 2 Re tr V + N"""
    cs = to_complex(cores)
    E = np.ones((1, 1), dtype=complex)
    tr = np.ones((1,), dtype=complex)
    N = 1
    for c in cs:
        r0, m, n, r1 = c.shape
        # V[aa', n, n', bb'] = sum_m conj(c[a, m, n, b]) c[a', m, n', b']
        V = np.einsum('amnb,cmkd->acnkbd', c.conj(), c).reshape(r0 * r0, n, n, r1 * r1)
        E2 = np.zeros((r1 * r1, r1 * r1), dtype=complex)
        for i in range(n):
            for j in range(n):
                E2 += V[:, i, j, :].conj().T @ E @ V[:, i, j, :]
        E = E2
        tr = tr @ np.einsum('aiib->ab', V)
        N *= n
    return float(abs(E[0, 0] - 2 * tr[0].real + N))


def circuit_rule(run, repo, F, big):
    run.rule('D7', 'quantum circuits (constant tables, parameter-free apart from the size): every gate group of qft / iqft, the full adder, the adder network and the Shor oracle satisfy U^H U = I '
             '(|| U^H U - I ||_F^2 evaluated in TT form from the interpreted core tables); the QFT groups multiply to the bit-reversed DFT and the inverse groups to its conjugate')
    jobs = [('qfa', ()), ('qfan', (1,)), ('qfan', (2,)), ('qfan', (3,))] + [('shor', (a,)) for a in ((2, 4, 7, 8, 11, 13, 14) if big else (2, 7, 13))]
    for n in ((1, 2, 3, 4, 5, 6, 7) if big else (1, 2, 3, 5, 6)):
        jobs += [('qft', (n,)), ('iqft', (n,))]
    for fname, args in jobs:
        scen = f'{fname}{args}'
        try:
            res = sym_call(repo, fname, *args)
        except Raised as e:
            run.oblige('D7', (scen,), False)
            run.add(F(fname, 'D7', 'construction', f'{scen}: raises {e}'))
            continue
        groups = res if isinstance(res, list) else [res]
        bad = None
        for k, g in enumerate(groups):
            cores = g._attrs['cores']
            if any(c.shape[1] != c.shape[2] for c in cores):
                bad = bad or f'group {k} is not square'
                continue
            dfc = isometry_defect(cores)
            if dfc > 1e-18 * 4 ** len(cores) + 1e-20:
                bad = bad or f'group {k}: || U^H U - I ||_F^2 = {dfc:.3e}'
        if fname in ('qft', 'iqft') and bad is None and args[0] <= 7:
            n = args[0]
            P = np.eye(2 ** n, dtype=complex)
            for g in groups:
                P = np.array(dense_op(to_complex(g._attrs['cores']))) @ P
            idx = np.arange(2 ** n)
            rev = np.array([int(np.binary_repr(i, width=n)[::-1], 2) if n else 0 for i in idx])
            sign = 1 if fname == 'qft' else -1
            want = np.exp(sign * 2j * np.pi * np.outer(rev, idx) / 2 ** n) / np.sqrt(2 ** n)
            err = float(np.abs(P - want).max())
            if err > 1e-12:
                bad = f'the product of the gate groups differs from the {"" if sign == 1 else "conjugate "}bit-reversed DFT by {err:.3e}'
        run.oblige('D7', (scen,), bad is None, sample={'rule': 'D7', 'circuit': scen, 'groups': len(groups)} if fname == 'qft' and args == (3,) else None)
        if bad:
            run.add(F(fname, 'D7', 'unitarity / Fourier transform', f'{scen}: {bad}'))


def hamiltonian_rule(run, repo, F, big):
    run.rule('D8', 'ising(d, J, h) equals H(x) = -J sum x_i x_{i+1} - h sum x_i entry by entry (x_i = +1, -1 for index 0, 1), identically in J and h; exciton_chain(n, alpha, beta) equals '
             'alpha sum_i n_i + beta sum_i (raise_i lower_{i+1} + lower_i raise_{i+1}) over the periodic chain, identically in alpha and beta')
    J, h, al, be = sp.symbols('J h alpha beta')
    for d in ((2, 3, 4, 5, 6) if big else (2, 3, 4)):
        try:
            t = sym_call(repo, 'ising', d, J, h)
        except Raised as e:
            run.oblige('D8', ('ising', d), False)
            run.add(F('ising', 'D8', 'construction', f'd={d}: raises {e}'))
            continue
        H = dense_op(t._attrs['cores'])
        bad = None
        for r, x in enumerate(itertools.product((1, -1), repeat=d)):
            want = -J * sum(x[i] * x[i + 1] for i in range(d - 1)) - h * sum(x)
            if H.shape != (2 ** d, 1):
                bad = f'shape {H.shape}'
                break
            if not small(H[r, 0] - want):
                bad = bad or f'H{x} = {sp.expand(H[r, 0])} instead of {sp.expand(want)}'
        run.oblige('D8', ('ising', d), bad is None)
        if bad:
            run.add(F('ising', 'D8', 'energy function', f'd={d}: {bad}'))
    up = np.array([[0, 0], [1, 0]], dtype=object)      # raising = diag([1], -1)
    dn = up.T
    num = up.dot(dn)
    one = np.array([[1, 0], [0, 1]], dtype=object)

    def site(op, k, n):
        m = np.array([[sp.Integer(1)]], dtype=object)
        for i in range(n):
            m = np.kron(m, op if i == k else one)
        return m
    for n in ((2, 3, 4, 5) if big else (2, 3, 4)):
        try:
            t = sym_call(repo, 'exciton_chain', n, al, be)
        except Raised as e:
            run.oblige('D8', ('exciton_chain', n), False)
            run.add(F('exciton_chain', 'D8', 'construction', f'n={n}: raises {e}'))
            continue
        # the cores are polynomial in the parameters: a division by a parameter-dependent quantity (beta / sqrt(|beta|)) is 0/0 = NaN where it vanishes, although the
        # product of the factors simplifies to the right polynomial
        dens = set()
        for c_ in t._attrs['cores']:
            for e_ in np.asarray(c_, dtype=object).ravel():
                if isinstance(e_, sp.Basic):
                    for pw in e_.atoms(sp.Pow):
                        if pw.exp.is_negative and (pw.base.free_symbols & {al, be}):
                            dens.add(pw.base)
        run.oblige('D8', ('exciton_chain', n, 'no division by parameters'), not dens)
        if dens:
            run.add(F('exciton_chain', 'D8', 'division by a parameter-dependent quantity', f'n={n}: a core entry divides by {sorted(map(str, dens))[:3]}: for parameter values where it vanishes '
                      f'(an uncoupled chain, beta = 0) the entries are 0/0 = NaN although the formula is a polynomial in alpha and beta'))
        H = dense_op(t._attrs['cores'])
        want = sum(al * site(num, i, n) for i in range(n))
        for i in range(n):
            j = (i + 1) % n
            want = want + be * (site(up, i, n).dot(site(dn, j, n)) + site(dn, i, n).dot(site(up, j, n)))
        bad = None
        if H.shape != want.shape:
            bad = f'shape {H.shape}'
        else:
            for r in range(H.shape[0]):
                for c in range(H.shape[1]):
                    if not small(H[r, c] - want[r, c]):
                        bad = bad or f'entry ({r}, {c}) is {sp.expand(H[r, c])} instead of {sp.expand(want[r, c])}'
        run.oblige('D8', ('exciton_chain', n), bad is None)
        if bad:
            run.add(F('exciton_chain', 'D8', 'Hamiltonian', f'n={n}: {bad}'))


def two_step_rule(run, repo, F):
    for d in (2, 3, 4, 6):
        try:
            op = sym_call(repo, 'signaling_cascade', d)
        except Raised as e:
            run.oblige('D5', ('signaling_cascade', d), False)
            run.add(F('signaling_cascade', 'D5', 'construction', f'd={d}: raises {e}'))
            continue
        tt_generator_rule(run, F, 'signaling_cascade', f'signaling_cascade({d})', op._attrs['cores'])
    k1, k2, k3 = sp.symbols('k_1 k_2 k_3', positive=True)
    for m in (1, 2):
        try:
            op = sym_call(repo, 'two_step_destruction', k1, k2, k3, m)
        except Raised as e:
            raise AnalysisError(f'two_step_destruction could not be interpreted over rate symbols: {e}')
        cores = op._attrs['cores']
        # column sums: contract, for every core, the row index against the all-ones vector; the chain of (rank x col x rank) tensors must vanish for every column multi-index
        # equivalently: G[a, n, b] = sum_m core[a, m, n, b]; the generator has zero column sums iff the TT with cores G is the zero tensor.
        G = [c.sum(axis=1) for c in cores]
        ns = [g.shape[1] for g in G]
        bad_cols = 0
        worst = None
        for idx in itertools.product(*[range(n) for n in ns]):
            v = [sp.Integer(1)]
            for g, i in zip(G, idx):
                mat = g[:, i, :]
                v = [sp.expand(sum(v[a] * mat[a, b] for a in range(len(v)))) for b in range(mat.shape[1])]
            if sp.expand(v[0]) != 0:
                bad_cols += 1
                worst = worst or (idx, sp.expand(v[0]))
        run.oblige('D5', ('two_step_destruction', m, 'column sums'), bad_cols == 0, sample={'rule': 'D5', 'm': m, 'columns_checked': int(np.prod(ns)), 'nonzero_column_sums': bad_cols})
        if bad_cols:
            run.add(F('two_step_destruction', 'D5', 'column sums', f'm={m}: {bad_cols} columns have a non-vanishing sum, e.g. column {worst[0]} sums to {worst[1]}'))
        # sign structure: every entry of the operator is a polynomial in the rates; off-diagonal entries must have non-negative coefficients.
        # For m = 1 (sizes 2, 4, 2, 2) all entries are enumerated.
        if m == 1:
            neg = None
            dims = [c.shape[1] for c in cores]
            for row in itertools.product(*[range(n) for n in dims]):
                for col in itertools.product(*[range(n) for n in dims]):
                    if row == col:
                        continue
                    v = [sp.Integer(1)]
                    for c, i, j in zip(cores, row, col):
                        mat = c[:, i, j, :]
                        v = [sum(v[a] * mat[a, b] for a in range(len(v))) for b in range(mat.shape[1])]
                    e = sp.expand(v[0])
                    if e != 0 and any(coef < 0 for coef in sp.Poly(e, k1, k2, k3).coeffs()):
                        neg = neg or (row, col, e)
            run.oblige('D5', ('two_step_destruction', m, 'signs'), neg is None)
            if neg:
                run.add(F('two_step_destruction', 'D5', 'off-diagonal signs', f'm=1: entry {neg[0]} <- {neg[1]} is {neg[2]} (negative rate coefficient off the diagonal)'))
