"""C06  Operands keep their value: no hidden mutation or aliasing across calls (DESIGN.md 3, C06).

Frame argument over ALL paths of ALL functions (no bound): rules R-a, R-b, R-c, R-e on Layer-1 summaries;
R-d (class invariant of escaping tensor trains) is decided by the Layer-2 shape interpreter when available.
"""
import ast
import os

from . import own
from .core import AnalysisError, Finding, Repo, Run, VERIF, norm_text

INPLACE_METHODS = {'ortho_left', 'ortho_right', 'ortho', '__init__'}   # from the property text: orthonormalisation, truncating construction


def inplace_allowed(fn, path, consts):
    return fn.cls == 'TT' and path == 'self' and (fn.name in INPLACE_METHODS or consts.get('overwrite') is True)


def tt_paths(sm):
    return sorted(sm.ttkind)


def is_tt_path(sm, path):
    root = path.split('.')[0]
    if path.endswith('[]'):
        return False            # replacing an element of a caller's list does not change any tensor train
    return path in sm.ttkind or root in sm.ttkind and '.' not in path or any(path == p or path.startswith(p + '.') for p in sm.ttkind)


def frame_findings(repo, an, prop='C06', only=None):
    """R-a / R-b over public functions. `only` restricts to a set of function quals (used by the frame clauses of other properties).
    returns (findings, obligations[list of dict])"""
    findings, obligations = [], []
    for (qual, ct), sm in sorted(an.summ.items(), key=lambda x: (x[0][0], str(x[0][1]))):
        fn = repo.fns[qual]
        if only is not None and qual not in only:
            continue
        if only is None and not fn.public:
            continue
        consts = dict(ct)
        variant = (' {overwrite=%s}' % consts['overwrite']) if 'overwrite' in consts else ''
        for p in tt_paths(sm):
            # R-a
            sites = set()
            for path, s in sm.rebinds.items():
                if path == p or path.startswith(p + '.') and path.split('.')[-1] in own.META:
                    sites |= s
            ok_a = not sites or inplace_allowed(fn, p, consts)
            obligations.append({'rule': 'R-a', 'function': qual + variant, 'tt_argument': p, 'verdict': 'held' if ok_a else 'VIOLATED',
                                'why': ('no store to cores/metadata of this argument is reachable on any path' if not sites else
                                        ('in-place operation on its own receiver' if ok_a else f'{len(sites)} store site(s) reach it'))})
            if not ok_a:
                by_origin = {}
                for s in sorted(sites):
                    by_origin.setdefault(s[0], []).append(s)
                for origin, ss in by_origin.items():
                    findings.append(Finding(prop, 'R-a', fn.where + variant, f'{p} <- {origin}',
                                            f'argument `{p}` is modified: ' + '; '.join(f'{s[1]}:{s[2]} {s[3]}' for s in ss[:3]),
                                            fn.file, fn.node.lineno, {'sites': [list(s) for s in ss]}))
            # R-b (applies to in-place operations as well)
            bs = set()
            for path, s in sm.bufwrites.items():
                if path == p or path.startswith(p + '.'):
                    bs |= s
            obligations.append({'rule': 'R-b', 'function': qual + variant, 'tt_argument': p, 'verdict': 'held' if not bs else 'VIOLATED',
                                'why': 'no subscript store / in-place operator / destructive library flag reaches a buffer of this argument' if not bs
                                else f'{len(bs)} buffer write(s)'})
            if bs:
                by_origin = {}
                for s in sorted(bs):
                    by_origin.setdefault(s[0], []).append(s)
                for origin, ss in by_origin.items():
                    findings.append(Finding(prop, 'R-b', fn.where + variant, f'{p} <- {origin}',
                                            f'a core buffer reachable from `{p}` (possibly shared with other tensor trains) may be overwritten: '
                                            + '; '.join(f'{s[1]}:{s[2]} {s[3]}' for s in ss[:3]),
                                            fn.file, fn.node.lineno, {'sites': [list(s) for s in ss]}))
    return findings, obligations


# ------------------------------------------------------------------------------------------------ R-c
def rule_c(repo, an, prop='C06'):
    findings, n = [], 0
    seen = set()
    for (qual, ct), sm in sorted(an.summ.items(), key=lambda x: x[0][0]):
        fn = repo.fns[qual]
        for line, text in sm.shares:
            if (qual, text) in seen:
                continue
            seen.add((qual, text))
            if text.endswith('[metadata list]'):
                findings.append(Finding(prop, 'R-c', fn.where, text, 'a tensor train is given the row_dims / col_dims / ranks LIST object of another live tensor train: an in-place operation on '
                                        'either (rank_transpose, a partial transpose, a store into row_dims[k]) changes the metadata of both, which then no longer match the cores of one of them', fn.file, line))
                continue
            findings.append(Finding(prop, 'R-c', fn.where, text, 'a tensor train is built around the core LIST object of another live tensor train '
                                    '(both would see each other\'s slot updates)', fn.file, line))
    return findings


def count_tt_constructions(repo):
    n = 0
    for fn in repo.all_functions():
        for c in ast.walk(fn.node):
            if isinstance(c, ast.Call) and ((isinstance(c.func, ast.Name) and c.func.id == 'TT') or (isinstance(c.func, ast.Attribute) and c.func.attr == 'TT')):
                n += 1
            if isinstance(c, ast.Assign) and any(isinstance(t, ast.Attribute) and t.attr == 'cores' for t in c.targets):
                n += 1
    return n


# ------------------------------------------------------------------------------------------------ R-e
class _LoopInfo:
    def __init__(self, loop):
        self.loop = loop
        self.defs = {}            # name -> [(rhs node, definite, stmt)]
        self.loopvars = set()

    def collect(self):
        lp = self.loop
        if isinstance(lp, ast.For):
            self.loopvars |= own.names_in(lp.target)
        for st in lp.body:
            self._visit(st, True)
        return self

    def _visit(self, st, definite):
        if isinstance(st, ast.Assign):
            for t in st.targets:
                self._target(t, st.value, definite, st)
        elif isinstance(st, ast.AugAssign) and isinstance(st.target, ast.Name):
            self.defs.setdefault(st.target.id, []).append((st, definite, st))
        elif isinstance(st, (ast.For, ast.While)):
            if isinstance(st, ast.For):
                for n in own.names_in(st.target):
                    self.loopvars.add(n)
            for s in st.body + st.orelse:
                self._visit(s, False)
        elif isinstance(st, ast.If):
            for s in st.body + st.orelse:
                self._visit(s, False)
        elif isinstance(st, ast.Try):
            for s in st.body + st.orelse + st.finalbody + [x for h in st.handlers for x in h.body]:
                self._visit(s, False)
        elif isinstance(st, ast.With):
            for s in st.body:
                self._visit(s, definite)

    def _target(self, t, rhs, definite, st):
        if isinstance(t, ast.Name):
            self.defs.setdefault(t.id, []).append((rhs, definite, st))
        elif isinstance(t, (ast.Tuple, ast.List)):
            for e in t.elts:
                self._target(e, ast.Call(func=ast.Name(id='__unpack__', ctx=ast.Load()), args=[], keywords=[]), definite, st)


MUTATORS = {'append', 'extend', 'insert', 'update', 'setdefault', 'pop', 'popitem', 'clear', 'add', 'remove', 'discard', 'sort', 'reverse'}


def rule_f(repo, prop='C06'):
    """no function keeps results in module-level state: a store into (or a mutating method call on) a module-level container, or an assignment to a name
    declared `global`, makes the result of one call depend on earlier calls (stale values) and lets two calls hand out one object (aliasing).
    Returns (findings, number of functions examined)."""
    findings, n = [], 0
    for fn in repo.all_functions():
        mod = repo.modules[fn.mod]
        module_names = set()
        for st in mod.tree.body:
            if isinstance(st, ast.Assign):
                module_names |= {t.id for t in st.targets if isinstance(t, ast.Name)}
            elif isinstance(st, ast.AnnAssign) and isinstance(st.target, ast.Name):
                module_names.add(st.target.id)
        n += 1
        # memoising decorators keep results in hidden module-level state exactly like an explicit cache dict: every call with equal arguments hands out ONE object
        for dec in fn.node.decorator_list:
            d_ = dec.func if isinstance(dec, ast.Call) else dec
            name_ = d_.attr if isinstance(d_, ast.Attribute) else getattr(d_, 'id', '')
            if name_ in ('lru_cache', 'cache', 'cached', 'memoize', 'memoized', 'cached_property'):
                findings.append(Finding(prop, 'R-f', fn.where, '@' + norm_text(dec, 80), f'`{fn.qual}` is memoised ({norm_text(dec, 60)}): calls with equal arguments return one and the same '
                                        f'mutable object, so an in-place operation on one result (ortho, transpose(overwrite=True), a store into .cores) changes what the next call returns',
                                        fn.file, fn.node.lineno))
        local = set(fn.params)
        declared_global = set()
        for nd in ast.walk(fn.node):
            if isinstance(nd, ast.Global):
                declared_global |= set(nd.names)
        for nd in ast.walk(fn.node):
            if isinstance(nd, (ast.Assign, ast.AugAssign, ast.AnnAssign, ast.For, ast.With, ast.comprehension)):
                tgts = nd.targets if isinstance(nd, ast.Assign) else [getattr(nd, 'target', None)]
                for t in tgts:
                    for x in ast.walk(t) if t is not None else []:
                        if isinstance(x, ast.Name) and isinstance(x.ctx, ast.Store) and x.id not in declared_global:
                            local.add(x.id)

        def root(e):
            while isinstance(e, (ast.Subscript, ast.Attribute)):
                e = e.value
            return e.id if isinstance(e, ast.Name) else None
        hits = []
        for nd in ast.walk(fn.node):
            if isinstance(nd, (ast.Assign, ast.AugAssign)):
                tgts = nd.targets if isinstance(nd, ast.Assign) else [nd.target]
                for t in tgts:
                    if isinstance(t, ast.Subscript) and root(t) not in local and root(t) in module_names:
                        hits.append((nd, root(t)))
                    if isinstance(t, ast.Name) and t.id in declared_global:
                        hits.append((nd, t.id))
            elif isinstance(nd, ast.Call) and isinstance(nd.func, ast.Attribute) and nd.func.attr in MUTATORS and isinstance(nd.func.value, ast.Name) and \
                    nd.func.value.id not in local and nd.func.value.id in module_names:
                hits.append((nd, nd.func.value.id))
        # mutable default arguments are module-level state in disguise: the default object is created once, when the `def` is executed, and every call that does not
        # pass the argument works on that one object -- appending to it / storing into it / returning it carries results from call to call
        a_ = fn.node.args
        pos = list(a_.posonlyargs) + list(a_.args)
        defaults = list(zip(pos[len(pos) - len(a_.defaults):], a_.defaults)) + [(k_, d_) for k_, d_ in zip(a_.kwonlyargs, a_.kw_defaults) if d_ is not None]
        for arg, dflt in defaults:
            mutable = isinstance(dflt, (ast.List, ast.Dict, ast.Set, ast.ListComp, ast.DictComp, ast.SetComp)) or \
                (isinstance(dflt, ast.Call) and (getattr(dflt.func, 'id', None) in ('list', 'dict', 'set', 'bytearray') or
                                                  (isinstance(dflt.func, ast.Attribute) and dflt.func.attr in ('zeros', 'ones', 'empty', 'array', 'eye', 'TT'))))
            if not mutable:
                continue
            rebound = any(isinstance(nd, ast.Assign) and any(isinstance(t, ast.Name) and t.id == arg.arg for t in nd.targets) for nd in ast.walk(fn.node))
            if not fn.public:
                # a helper all of whose call sites pass the argument never uses its default
                idx = [x.arg for x in pos].index(arg.arg) - (1 if fn.cls is not None else 0) if arg in pos else None
                sites = [c for m_ in repo.modules.values() for c in ast.walk(m_.tree) if isinstance(c, ast.Call) and
                         (getattr(c.func, 'id', None) == fn.name or getattr(c.func, 'attr', None) == fn.name)]
                if sites and all((idx is not None and len(c.args) > idx) or any(k_.arg == arg.arg for k_ in c.keywords) or any(isinstance(x, ast.Starred) for x in c.args) or
                                 any(k_.arg is None for k_ in c.keywords) for c in sites):
                    continue
            found = {}
            for nd in ast.walk(fn.node):
                hit = None
                if isinstance(nd, (ast.Assign, ast.AugAssign)):
                    tgts = nd.targets if isinstance(nd, ast.Assign) else [nd.target]
                    if any((isinstance(t, ast.Subscript) and root(t) == arg.arg) or (isinstance(nd, ast.AugAssign) and isinstance(t, ast.Name) and t.id == arg.arg) for t in tgts):
                        hit = 'is modified in place'
                elif isinstance(nd, ast.Call) and isinstance(nd.func, ast.Attribute) and nd.func.attr in MUTATORS and isinstance(nd.func.value, ast.Name) and nd.func.value.id == arg.arg:
                    hit = 'is modified in place'
                elif isinstance(nd, ast.Return) and nd.value is not None and any(isinstance(x, ast.Name) and x.id == arg.arg for x in
                                                                                  ([nd.value] + (list(nd.value.elts) if isinstance(nd.value, (ast.Tuple, ast.List)) else []))):
                    hit = 'is returned'
                if hit and not rebound:
                    found.setdefault(hit, nd)
            for hit in ('is modified in place', 'is returned'):
                if hit in found:
                    nd = found[hit]
                    findings.append(Finding(prop, 'R-f', fn.where, f'{arg.arg}={norm_text(dflt, 40)}: {norm_text(nd, 80)}', f'the mutable default `{arg.arg}={norm_text(dflt, 40)}` of `{fn.qual}` {hit} '
                                            f'({repo.relfile(fn.file)}:{nd.lineno}): the default object exists once per process, so every call that relies on the default continues with what '
                                            f'earlier calls left in it (and hands out the same object again)', fn.file, nd.lineno))
                    break
        for nd, name in hits:
            findings.append(Finding(prop, 'R-f', fn.where, norm_text(nd, 120), f'writes the module-level object `{name}` ({repo.relfile(fn.file)}:{nd.lineno}): results are kept between calls '
                                    f'(a later call can return a stale value, and two calls can hand out one and the same object)', fn.file, nd.lineno))
    return findings, n


def rule_h(repo, an, prop='C06'):
    """a public function hands back (an alias of) one of its tensor-train arguments only if it is an in-place operation on that argument: a value-returning
    operation whose result IS its operand on some path (a "nothing to do" shortcut) couples the two -- an in-place operation on the result rewrites the operand.
    Returns (findings, number of summaries examined)."""
    findings, n = [], 0
    for (qual, ct), sm in sorted(an.summ.items(), key=lambda kv: kv[0][0]):
        fn = repo.fns[qual]
        if not fn.public:
            continue
        consts = dict(ct)
        n += 1
        for a in sorted(sm.ret.alias):
            if not a.startswith('P:'):
                continue
            path = a[2:]
            root = path.split('.')[0]
            if root not in sm.ttkind and path not in sm.ttkind:
                continue
            if inplace_allowed(fn, path, consts):
                continue
            variant = (' {overwrite=%s}' % consts['overwrite']) if 'overwrite' in consts else ''
            findings.append(Finding(prop, 'R-h', fn.where + variant, f'return -> {path}', f'on some path the result is the argument `{path}` itself although the call is not an in-place '
                                    f'operation on it: a later in-place operation on the result (ortho, transpose(overwrite=True), ...) changes the operand', fn.file, fn.node.lineno))
    return findings, n


# the state of a tensor train is its core list and the metadata that can be read off the cores; basis-function objects initialise their dimension lazily
OBJECT_STATE = {'TT': {'order', 'row_dims', 'col_dims', 'ranks', 'cores'}}
LAZY_OK = {'dimension', 'initialized'}


def rule_g(repo, prop='C06', classes=None):
    """no object keeps DERIVED state: (1) a tensor train has no attribute besides cores / order / row_dims / col_dims / ranks that some code writes and some code
    reads (`cores` is a public list which the library itself and its callers assign to directly, so no method can keep a cached flag, norm or canonical-form
    marker current); (2) no method other than __init__ of any other class writes an instance attribute that is read anywhere (evaluation caches keyed on the
    identity of the last argument, counters), except the lazily initialised `dimension` / `initialized` of the basis functions.
    Returns (findings, number of classes examined)."""
    findings, n = [], 0
    reads = {}
    for fn in repo.all_functions():
        for nd in ast.walk(fn.node):
            if isinstance(nd, ast.Attribute) and isinstance(nd.ctx, ast.Load):
                reads.setdefault(nd.attr, []).append((fn, nd))
    # class hierarchy by name: the rule speaks about tensor trains and about the basis-function family (subclasses of transform.Function); other classes of the
    # repository (the `timer` context manager, record classes of the solvers) are stateful by design
    bases = {}
    for mod in repo.modules.values():
        for st in ast.walk(mod.tree):
            if isinstance(st, ast.ClassDef):
                bases[st.name] = [b.id if isinstance(b, ast.Name) else getattr(b, 'attr', None) for b in st.bases]

    def is_function_family(c, depth=0):
        return c == 'Function' or (depth < 8 and any(is_function_family(b, depth + 1) for b in bases.get(c, []) if b))
    for mod in repo.modules.values():
        for cname, cls in getattr(mod, 'classes', {}).items():
            if classes is not None and cname not in classes:
                continue
            if cname not in OBJECT_STATE and not is_function_family(cname):
                continue
            n += 1
            methods = [f for f in repo.all_functions() if f.cls == cname and f.mod == mod.name]
            for fn in methods:
                selfname = fn.params[0] if fn.params else 'self'
                for nd in ast.walk(fn.node):
                    tgts = []
                    if isinstance(nd, ast.Assign):
                        tgts = nd.targets
                    elif isinstance(nd, (ast.AugAssign, ast.AnnAssign)):
                        tgts = [nd.target]
                    for t in tgts:
                        for x in ([t] if not isinstance(t, (ast.Tuple, ast.List)) else t.elts):
                            if not (isinstance(x, ast.Attribute) and isinstance(x.value, ast.Name) and x.value.id == selfname):
                                continue
                            a = x.attr
                            if cname in OBJECT_STATE:
                                if a in OBJECT_STATE[cname]:
                                    continue
                            elif fn.name == '__init__' or a in LAZY_OK:
                                continue
                            used = [(f2, r) for f2, r in reads.get(a, []) if not (f2 is fn and r is x)]
                            if not used:
                                continue          # (a label nobody reads cannot change a result)
                            f2 = used[0][0]
                            findings.append(Finding(prop, 'R-g', fn.where, norm_text(nd, 120),
                                                    f'`{cname}` objects keep derived state in the attribute `{a}` (written here, read in {f2.qual}:{used[0][1].lineno}): '
                                                    + ('the core list is public and is assigned to directly by the library and its callers, so nothing can keep such a flag or cached '
                                                       'quantity current; results then depend on the history of the object' if cname in OBJECT_STATE else
                                                       'a value remembered from an earlier call (keyed on object identity or not at all) is handed out again after the argument changed'),
                                                    fn.file, nd.lineno))
    return findings, n


def rule_e(repo, an, prop='C06'):
    """elements appended to a list in a loop must not be (may-aliases of) one loop-invariant object that the loop mutates"""
    findings, examined = [], []
    for fn in repo.all_functions():
        mod = repo.modules[fn.mod]
        for loop in [n for n in ast.walk(fn.node) if isinstance(n, (ast.For, ast.While))]:
            appends = [c for c in ast.walk(loop) if isinstance(c, ast.Call) and isinstance(c.func, ast.Attribute) and c.func.attr == 'append'
                       and isinstance(c.func.value, ast.Name) and len(c.args) == 1]
            appends += [c for c in ast.walk(loop) if isinstance(c, ast.AugAssign) and isinstance(c.target, ast.Name) and isinstance(c.op, ast.Add)
                        and isinstance(c.value, ast.List) and len(c.value.elts) == 1]
            if not appends:
                continue
            info = _LoopInfo(loop).collect()
            varying = set(info.loopvars) | set(info.defs)

            def may_return_arg(call):
                """names (argument expressions) the call's result may BE, per Layer-1 summaries; None = unknown/fresh"""
                f = call.func
                callee, recv = None, None
                if isinstance(f, ast.Name):
                    r = repo.resolve_name(mod, f.id)
                    if r and r[0] == 'fn':
                        callee = r[1]
                elif isinstance(f, ast.Attribute):
                    mn = repo.module_of_alias(mod, f.value.id) if isinstance(f.value, ast.Name) else None
                    if mn and f.attr in repo.modules[mn].functions:
                        callee = repo.modules[mn].functions[f.attr]
                    elif f.attr in an.tt_methods and not (isinstance(f.value, ast.Name) and f.value.id in own.LIB_ROOTS):
                        callee, recv = an.tt_methods[f.attr], f.value
                if callee is None:
                    return []
                out = []
                params = callee.params
                actual = {}
                args = ([recv] if recv is not None else []) + list(call.args)
                for p, a in zip(params, args):
                    actual[p] = a
                for k in call.keywords:
                    if k.arg:
                        actual[k.arg] = k.value
                for (q, ct), sm in an.summ.items():
                    if q != callee.qual:
                        continue
                    for t in sm.ret.alias:
                        if t.startswith('P:') and own.tpath(t) in actual:
                            out.append(actual[own.tpath(t)])
                return out

            def resolve(expr, depth=0):
                """-> set of ('outer', name) for loop-invariant objects the expression may denote; empty set = fresh every iteration"""
                if depth > 8:
                    return set()
                if isinstance(expr, ast.Name):
                    ds = info.defs.get(expr.id)
                    if not ds:
                        return {('outer', expr.id)}
                    out = set()
                    if not any(d[1] for d in ds):
                        out.add(('outer', expr.id))        # no definite re-definition: the value from before the loop may survive
                    for rhs, _, st in ds:
                        if isinstance(rhs, ast.AugAssign):
                            continue
                        out |= resolve(rhs, depth + 1)
                    return out
                if isinstance(expr, ast.Call):
                    out = set()
                    for a in may_return_arg(expr):
                        out |= resolve(a, depth + 1)
                    return out
                if isinstance(expr, (ast.Subscript,)):
                    idx_names = own.names_in(expr.slice)
                    if idx_names & varying:
                        return set()
                    return {o for o in resolve(expr.value, depth + 1)}
                if isinstance(expr, ast.IfExp):
                    return resolve(expr.body, depth + 1) | resolve(expr.orelse, depth + 1)
                return set()

            def mutated_in_loop(origin):
                """is the loop-invariant object `origin` modified by the loop body (directly, through an alias, or by a callee)?"""
                hits = []
                aliases = {origin[1]}
                for n in list(info.defs):
                    if origin in resolve(ast.Name(id=n, ctx=ast.Load())):
                        aliases.add(n)
                for n in ast.walk(loop):
                    tgts = []
                    if isinstance(n, ast.Assign):
                        tgts = n.targets
                    elif isinstance(n, ast.AugAssign):
                        tgts = [n.target]
                    for t in tgts:
                        for tt_ in (t.elts if isinstance(t, (ast.Tuple, ast.List)) else [t]):
                            base = tt_
                            through_attr = False
                            while isinstance(base, (ast.Subscript, ast.Attribute)):
                                if isinstance(base, ast.Attribute):
                                    through_attr = True
                                base = base.value
                            if isinstance(base, ast.Name) and base.id in aliases and tt_ is not base and (through_attr or isinstance(tt_, ast.Subscript)):
                                hits.append((n.lineno, norm_text(n, 90)))
                    if isinstance(n, ast.Call):
                        f = n.func
                        callee, args = None, list(n.args)
                        if isinstance(f, ast.Name):
                            r = repo.resolve_name(mod, f.id)
                            if r and r[0] == 'fn':
                                callee = r[1]
                        elif isinstance(f, ast.Attribute):
                            mn = repo.module_of_alias(mod, f.value.id) if isinstance(f.value, ast.Name) else None
                            if mn and f.attr in repo.modules[mn].functions:
                                callee = repo.modules[mn].functions[f.attr]
                            elif f.attr in an.tt_methods and isinstance(f.value, ast.Name) and f.value.id in aliases:
                                callee, args = an.tt_methods[f.attr], [f.value] + args
                            elif f.attr in own.LIST_MUTATORS and isinstance(f.value, ast.Attribute) and isinstance(f.value.value, ast.Name) \
                                    and f.value.value.id in aliases and f.value.attr in own.META:
                                hits.append((n.lineno, norm_text(n, 90)))
                        if callee is not None:
                            actual = dict(zip(callee.params, args))
                            for k in n.keywords:
                                if k.arg:
                                    actual[k.arg] = k.value
                            for (q, ct), sm in an.summ.items():
                                if q != callee.qual:
                                    continue
                                if 'overwrite' in dict(ct):
                                    kw = [k for k in n.keywords if k.arg == 'overwrite']
                                    want = bool(kw[0].value.value) if kw and isinstance(kw[0].value, ast.Constant) else (False if not kw else None)
                                    if want is not None and dict(ct)['overwrite'] != want:
                                        continue
                                for path in list(sm.rebinds) + list(sm.bufwrites):
                                    root = path.split('.')[0].rstrip('[]')
                                    a = actual.get(root)
                                    if isinstance(a, ast.Name) and a.id in aliases and not path.endswith('[]'):
                                        hits.append((n.lineno, norm_text(n, 90) + f'  [{callee.qual} modifies `{path}`]'))
                return sorted(set(hits))

            for ap in appends:
                if isinstance(ap, ast.Call):
                    lst, y = ap.func.value.id, ap.args[0]
                else:
                    lst, y = ap.target.id, ap.value.elts[0]
                origins = resolve(y)
                rec = {'function': fn.qual, 'line': ap.lineno, 'append': norm_text(ap, 80),
                       'appended_object': 'fresh object per iteration' if not origins else 'may be loop-invariant object(s) ' + ', '.join(sorted(o[1] for o in origins))}
                bad = []
                for o in sorted(origins):
                    hits = mutated_in_loop(o)
                    if hits:
                        bad.append((o, hits))
                rec['verdict'] = 'VIOLATED' if bad else 'held'
                examined.append(rec)
                for o, hits in bad:
                    findings.append(Finding(prop, 'R-e', fn.where, f'{lst}.append({norm_text(y, 60)}) with {o[1]} mutated in the loop',
                                            f'every iteration appends the same object `{o[1]}` to `{lst}` while the loop keeps modifying it '
                                            f'(e.g. line {hits[0][0]}: {hits[0][1]}): all results alias one tensor train',
                                            fn.file, ap.lineno, {'mutations': hits}))
    return findings, examined


# ------------------------------------------------------------------------------------------------ controls
def run_controls(run):
    cdir = os.path.join(VERIF, 'controls', 'c06')
    crepo = Repo(cdir)
    can = own.analyse(crepo)
    f, _ = frame_findings(crepo, can)
    keys = {(x.rule, x.where.split('::')[1].split(' ')[0]) for x in f}
    run.control('R-a: method without overwrite stores into self.cores (controls/c06 TT.bad_scale)', ('R-a', 'TT.bad_scale') in keys)
    run.control('R-a: solver sweeps over its guess without copying (controls/c06 bad_solver)', ('R-a', 'bad_solver') in keys)
    run.control('R-b: destructive LAPACK flag on a view of self.cores[i] (controls/c06 TT.ortho_left)', ('R-b', 'TT.ortho_left') in keys)
    run.control('R-b: reaches public caller through a helper and a result that shares buffers (controls/c06 bad_shared)', ('R-b', 'bad_shared') in keys)
    run.control('negative control: copying variant is silent (controls/c06 good_solver)', not any(k[1] == 'good_solver' for k in keys))
    fc = rule_c(crepo, can)
    run.control('R-c: TT(x.cores) (controls/c06 bad_wrap)', any('bad_wrap' in x.where for x in fc))
    run.control('R-c: result given the operand\'s row_dims / col_dims list objects (controls/c06 bad_swapped_dims)', any('bad_swapped_dims' in x.where for x in fc))
    run.control('negative control: in-place swap of an object\'s own metadata lists is silent (controls/c06 good_swapped_dims_in_place)', not any('good_swapped_dims_in_place' in x.where for x in fc))
    fe, _ = rule_e(crepo, can)
    run.control('R-e: same object appended in every iteration and mutated (controls/c06 bad_results)', any('bad_results' in x.where for x in fe))
    run.control('negative control: per-iteration copy is silent (controls/c06 good_results)', not any('good_results' in x.where for x in fe))
    ff, _ = rule_f(crepo)
    run.control('R-f: memoised constructor writes a module-level dict (controls/c06 bad_cached_eye)', any('bad_cached_eye' in x.where for x in ff))
    run.control('R-f: mutable default argument filled and returned (controls/c06 bad_collect)', any('bad_collect' in x.where for x in ff))
    run.control('negative control: a private helper whose call sites all pass the argument is silent (controls/c06 _good_collect_helper)', not any('good_collect' in x.where for x in ff))
    run.control('negative control: reading a module constant / writing a local dict is silent (controls/c06 good_reads_module_constant)', not any('good_reads_module_constant' in x.where for x in ff))


def check(repo, tier):
    run = Run('C06', tier, repo, 'Frame argument over all functions and all paths: whole-repository flow-sensitive may-alias / ownership / effect '
              'analysis with callee summaries iterated to a fixpoint; no bound on call histories.')
    run.rule('R-a', 'no public function rebinds cores/metadata of a TT argument unless it is an in-place operation (ortho*, truncating '
             'constructor, overwrite=True) acting on its own receiver')
    run.rule('R-b', 'no public function lets a subscript store, in-place operator or destructive library flag (overwrite_a/b, out=) reach a core '
             'buffer it did not allocate in the same activation (such buffers may be shared with operands)')
    run.rule('R-c', 'no tensor train is built around the core list object of another live tensor train')
    run.rule('R-e', 'results appended to a list in a loop are not one loop-invariant object that the loop mutates')
    run.rule('R-f', 'no function writes module-level state (memoisation caches, global counters): distinct calls return distinct live objects and never a value computed for earlier arguments')
    run.rule('R-h', 'a public function returns (an alias of) one of its tensor-train arguments only if it is an in-place operation on that argument')
    run.rule('R-g', 'no object keeps derived state: a tensor train has no attribute besides cores / order / row_dims / col_dims / ranks that is written and read (cached flags, norms, '
             'canonical-form markers cannot be kept current because the core list is public); no method other than __init__ of another class writes an attribute that is read '
             '(evaluation caches), except the lazily initialised dimension of the basis functions')
    run.trusted = ['NumPy/SciPy aliasing table in ttsa/own.py (which calls return views, which flags destroy which argument)',
                   'Python object model: list slices/concatenations/copies create new lists sharing elements; TT has no __iop__ methods']
    run.assumptions = ['in-place operations are exactly: ortho_left, ortho_right, ortho, truncating construction, methods called with overwrite=True '
                       '(the property text)', 'reshape/transpose/basic slicing/squeeze MAY return views (they do at rank-1 bonds and size-1 modes)']
    run_controls(run)
    an = own.analyse(repo)
    if an.unresolved:
        raise AnalysisError('unresolved callees inside analysed paths: ' + '; '.join(f'{k[0]}: {k[1]}' for k in sorted(an.unresolved)[:5]))
    f_ab, obl = frame_findings(repo, an)
    for o in obl:
        run.oblige(o['rule'], (o['function'], o['tt_argument']), o['verdict'] == 'held', nontrivial=True)
    # samples: a few interesting obligations written out
    interesting = [o for o in obl if o['function'].split(' ')[0] in ('solvers.sle.als', 'tensor_train.TT.tensordot', 'solvers.ode.hod', 'data_driven.regression.arr',
                                                                         'tensor_train.TT.ortho_left', 'solvers.evp.als', 'tensor_train.TT.squeeze')]
    run.samples.extend(interesting[:10])
    for f in f_ab:
        run.add(f)
    f_c = rule_c(repo, an)
    nconstr = count_tt_constructions(repo)
    run.oblige('R-c', 'all TT(...) constructions and .cores assignments', not f_c, sample={'rule': 'R-c', 'sites_examined': nconstr, 'violations': len(f_c)})
    for f in f_c:
        run.add(f)
    f_f, n_f = rule_f(repo)
    for f in f_f:
        run.add(f)
    run.oblige('R-f', ('whole repository', n_f), not f_f)
    f_h, n_h = rule_h(repo, an)
    for f in f_h:
        run.add(f)
    run.oblige('R-h', ('all public functions', n_h), not f_h)
    f_g, n_g = rule_g(repo)
    for f in f_g:
        run.add(f)
    run.oblige('R-g', ('all classes', n_g), not f_g)
    f_e, ex = rule_e(repo, an)
    for r in ex:
        run.oblige('R-e', (r['function'], r['append']), r['verdict'] == 'held', nontrivial=True)
    run.samples.extend([r for r in ex if 'solution.append' in r['append'] or 'eigentensors' in r['append']][:4])
    for f in f_e:
        run.add(f)
    # what was analysed
    run.analysed = {'functions': len(repo.fns), 'summaries': len(an.summ), 'fixpoint_rounds': an.rounds, 'call_sites_resolved': an.resolved_calls,
                    'call_sites_unresolved': len(an.unresolved), 'destructive_library_flags': len(an.destructive_sites),
                    'public_functions': sum(1 for f in repo.all_functions() if f.public),
                    'tt_constructions_and_core_list_assignments': nconstr, 'append_in_loop_sites': len(ex)}
    sharing = []
    for (qual, ct), sm in sorted(an.summ.items(), key=lambda x: x[0][0]):
        fn = repo.fns[qual]
        if fn.public and (sm.ret.contains or any(t.startswith('B:') for t in sm.ret.alias)):
            sharing.append(qual)
    run.note('sharing sites (results that share core buffers with an argument; legal, listed because they make an R-b violation observable): '
             + ', '.join(sorted(set(sharing))))
    for (qual, ct), sm in sorted(an.summ.items(), key=lambda x: x[0][0]):
        fn = repo.fns[qual]
        if fn.public:
            for path in sm.rebinds:
                if path.endswith('[]'):
                    run.note(f'{qual} replaces elements of its list argument `{path[:-2]}` (not a tensor train; outside C06\'s wording)')
    # floors: counts confirmed by hand on the pinned tree (lower bounds)
    run.floor('public functions/methods analysed', run.analysed['public_functions'], 100)
    run.floor('R-a/R-b obligations (public function x TT argument x rule)', len(obl), 150)
    run.floor('destructive library flags seen', len(an.destructive_sites), 25)
    run.floor('call sites resolved', an.resolved_calls, 600)
    run.floor('append-in-loop sites examined (R-e)', len(ex), 30)
    return run
