"""Transfer functions replacing numpy / scipy when repository code is interpreted over the array domain (ttsa.arr)."""
import math

from . import arr as A
from .arr import Arr, CTX, as_arr, bond_leg, is_one, opaque_leg, scalar, value_error
from .core import AnalysisError
from .interp import Raised, UnknownTruth
from .shape import Size, simp, sz_eq, sz_min, sz_prod


def ctx():
    return A.CTX


def _shape_arg(shape):
    if isinstance(shape, (int, Size)):
        return [shape]
    return list(shape)


def _leg(size, origin):
    return () if is_one(size) else (opaque_leg(size, origin),)


class NdarrayType:
    """stands for np.ndarray in isinstance tests"""


class FakeRandom:
    @staticmethod
    def rand(*shape):
        if not shape:
            return scalar('real', 'rand')
        return Arr(shape, None, 'real', None, {}, 'rand')

    @staticmethod
    def choice(*a, **k):
        raise AnalysisError('np.random.choice has no model')


class FakeNpLinalg:
    @staticmethod
    def norm(x, *a, **k):
        ctx().event('norm', array=x)
        return scalar('real', 'norm')

    @staticmethod
    def solve(a, b):
        return solve(a, b, 'np.linalg.solve')

    @staticmethod
    def svd(a, full_matrices=True, **k):
        return svd(a, full_matrices=full_matrices)

    @staticmethod
    def eig(a):
        return eig(a)

    @staticmethod
    def qr(a, mode='reduced'):
        if mode == 'r':
            # np.linalg.qr(a, mode='r') returns the (reduced) triangular factor only
            return qr(a, mode='economic')[1]
        if mode not in ('reduced', 'complete'):
            raise AnalysisError(f'np.linalg.qr mode {mode!r} has no model')
        return qr(a, mode='economic' if mode == 'reduced' else 'full')

    @staticmethod
    def eigh(a, *x, **k):
        return eigh(a)

    @staticmethod
    def lstsq(a, b, rcond=None):
        return lstsq(a, b, cond=rcond)

    @staticmethod
    def pinv(a, *x, **k):
        a = as_arr(a)
        return Arr([a.shape[1], a.shape[0]], [a.legs[1], a.legs[0]], a.dt, None, {}, 'pinv')

    @staticmethod
    def inv(a):
        a = as_arr(a)
        if a.ndim != 2 or not sz_eq(a.shape[0], a.shape[1]):
            raise Raised('LinAlgError', 'Last 2 dimensions of the array must be square')
        return Arr(a.shape, [a.legs[1], a.legs[0]], a.dt, None, {}, 'inv')

    @staticmethod
    def cond(a):
        return scalar('real', 'cond')

    @staticmethod
    def matrix_power(a, n):
        return Arr(a.shape, a.legs, a.dt, None, {}, 'matrix_power')


class _Ufunc:
    """np.add / np.subtract / np.multiply: callable, with the unbuffered in-place form .at(a, indices, b)"""

    def __init__(self, name, op):
        self.name, self.op = name, op

    def __call__(self, a, b, dtype=None, out=None, **k):
        if k:
            raise AnalysisError(f'np.{self.name} with keyword arguments {sorted(k)} has no model')
        if out is not None:
            # the result is written into the buffer of `out` (a store into the whole array) and `out` is returned
            if not isinstance(out, Arr):
                raise AnalysisError(f'np.{self.name}(out=...) with an output that is not an array')
            r = self(a, b, dtype=dtype)
            out[...] = r
            return out
        if dtype is not None:
            r = self(a, b)
            return r.astype(dtype) if isinstance(r, Arr) else r
        return getattr(as_arr(a), f'__{self.op}__')(b) if not isinstance(a, (int, float, complex)) or isinstance(b, Arr) else getattr(a, f'__{self.op}__')(b)

    def outer(self, a, b):
        if self.op != 'mul':
            raise AnalysisError(f'np.{self.name}.outer has no model')
        return tensordot_outer(a, b)

    def at(self, a, indices, b=None):
        if not isinstance(a, Arr) or b is None:
            raise AnalysisError(f'np.{self.name}.at in this form has no model')
        idx = A.expand_index(a, indices if isinstance(indices, tuple) else (indices,))
        vecs = [(pos, x) for pos, x in enumerate(idx) if (isinstance(x, Arr) and x.ndim >= 1) or isinstance(x, list)]
        if not vecs or not all((isinstance(x, Arr) and x.ndim == 1) or isinstance(x, A.IntVec) for _, x in vecs):
            raise AnalysisError(f'np.{self.name}.at with these index operands has no model')
        A.point_store(a, idx, vecs, b, self.op)
        return None


def tensordot_outer(a, b):
    """np.multiply.outer(a, b) = np.tensordot(a, b, axes=0)"""
    return A.tensordot(as_arr(a), as_arr(b), 0)


def _tolerance_test(name, args, kw):
    """np.allclose / np.isclose of numerical data: undecided, both outcomes are explored.  With the default (or any loose) tolerances neither outcome says
    anything about equality up to rounding, so no fact is attached to the branches; with tolerances at rounding level the True branch asserts an equality
    this domain does not interpret -- that branch ends the analysis without a verdict instead of being explored as if nothing were known."""
    from .interp import UnknownBool
    rtol = args[0] if len(args) > 0 else kw.get('rtol', 1e-5)
    atol = args[1] if len(args) > 1 else kw.get('atol', 1e-8)
    b = UnknownBool(f'{name} of numerical data (tolerance test, rtol={rtol}, atol={atol})')
    try:
        b.tight = max(float(rtol), float(atol)) <= 1e-12
    except (TypeError, ValueError):
        b.tight = True
    return b


class FakeNumpy:
    add = _Ufunc('add', 'add')
    subtract = _Ufunc('subtract', 'sub')
    multiply = _Ufunc('multiply', 'mul')

    ndarray = NdarrayType
    inf = math.inf
    pi = math.pi
    newaxis = None
    int32 = type('int32', (), {})
    int64 = type('int64', (), {})
    float32 = type('float32', (), {})
    float64 = type('float64', (), {})
    complex64 = type('complex64', (), {})
    complex128 = type('complex128', (), {})
    intp = A.IntP
    # abstract scalar types (np.issubdtype)
    generic = type('generic', (), {})
    number = type('number', (), {})
    integer = type('integer', (), {})
    signedinteger = type('signedinteger', (), {})
    inexact = type('inexact', (), {})
    floating = type('floating', (), {})
    complexfloating = type('complexfloating', (), {})
    bool_ = type('bool_', (), {})

    @staticmethod
    def issubdtype(d, t):
        """NumPy's scalar type hierarchy: bool_ is NOT a sub-dtype of integer or number"""
        def cls_of(x):
            if isinstance(x, A.DType):
                return x.cls
            if x is float:
                return 'real'
            if x is complex:
                return 'complex'
            if x is int:
                return 'int'
            if x is bool:
                return 'bool'
            n = getattr(x, '__name__', None) or (x if isinstance(x, str) else None)
            if n in ('float32', 'float64', 'float'):
                return 'real'
            if n in ('complex64', 'complex128', 'complex'):
                return 'complex'
            if n in ('int32', 'int64', 'int', 'intp'):
                return 'int'
            if n in ('bool_', 'bool'):
                return 'bool'
            return None
        c = cls_of(d)
        if c is None:
            raise AnalysisError(f'np.issubdtype of {d!r} has no model')
        tn = getattr(t, '__name__', None) or (t if isinstance(t, str) else None)
        ct = cls_of(t)
        up = {'bool': {'bool_', 'generic'}, 'int': {'integer', 'signedinteger', 'number', 'generic'}, 'real': {'floating', 'inexact', 'number', 'generic'},
              'complex': {'complexfloating', 'inexact', 'number', 'generic'}}[c]
        if tn in up:
            return True
        if tn in ('bool_', 'generic', 'integer', 'signedinteger', 'number', 'floating', 'inexact', 'complexfloating'):
            return False
        if ct is not None:
            return ct == c
        raise AnalysisError(f'np.issubdtype(..., {t!r}) has no model')

    @staticmethod
    def imag(a):
        if isinstance(a, (int, float)):
            return 0.0
        a = as_arr(a)
        return Arr(a.shape, a.legs, 'real', None, {k: v for k, v in a.tags.items() if k in ('prov',)}, 'imag', parents=(a,))

    linalg = FakeNpLinalg
    random = FakeRandom

    # ---- constructors
    @staticmethod
    def zeros(shape, dtype=None, **k):
        shape = _shape_arg(shape)
        r = Arr(shape, None, A.dtype_of(dtype), None, {'const': 'zeros', 'alloc': 'zeros'}, 'zeros')
        ctx().event('alloc', array=r, what='zeros')
        return r

    @staticmethod
    def empty(shape, dtype=None, **k):
        # uninitialised: no content at all until it is stored into (an entry read before that is of unknown provenance for the content rules)
        shape = _shape_arg(shape)
        r = Arr(shape, None, A.dtype_of(dtype), None, {'alloc': 'empty'}, 'empty')
        ctx().event('alloc', array=r, what='empty')
        return r

    @staticmethod
    def empty_like(a, dtype=None, **k):
        a = as_arr(a)
        return FakeNumpy.empty(list(a.shape), dtype=dtype if dtype is not None else {'real': float, 'complex': complex, 'int': int, 'bool': bool}[a.dt])

    @staticmethod
    def ones(shape, dtype=None, **k):
        shape = _shape_arg(shape)
        return Arr(shape, None, A.dtype_of(dtype), None, {'const': 'ones', 'alloc': 'ones'}, 'ones')

    @staticmethod
    def eye(n, m=None, k=0, dtype=None, **kw):
        m = n if m is None else m
        from .opalg import shift
        if sz_eq(n, m) and k == 0:
            cell = A.Cell(ctx().new_uid())
            l0 = () if is_one(n) else (A.Leg('I', cell.uid, n, cell=cell, side=0),)
            l1 = () if is_one(n) else (A.Leg('I', cell.uid, n, cell=cell, side=1),)
            return Arr([n, m], [l0, l1], A.dtype_of(dtype), None, {'const': 'eye', 'orth': 'LO', 'isometry': 'both', 'opalg': shift(0)}, 'eye')
        t = {'const': 'shift' if k != 0 else 'eye-rect', 'k': k}
        if k == 0:
            t['isometry'] = 'rect'
        if sz_eq(n, m) and isinstance(k, int):
            t['opalg'] = shift(-k)       # np.eye(n, k=k)[a, b] = 1 iff b - a = k, i.e. |b - k><b|
        return Arr([n, m], None, A.dtype_of(dtype), None, t, 'eye')

    @staticmethod
    def array(x, dtype=None, ndmin=0, **k):
        return A.np_array(x, dtype=dtype, ndmin=ndmin)

    @staticmethod
    def asarray(x, *a, **k):
        return as_arr(x)

    @staticmethod
    def arange(*a, **k):
        if all(isinstance(x, int) for x in a) and 'dtype' not in k:
            return A.IntVec(range(*a))
        if len(a) == 1:
            return Arr([a[0]], None, 'int', None, {'arange': (0, a[0])}, 'arange')
        if all(isinstance(x, (int, float)) for x in a):
            import numpy as _np
            vals = [float(x) for x in _np.arange(*a)]
            return Arr([len(vals)], None, 'real', None, {'value': vals}, 'arange')
        raise AnalysisError('np.arange with symbolic start/step has no model')

    @staticmethod
    def fill_diagonal(a, val, wrap=False):
        # a[i, i] = val[i] (val scalar or vector): the pointwise store through two equal index vectors
        a = as_arr(a)
        if a.ndim != 2 or wrap:
            raise AnalysisError('np.fill_diagonal on an array that is not a matrix (or with wrap=True) has no model')
        n = sz_min(ctx().atoms, a.shape[0], a.shape[1])
        idx = FakeNumpy.arange(n)
        a[idx, idx] = val

    @staticmethod
    def broadcast_to(x, shape, **k):
        shape = _shape_arg(shape)
        if isinstance(x, Arr):
            if x.ndim == len(shape) and all(sz_eq(p_, q_) for p_, q_ in zip(x.shape, shape)):
                return x[(slice(None),) * x.ndim] if x.ndim else x          # a (read-only) view of the same data
            raise AnalysisError(f'np.broadcast_to from shape {tuple(x.shape)} to {tuple(shape)} has no model')
        if isinstance(x, (int, float, complex)) and not isinstance(x, bool):
            r = (FakeNumpy.zeros if x == 0 else FakeNumpy.ones)(shape, dtype=type(x))
            return r if x in (0, 1) else r * x
        raise AnalysisError('np.broadcast_to of this operand has no model')

    # ---- structure
    @staticmethod
    def reshape(a, shape, order='C', **k):
        if k:
            raise AnalysisError(f'np.reshape with keyword arguments {sorted(k)} has no model')
        return A.reshape_ordered(as_arr(a), _shape_arg(shape), order)

    @staticmethod
    def transpose(a, axes=None):
        return as_arr(a).transpose(axes) if axes is not None else as_arr(a).transpose()

    @staticmethod
    def squeeze(a, axis=None):
        return as_arr(a).squeeze()

    @staticmethod
    def conj(a, order=None, out=None):
        if out is not None:
            r = FakeNumpy.conj(a)
            out[...] = r
            return out
        return FakeNumpy._conj(a)

    @staticmethod
    def _conj(a, order=None):
        if isinstance(a, (int, float, complex)):
            return a.conjugate() if isinstance(a, complex) else a
        return as_arr(a).conj()

    conjugate = conj

    @staticmethod
    def real(a):
        if isinstance(a, (int, float)):
            return a
        a = as_arr(a)
        r = Arr(a.shape, a.legs, 'real', None, {k: v for k, v in a.tags.items() if k in ('prov',)}, 'real', parents=(a,))
        if a.dt == 'complex':
            A.CTX.event('real-part', array=a, result=r)
        return r

    @staticmethod
    def real_if_close(a, tol=100):
        """real part if ALL imaginary parts are below tol machine epsilons in ABSOLUTE terms, else the array itself: data-dependent, both outcomes explored;
        the discarding outcome is logged (whether it is harmless depends on the scale of the data, which the test does not look at)"""
        if isinstance(a, (int, float)):
            return a
        a = as_arr(a)
        if a.dt != 'complex':
            return a
        from .interp import UnknownBool
        if A.CTX.interp.truth(UnknownBool('np.real_if_close: are all imaginary parts below the absolute tolerance?')):
            r = Arr(a.shape, a.legs, 'real', None, {k: v for k, v in a.tags.items() if k in ('prov', 'orth', 'mx', 'mx_unf')}, 'real', parents=(a,))
            A.CTX.event('abs-discard', array=a, detail='np.real_if_close drops the imaginary parts when they are below an absolute tolerance (100 machine epsilons by default), '
                        'whatever the magnitude of the data: for a tensor of tiny norm the imaginary parts ARE the data')
            return r
        return a

    @staticmethod
    def abs(a):
        if isinstance(a, (int, float, complex)):
            return abs(a)
        a = as_arr(a)
        return Arr(a.shape, a.legs, 'real', None, {'abs_of': a}, 'abs')

    @staticmethod
    def sqrt(a):
        if isinstance(a, (int, float)):
            return math.sqrt(a)
        if isinstance(a, Size):
            # the square root of a perfect square of sizes (r * r: the doubled bond of <psi| . |psi>) is a size again
            if len(a.terms) == 1:
                (mono, c), = a.terms.items()
                rc = math.isqrt(c) if c > 0 else -1
                if rc * rc == c and all(e_ % 2 == 0 for _a, e_ in mono):
                    return Size({tuple((a_, e_ // 2) for a_, e_ in mono): rc}, a.reg)
            return scalar('real', 'sqrt')
        a = as_arr(a)
        return Arr(a.shape, a.legs, a.dt, None, {}, 'sqrt')

    @staticmethod
    def reciprocal(a, out=None, where=True):
        a = as_arr(a)
        t = {'reciprocal_of': a, 'prov': a.tags.get('prov')}
        md = a.tags.get('mx')
        if isinstance(where, Arr):
            # a masked reciprocal: the mask is a data-dependent selection of the entries (same event as np.where, so that the rules on cuts of
            # singular values see it); the result is no longer plainly diag(1/s)
            ctx().event('where', cond=where, index=None, env=_simple_env())
            md = None
        elif where is not True:
            raise AnalysisError('np.reciprocal with this `where` argument has no model')
        if out is not None and not (isinstance(out, Arr) and out.tags.get('const') == 'zeros' and not out.tags.get('stores')):
            raise AnalysisError('np.reciprocal(out=...) into an array that is not a fresh zero array has no model')
        if md is not None and len(md) == 1 and md[0][0] in ('S', 'Sinv'):
            t['mx'] = ((('Sinv' if md[0][0] == 'S' else 'S'), md[0][1], '', md[0][3]),)
        return Arr(a.shape, a.legs, a.dt, None, t, 'reciprocal')

    @staticmethod
    def exp(a):
        if isinstance(a, (int, float, complex)):
            import cmath
            import math
            return cmath.exp(a) if isinstance(a, complex) else math.exp(a)
        a = as_arr(a)
        return Arr(a.shape, a.legs, a.dt, None, {}, 'exp')

    @staticmethod
    def sin(a):
        a = as_arr(a)
        return Arr(a.shape, a.legs, a.dt, None, {}, 'sin')

    cos = sin

    @staticmethod
    def diag(v, k=0):
        v = as_arr(v)
        if v.ndim == 1 and k != 0:
            n = v.shape[0] + abs(k)
            return Arr([n, n], None, v.dt, None, {'diag_of': v, 'diag_offset': k}, 'diag')
        if v.ndim == 1:
            n = v.shape[0]
            t = {'diag_of': v, 'prov': v.tags.get('prov'), 'const': 'projector' if v.tags.get('const') == 'unitvec' else None, 'unit_index': v.tags.get('unit_index')}
            if v.tags.get('const') == 'unitvec' and isinstance(v.tags.get('unit_index'), int):
                from .opalg import ketbra
                t['opalg'] = ketbra(v.tags['unit_index'], v.tags['unit_index'])
            if 'mx' in v.tags:
                t['mx'] = v.tags['mx']
            return Arr([n, n], [v.legs[0], v.legs[0]], v.dt, None, t, 'diag')
        if v.ndim == 2:
            n = sz_min(ctx().atoms, v.shape[0], v.shape[1])
            return Arr([n], [v.legs[0]], v.dt, None, {}, 'diag')
        raise value_error('Input must be 1- or 2-d.')

    @staticmethod
    def tensordot(a, b, axes=2):
        return A.tensordot(a, b, axes)

    @staticmethod
    def dot(a, b):
        if isinstance(a, (int, float, complex)) and isinstance(b, (int, float, complex)):
            return a * b
        return A.dot(a, b)

    @staticmethod
    def kron(a, b):
        a, b = as_arr(a), as_arr(b)
        if a.ndim != b.ndim:
            raise AnalysisError('np.kron of arrays of different rank has no model')
        return Arr([x * y for x, y in zip(a.shape, b.shape)], [ga + gb for ga, gb in zip(a.legs, b.legs)], A.join_dtype(a.dt, b.dt), None,
                   {'kron': (a, b)}, 'kron')

    @staticmethod
    def outer(a, b):
        a, b = as_arr(a), as_arr(b)
        a1, b1 = a.ravel() if a.ndim != 1 else a, b.ravel() if b.ndim != 1 else b
        return Arr([a1.shape[0], b1.shape[0]], [a1.legs[0], b1.legs[0]], A.join_dtype(a.dt, b.dt), None, {'outer': (a, b)}, 'outer')

    @staticmethod
    def einsum(pattern, *ops, **k):
        return einsum(pattern, *ops)

    @staticmethod
    def append(a, b, axis=None):
        a, b = as_arr(a), as_arr(b)
        if axis is None:
            return Arr([a.size + b.size], None, A.join_dtype(a.dt, b.dt), None, {}, 'append')
        return concat([a, b], axis)

    @staticmethod
    def concatenate(parts, axis=0, dtype=None, **kw):
        if kw:
            raise AnalysisError(f'np.concatenate with {sorted(kw)} has no model')
        parts = list(parts)
        if all(isinstance(p, (list, tuple)) for p in parts):
            out = []
            for p in parts:
                out.extend(p)
            return out
        r = concat([as_arr(p) for p in parts], axis)
        return r if dtype is None else r.astype(dtype)

    @staticmethod
    def matmul(a, b):
        return A.matmul(as_arr(a), as_arr(b))

    @staticmethod
    def ravel(a, order='C'):
        if order != 'C':
            raise AnalysisError('np.ravel with a non-C order has no model')
        return as_arr(a).ravel()

    @staticmethod
    def dtype(spec):
        return A.DType(A.dtype_of(spec))

    @staticmethod
    def block(rows):
        """np.block of a list (of lists) of arrays with equal ndim: concatenate the innermost lists along the last axis, then along the second last"""
        def build(x, depth, maxdepth):
            if isinstance(x, (list, tuple)):
                parts = [build(y, depth + 1, maxdepth) for y in x]
                return concat(parts, -(maxdepth - depth))
            return as_arr(x)

        def nest(x):
            return 1 + nest(x[0]) if isinstance(x, (list, tuple)) and len(x) else 0
        return build(rows, 0, nest(rows))

    @staticmethod
    def hstack(parts):
        parts = [as_arr(p) for p in parts]
        return concat(parts, 0 if parts[0].ndim == 1 else 1)

    @staticmethod
    def vstack(parts):
        parts = [as_arr(p) for p in parts]
        parts = [p if p.ndim >= 2 else A.reshape(p, [1] + list(p.shape)) for p in parts]
        return concat(parts, 0)

    @staticmethod
    def stack(parts, axis=0):
        parts = [as_arr(p) for p in parts]
        p0 = parts[0]
        for p in parts:
            if len(p.shape) != len(p0.shape) or not all(sz_eq(x, y) for x, y in zip(p.shape, p0.shape)):
                raise value_error('all input arrays must have the same shape')
        shape = list(p0.shape)
        ax = axis if axis >= 0 else len(shape) + 1 + axis
        # np.stack = concatenation, along a new axis, of the parts given that axis with size one (block assembly like np.concatenate)
        lifted = [A.reshape(p, shape[:ax] + [1] + shape[ax:]) for p in parts]
        return concat(lifted, ax)

    @staticmethod
    def sum(a, axis=None, **k):
        return A.np_sum(a, axis)

    @staticmethod
    def trace(a):
        return scalar(as_arr(a).dt, 'trace')

    @staticmethod
    def prod(x, **k):
        if isinstance(x, (list, tuple)):
            return sz_prod(list(x))
        if isinstance(x, Arr):
            return scalar(x.dt, 'prod')
        return x

    @staticmethod
    def all(x, **k):
        if isinstance(x, (list, tuple)):
            return all(bool(v) for v in x)
        if isinstance(x, bool):
            return x
        from .interp import UnknownBool
        return UnknownBool('np.all of a numerical array')

    @staticmethod
    def any(x, **k):
        if isinstance(x, (list, tuple)):
            return any(bool(v) for v in x)
        from .interp import UnknownBool
        return UnknownBool('np.any of a numerical array')

    @staticmethod
    def minimum(a, b):
        if isinstance(a, Arr) or isinstance(b, Arr):
            return as_arr(a)._bin(as_arr(b), 'minimum')
        return sz_min(ctx().atoms, a, b)

    @staticmethod
    def maximum(a, b):
        if isinstance(a, Arr) or isinstance(b, Arr):
            return as_arr(a)._bin(as_arr(b), 'maximum')
        if isinstance(a, (int, float)) and isinstance(b, (int, float)):
            return max(a, b)
        from .interp import UnknownTruth
        try:
            return a if bool(Size.of(a, ctx().atoms) >= Size.of(b, ctx().atoms)) else b
        except UnknownTruth:
            # max(k, 1) for a count k >= 0 that may be 0: the count itself when something is counted (the generic case the scenarios describe)
            if isinstance(b, int) and b <= 1 and isinstance(a, Size):
                return a
            if isinstance(a, int) and a <= 1 and isinstance(b, Size):
                return b
            raise AnalysisError(f'np.maximum({a}, {b}) of two sizes whose order is unknown has no model')

    @staticmethod
    def count_nonzero(a, axis=None, **k):
        a = as_arr(a)
        if axis is not None or a.ndim != 1 or a.dt != 'bool':
            raise AnalysisError('np.count_nonzero in this form has no model')
        return A.mask_count(a, a.shape[0])          # (the same unknown, and the same data-dependent-selection event, as indexing with the mask)

    @staticmethod
    def amin(x, **k):
        if isinstance(x, (list, tuple)):
            r = x[0]
            for y in x[1:]:
                r = FakeNumpy.minimum(r, y)
            return r
        return scalar(x.dt, 'amin')

    min = amin

    @staticmethod
    def amax(x, **k):
        if isinstance(x, (list, tuple)) and all(isinstance(v, (int, float)) for v in x):
            return max(x)
        return scalar('real', 'amax')

    max = amax

    @staticmethod
    def mod(a, b):
        return a % b

    remainder = mod

    @staticmethod
    def true_divide(a, b):
        return a / b

    @staticmethod
    def floor(a):
        return math.floor(a)

    @staticmethod
    def result_type(*xs):
        ds = []
        for x in xs:
            if isinstance(x, Arr):
                ds.append(x.dt)
            elif isinstance(x, A.DType):
                ds.append(x.cls)
            elif x is complex or isinstance(x, complex) or getattr(x, '__name__', '') in ('complex64', 'complex128'):
                # (precision is not modelled: joined with the double-precision arrays of the scenarios, complex64 gives complex128)
                ds.append('complex')
            elif getattr(x, '__name__', '') in ('int32', 'int64') or x is int:
                ds.append('int')
            else:
                ds.append('real')
        return A.DType(A.join_dtype(*ds))

    @staticmethod
    def shares_memory(a, b, *x, **k):
        return isinstance(a, Arr) and isinstance(b, Arr) and a.buf is b.buf

    may_share_memory = shares_memory

    @staticmethod
    def iscomplexobj(x):
        if isinstance(x, Arr):
            return x.dt == 'complex'
        return isinstance(x, complex)

    @staticmethod
    def allclose(a, b, *x, **k):
        r = _tolerance_test('np.allclose', x, k)
        if isinstance(a, Arr) and isinstance(b, Arr):
            ctx().event('tolerance-test', a=a, b=b, tight=getattr(r, 'tight', None), detail=getattr(r, 'why', None) or 'np.allclose')
        return r

    @staticmethod
    def isclose(a, b, *x, **k):
        if isinstance(a, (int, float)) and isinstance(b, (int, float)):
            import numpy as _np
            return bool(_np.isclose(a, b, *x, **k))
        return _tolerance_test('np.isclose', x, k)

    @staticmethod
    def isrealobj(x):
        return not FakeNumpy.iscomplexobj(x)

    @staticmethod
    def zeros_like(a, dtype=None, **k):
        a = as_arr(a)
        return FakeNumpy.zeros(list(a.shape), dtype=dtype if dtype is not None else {'real': float, 'complex': complex, 'int': int, 'bool': bool}[a.dt])

    @staticmethod
    def ones_like(a, dtype=None, **k):
        a = as_arr(a)
        return FakeNumpy.ones(list(a.shape), dtype=dtype if dtype is not None else {'real': float, 'complex': complex, 'int': int, 'bool': bool}[a.dt])

    @staticmethod
    def isscalar(x):
        return isinstance(x, (int, float, complex, Size)) or (isinstance(x, Arr) and x.ndim == 0)

    @staticmethod
    def isin(x, coll):
        if isinstance(coll, Arr):
            raise UnknownTruth('np.isin on a symbolic array')
        members = list(coll) if isinstance(coll, (list, tuple, range)) else [coll]
        if isinstance(x, (list, tuple, range)):          # (also IntVec): element-wise, as NumPy does
            return [v in members for v in x]
        if isinstance(x, Arr):
            raise AnalysisError('np.isin of a symbolic array has no model')
        return x in members

    @staticmethod
    def setdiff1d(a, b):
        return A.IntVec(x for x in a if x not in list(b))

    @staticmethod
    def where(cond, *a):
        if a:
            raise AnalysisError('three-argument np.where has no model')
        cond = as_arr(cond)
        if cond.ndim != 1:
            raise AnalysisError('np.where on a non-vector has no model')
        n = cond.shape[0]
        k = ctx().atoms.new('k', free=True, upper=[n], origin='np.where: number of entries kept')
        idx = Arr([k], None, 'int', None, {'index_of': cond, 'where': cond.tags.get('expr')}, 'where')
        ctx().event('where', cond=cond, index=idx, env=_simple_env())
        return (idx,)

    @staticmethod
    def nonzero(cond):
        return FakeNumpy.where(cond)

    @staticmethod
    def flatnonzero(cond):
        return FakeNumpy.where(cond)[0]

    @staticmethod
    def ascontiguousarray(a, dtype=None):
        a = as_arr(a)
        return a.copy() if dtype is None else a.astype(dtype)

    @staticmethod
    def count_nonzero(cond, *a, **kw):
        cond = as_arr(cond)
        n = cond.size
        k = ctx().atoms.new('k', free=True, upper=[n], origin='np.count_nonzero: number of entries kept')
        ctx().event('where', cond=cond, index=None, count=k, env=_simple_env())
        return k

    @staticmethod
    def sort(a, axis=-1, **k):
        # the entries in increasing order: WHICH entry ends up where depends on the data -- an array sorted on its own loses its pairing with any other array
        a = as_arr(a)
        r = Arr(a.shape, a.legs if a.ndim != 1 else [()], a.dt, None, {'sorted_of': a}, 'sort', parents=(a,))
        ctx().event('reorder', array=a, result=r, detail='np.sort re-orders an array on its own (a data-dependent permutation that no other array shares)')
        return r

    class _FInfo:
        def __init__(self, t):
            import numpy as _np
            fi = _np.finfo(t if t in (float, complex) else float)
            self.eps, self.tiny, self.max, self.min, self.resolution = float(fi.eps), float(fi.tiny), float(fi.max), float(fi.min), float(fi.resolution)

    @staticmethod
    def finfo(t=float):
        return FakeNumpy._FInfo(t)

    @staticmethod
    def sign(a):
        # -1, 0 or +1 per entry: a factor that VANISHES where the entry is exactly zero (see the `sign-scale` event in Arr._bin)
        if isinstance(a, (int, float)) and not isinstance(a, bool):
            return (a > 0) - (a < 0)
        a = as_arr(a)
        # the slice whose sign is taken is only inspected (a sign convention), not used as a piece of the tensor
        v_, n_ = a, 0
        while isinstance(v_, Arr) and n_ < 6:
            v_.tags['inspected_only'] = True
            if not v_.parents or v_.origin not in ('real', 'getitem', 'imag', 'abs'):
                break
            v_, n_ = (v_.parents[0], n_ + 1) if v_.origin != 'getitem' else (None, n_)
        return Arr(a.shape, a.legs, 'real' if a.dt != 'int' else 'int', None, {'sign_of': a}, 'sign', parents=(a,))

    @staticmethod
    def take(a, indices, axis=None, out=None, mode='raise'):
        # a[..., indices, ...] along one axis.  mode='clip' / 'wrap' differ from indexing exactly where it matters for index sets given by a caller: negative
        # (counted from the end) and out-of-range entries are silently mapped to other positions
        a = as_arr(a)
        if out is not None or axis is None:
            raise AnalysisError('np.take without axis / with out= has no model')
        ax = axis if axis >= 0 else a.ndim + axis
        if mode != 'raise':
            ctx().event('index-mode', array=a, indices=indices, mode=mode,
                        detail=f"np.take(..., mode='{mode}') maps negative indices to {'0' if mode == 'clip' else 'themselves modulo the length (as indexing does) and out-of-range ones back into range'}"
                               f"{' and out-of-range ones to the last entry' if mode == 'clip' else ''} instead of {'counting from the end / ' if mode == 'clip' else ''}raising")
        return a[(slice(None),) * ax + (indices,)]

    @staticmethod
    def searchsorted(a, v, side='left', sorter=None):
        # the one use that has a meaning for the rules: the number of entries of a non-increasing vector X above a bound, written as a bisection on -X
        a = as_arr(a)
        c0, root = a.tags.get('scale', (1, a))
        if sorter is None and a.ndim == 1 and c0 == -1 and isinstance(v, (int, float)) and not isinstance(v, bool) and side in ('left', 'right'):
            return FakeNumpy.count_nonzero((root > -v) if side == 'left' else (root >= -v))
        raise AnalysisError('np.searchsorted in this form has no model')

    @staticmethod
    def argsort(a, *x, **k):
        return as_arr(a).argsort()

    @staticmethod
    def argmax(a, *x, **k):
        return Arr((), [], 'int', None, {}, 'argmax')

    @staticmethod
    def vectorize(pyfunc, otypes=None, **k):
        """np.vectorize(f)(a): f applied entry by entry; WITHOUT otypes the dtype of the whole result is the type of f's value on the FIRST entry"""
        if k:
            raise AnalysisError(f'np.vectorize with {sorted(k)} has no model')

        def apply(*args):
            arrs = [as_arr(a_) for a_ in args]
            if otypes is None:
                ctx().event('vectorize-otypes', fn_applied=pyfunc, operands=arrs, detail='np.vectorize without otypes takes the dtype of the whole result from the value on the first '
                            'entry: a function that returns an int there (a piecewise function with a literal 0 on one branch) truncates every other value to an integer')
            sh, lg = arrs[0].shape, arrs[0].legs
            for o in arrs[1:]:
                sh, lg = A.broadcast(Arr(sh, lg, 'real', None), o)
            return Arr(sh, lg, 'real', None, {'vectorized': pyfunc, 'operands': arrs}, 'vectorize', parents=tuple(arrs))
        return apply

    @staticmethod
    def unique(a, axis=None, return_inverse=False, return_counts=False, return_index=False, **k):
        a = as_arr(a)
        if axis == 0 and a.ndim == 2 and not return_inverse and not return_index and not k:
            # distinct rows (sorted) and how often each occurs: the counts sum to the number of rows
            k_ = ctx().atoms.new('u', free=True, upper=[a.shape[0]], origin='np.unique: number of distinct rows')
            lead = (A.opaque_leg(k_, 'distinct'),)
            u = Arr([k_, a.shape[1]], [lead, a.legs[1]], a.dt, None, {'unique_of': a, 'unique_axis': 0}, 'unique')
            ctx().event('unique', array=a, axis=0, counts=bool(return_counts), result=u)
            if return_counts:
                cnt = Arr([k_], [lead], 'int', None, {'counts_of': u, 'counted': a, 'total': a.shape[0]}, 'unique_counts')
                return [u, cnt]
            return u
        if return_counts or return_index:
            raise AnalysisError('np.unique in this form has no model')
        if axis == 1 and a.ndim == 2:
            k_ = ctx().atoms.new('u', free=True, upper=[a.shape[1]], origin='np.unique: number of distinct columns')
            u = Arr([a.shape[0], k_], None, a.dt, None, {'unique_of': a}, 'unique')
            inv = Arr([a.shape[1]], None, 'int', None, {'inverse_of': u, 'range': k_}, 'unique_inverse')
            return [u, inv] if return_inverse else u
        raise AnalysisError('np.unique in this form has no model')

    @staticmethod
    def binary_repr(num, width=None):
        if isinstance(num, Arr) and isinstance(num.tags.get('value'), int):
            num = num.tags['value']
        if not isinstance(num, int) or not (width is None or isinstance(width, int)):
            raise AnalysisError('np.binary_repr of a symbolic number has no model')
        import numpy as _np
        return _np.binary_repr(num, width=width)


def _simple_env():
    it = A.CTX.interp
    if it is None or not it.stack:
        return {}
    return {k: v for k, v in it.stack[-1].env.items() if isinstance(v, (bool, int, float, str, type(None)))}


def concat(parts, axis):
    p0 = parts[0]
    ax = axis if axis >= 0 else p0.ndim + axis
    tot = 0
    for p in parts:
        if p.ndim != p0.ndim:
            raise value_error('all the input array dimensions except for the concatenation axis must match exactly (ndim)')
        for i, (x, y) in enumerate(zip(p.shape, p0.shape)):
            if i != ax and not sz_eq(x, y):
                raise value_error(f'all the input array dimensions except for the concatenation axis must match exactly, but along dimension {i} sizes {x} and {y} differ')
        tot = tot + p.shape[ax]
    shape = list(p0.shape)
    shape[ax] = tot
    # a concatenation is block assembly: a zero array of the final shape into which every part is stored at its offset (so that the block-store,
    # leg-adoption and entry analyses see np.concatenate / np.block / np.stack exactly as they see np.zeros + slice stores)
    r = FakeNumpy.zeros(shape, dtype={'real': float, 'complex': complex, 'int': int, 'bool': bool}.get(A.join_dtype(*[p.dt for p in parts]), float))
    r.tags['concat'] = (parts, ax)
    r.tags['assembled'] = True
    off = 0
    for p in parts:
        n = p.shape[ax]
        hi = simp(Size.of(off, A.CTX.atoms) + n)
        if p.tags.get('assembled') and p.tags.get('alloc') == 'zeros':
            # flatten: the blocks of an assembled part keep their identity
            for st in p.tags.get('stores', []):
                sel = []
                for k_, s_ in enumerate(st['sel']):
                    if k_ != ax:
                        sel.append(s_)
                    elif s_[0] == 'all':
                        sel.append(('range', off, hi))
                    elif s_[0] == 'range':
                        sel.append(('range', simp(Size.of(off, A.CTX.atoms) + s_[1]), simp(Size.of(off, A.CTX.atoms) + s_[2])))
                    elif s_[0] == 'int' and not isinstance(s_[1], Arr):
                        sel.append(('int', s_[1] + off if not isinstance(s_[1], int) or not isinstance(off, int) else s_[1] + off))
                    else:
                        raise AnalysisError('concatenation of a part assembled through index arrays has no model')
                idx = tuple(slice(None) if s_[0] == 'all' else (slice(s_[1], s_[2]) if s_[0] == 'range' else s_[1]) for s_ in sel)
                A.setitem(r, idx, st['value'])
        elif not (p.tags.get('const') == 'zeros' and not p.tags.get('stores')):
            idx = tuple(slice(off, hi) if k_ == ax else slice(None) for k_ in range(len(shape)))
            A.setitem(r, idx, p)
        off = hi
    return r


def einsum(pattern, *ops):
    pattern = pattern.replace(' ', '')
    if '->' not in pattern:
        raise AnalysisError(f'implicit einsum {pattern!r} has no model')
    ins, out = pattern.split('->')
    ins = ins.split(',')
    ops = [as_arr(o) for o in ops]
    if len(ins) != len(ops):
        raise value_error('einsum: number of operands does not match the subscripts')
    size, legs, holders = {}, {}, {}
    for sub, o in zip(ins, ops):
        if len(sub) != o.ndim:
            raise value_error(f'einsum: operand has {o.ndim} dimensions but subscripts {sub!r} have {len(sub)}')
        for ch, s, g in zip(sub, o.shape, o.legs):
            if ch in size:
                if not sz_eq(size[ch], s):
                    if is_one(s):
                        continue                       # singleton dimensions broadcast
                    if is_one(size[ch]):
                        size[ch] = s
                        holders[ch] = [h for h in holders.get(ch, []) if h[1]]
                    else:
                        raise value_error(f'einsum: size of label {ch!r} does not match: {size[ch]} vs {s}')
            else:
                size[ch] = s
            if g or not holders.get(ch):
                holders.setdefault(ch, []).append((o, g))
    # typing: a label that is summed (absent from the output) and appears in exactly two operands is a contraction of those two operands
    # (same rule, same 'contract' / 'stale-read' events as np.tensordot); a label kept in the output and shared by operands is a Hadamard (batch) index
    pairs = {}
    where = {}
    for k_, (sub, o) in enumerate(zip(ins, ops)):
        for ax, ch in enumerate(sub):
            where.setdefault(ch, []).append((k_, ax))
    for ch, occ in where.items():
        if ch in out:
            continue
        if len(occ) == 2 and occ[0][0] != occ[1][0]:
            (ka, ia), (kb, ib) = occ
            if is_one(ops[ka].shape[ia]) != is_one(ops[kb].shape[ib]):
                continue                        # broadcast singleton, not a contraction
            pairs.setdefault((ka, kb), ([], []))
            pairs[(ka, kb)][0].append(ia)
            pairs[(ka, kb)][1].append(ib)
        elif len(occ) == 1:
            A.CTX.event('sum-axis', array=ops[occ[0][0]], axes=(ch,), legs=[ops[occ[0][0]].legs[occ[0][1]]])
    for (ka, kb), (ax_a, ax_b) in pairs.items():
        A.check_contract(ops[ka], ops[kb], ax_a, ax_b, f'einsum {pattern}')
    A.CTX.event('einsum', pattern=pattern, ops=ops)
    oshape, olegs = [], []
    for ch in out:
        if ch not in size:
            raise value_error(f'einsum: output label {ch!r} does not appear in the inputs')
        oshape.append(size[ch])
        olegs.append(holders[ch][0][1])
    r = Arr(oshape, olegs, A.join_dtype(*[o.dt for o in ops]), None, {'einsum': (pattern, ops)}, 'einsum')
    if len(ops) == 2 and len(pairs) == 1:
        # a plain two-operand contraction over one index whose output keeps (remaining axes of the first, remaining axes of the second): same
        # matrix-expression rule as np.tensordot
        ((ka, kb), (ax_a, ax_b)), = pairs.items()
        if len(ax_a) == 1:
            rest_a = ''.join(ch for k_, ch in enumerate(ins[ka]) if k_ != ax_a[0])
            rest_b = ''.join(ch for k_, ch in enumerate(ins[kb]) if k_ != ax_b[0])
            if out == rest_a + rest_b and not (set(rest_a) & set(rest_b)):
                A.mx_after_contract(r, ops[ka], ops[kb], list(ax_a), list(ax_b))
            elif out == rest_b + rest_a and not (set(rest_a) & set(rest_b)):
                A.mx_after_contract(r, ops[kb], ops[ka], list(ax_b), list(ax_a))
    return r


# ------------------------------------------------------------------------------------------------ decompositions
_svd_counter = [0]


def _destructive(a, flag, what):
    if flag:
        A.CTX.event('destructive', array=a, what=what, owner_fn=a.buf.fn)
        # the routine may leave anything in this buffer: reading it afterwards is reading garbage (typestate 'destroyed', checked in L2Domain.on_native)
        A.CTX.__dict__.setdefault('destroyed', {})[a.buf.uid] = (what, A.CTX.interp.where() if A.CTX.interp else '')


def svd(a, full_matrices=True, overwrite_a=False, check_finite=True, lapack_driver='gesdd', compute_uv=True, **k):
    a = as_arr(a)
    if a.ndim != 2:
        raise value_error(f'expected matrix, got array of dimension {a.ndim}')
    _destructive(a, overwrite_a, 'svd(overwrite_a=True)')
    m, n = a.shape
    kk = sz_min(A.CTX.atoms, m, n, origin=f'number of singular values of a {m} x {n} matrix')
    uid = A.CTX.new_uid()
    bond = bond_leg(kk)
    bl = () if is_one(kk) else (bond,)
    if full_matrices:
        um = Arr([m, m], [a.legs[0], () if is_one(m) else (bond_leg(m),)], a.dt, None, {'prov': {'svd': uid, 'role': 'u', 'full': True, 'of': a}, 'orth': 'LO', 'isometry': 'both'}, 'svd.u')
        vm = Arr([n, n], [() if is_one(n) else (bond_leg(n),), a.legs[1]], a.dt, None, {'prov': {'svd': uid, 'role': 'v', 'full': True, 'of': a}, 'orth': 'RO', 'isometry': 'both'}, 'svd.v')
    else:
        um = Arr([m, kk], [a.legs[0], bl], a.dt, None, {'prov': {'svd': uid, 'role': 'u', 'of': a}, 'orth': 'LO'}, 'svd.u')
        vm = Arr([kk, n], [bl, a.legs[1]], a.dt, None, {'prov': {'svd': uid, 'role': 'v', 'of': a}, 'orth': 'RO'}, 'svd.v')
    sv = Arr([kk], [bl], 'real', None, {'prov': {'svd': uid, 'role': 's', 'of': a}}, 'svd.s')
    from . import mx as _mx
    _mx.reg()[uid] = _mx.of(a)
    if not full_matrices:
        um.tags['mx'] = (('U', uid, '', None),)
        vm.tags['mx'] = (('V', uid, '', None),)
        sv.tags['mx'] = (('S', uid, '', None),)
    A.CTX.event('svd', array=a, uid=uid, u=um, s=sv, v=vm, full=full_matrices)
    return [um, sv, vm]


def qr(a, overwrite_a=False, mode='full', check_finite=True, **k):
    a = as_arr(a)
    if a.ndim != 2:
        raise value_error('expected a 2-D array')
    _destructive(a, overwrite_a, 'qr(overwrite_a=True)')
    m, n = a.shape
    uid = A.CTX.new_uid()
    if mode == 'economic':
        kk = sz_min(A.CTX.atoms, m, n, origin=f'economic QR of a {m} x {n} matrix')
        bl = () if is_one(kk) else (bond_leg(kk),)
        q = Arr([m, kk], [a.legs[0], bl], a.dt, None, {'prov': {'qr': uid, 'role': 'q', 'of': a}, 'orth': 'LO'}, 'qr.q')
        r = Arr([kk, n], [bl, a.legs[1]], a.dt, None, {'prov': {'qr': uid, 'role': 'r', 'of': a}}, 'qr.r')
        from . import mx as _mx
        _mx.reg()[uid] = _mx.of(a)
        q.tags['mx'] = (('Q', uid, '', None),)
        r.tags['mx'] = (('R', uid, '', None),)
    elif mode == 'full':
        bl = _leg(m, 'qr-full')
        q = Arr([m, m], [a.legs[0], bl], a.dt, None, {'prov': {'qr': uid, 'role': 'q', 'of': a}, 'orth': 'LO'}, 'qr.q')
        r = Arr([m, n], [bl, a.legs[1]], a.dt, None, {'prov': {'qr': uid, 'role': 'r', 'of': a}}, 'qr.r')
    elif mode == 'r':
        # scipy.linalg.qr(a, mode='r') returns (R,) only, with the shape of the full factorisation
        bl = _leg(m, 'qr-full')
        from . import mx as _mx
        _mx.reg()[uid] = _mx.of(a)
        r = Arr([m, n], [bl, a.legs[1]], a.dt, None, {'prov': {'qr': uid, 'role': 'r', 'of': a}, 'qr_full_r': True}, 'qr.r')
        A.CTX.event('qr', array=a, uid=uid, q=None, r=r)
        return (r,)
    else:
        raise AnalysisError(f'qr mode {mode!r} has no model')
    A.CTX.event('qr', array=a, uid=uid, q=q, r=r)
    return (q, r)


def rq(a, overwrite_a=False, mode='full', check_finite=True, **k):
    a = as_arr(a)
    if a.ndim != 2:
        raise value_error('expected a 2-D array')
    _destructive(a, overwrite_a, 'rq(overwrite_a=True)')
    m, n = a.shape
    uid = A.CTX.new_uid()
    if mode != 'economic':
        raise AnalysisError(f'rq mode {mode!r} has no model')
    kk = sz_min(A.CTX.atoms, m, n, origin=f'economic RQ of a {m} x {n} matrix')
    bl = () if is_one(kk) else (bond_leg(kk),)
    r = Arr([m, kk], [a.legs[0], bl], a.dt, None, {'prov': {'rq': uid, 'role': 'r', 'of': a}}, 'rq.r')
    q = Arr([kk, n], [bl, a.legs[1]], a.dt, None, {'prov': {'rq': uid, 'role': 'q', 'of': a}, 'orth': 'RO'}, 'rq.q')
    from . import mx as _mx
    _mx.reg()[uid] = _mx.of(a)
    r.tags['mx'] = (('Rr', uid, '', None),)
    q.tags['mx'] = (('Qr', uid, '', None),)
    A.CTX.event('rq', array=a, uid=uid, q=q, r=r)
    return (r, q)


def dual_legs(g):
    return tuple(x.resolve().partner() for x in g)


def check_square_system(mat, what):
    if mat.ndim != 2 or not sz_eq(mat.shape[0], mat.shape[1]):
        raise value_error(f'{what}: expected square matrix, got shape {mat.shape}')
    A.CTX.event('system-matrix', matrix=mat, what=what)


def check_rhs(mat, b, what):
    """the right-hand side lives in the row space of the matrix"""
    if not sz_eq(b.shape[0], mat.shape[0]):
        raise value_error(f'{what}: incompatible dimensions {mat.shape} and {b.shape}')
    if A.CTX.typed:
        gr, gb = mat.legs[0], b.legs[0]
        if len(gr) == len(gb):
            for x, y in zip(gr, gb):
                if x.resolve().kind in ('X', 'I') or y.resolve().kind in ('X', 'I'):
                    continue
                if not x.same(y):
                    A.CTX.event('contract-type-error', a=mat, b=b, axes=(0, 0), detail=f'{what}: right-hand side index {y} does not match the matrix row index {x}')
        elif not any(x.resolve().kind in ('X', 'I') for x in gr + gb):
            A.CTX.event('contract-type-error', a=mat, b=b, axes=(0, 0), detail=f'{what}: right-hand side {list(gb)} does not have the structure of the matrix rows {list(gr)}')


def solve(a, b, what='solve', overwrite_a=False, overwrite_b=False, **k):
    a, b = as_arr(a), as_arr(b)
    check_square_system(a, what)
    _destructive(a, overwrite_a, f'{what}(overwrite_a=True)')
    _destructive(b, overwrite_b, f'{what}(overwrite_b=True)')
    check_rhs(a, b, what)
    r = Arr([a.shape[1]] + list(b.shape[1:]), [dual_legs(a.legs[1])] + list(b.legs[1:]), A.join_dtype(a.dt, b.dt), None, {'solve': (a, b)}, what)
    A.CTX.event('solve', matrix=a, rhs=b, result=r, what=what)
    asm = k.get('assume_a')
    if asm in ('sym', 'symmetric') and a.dt == 'complex':
        A.CTX.event('solve-structure', matrix=a, assume=asm, detail=f"scipy.linalg.solve(assume_a='{asm}') on a complex matrix: 'sym' means complex symmetric (A = A^T, LAPACK zsysv reads one "
                    f"triangle and mirrors it WITHOUT conjugation); a Hermitian matrix needs 'her', a general one 'gen'")
    return r


class LU:
    def __init__(self, a):
        self.a = a


def lu_factor(a, overwrite_a=False, check_finite=True):
    a = as_arr(a)
    check_square_system(a, 'lu_factor')
    _destructive(a, overwrite_a, 'lu_factor(overwrite_a=True)')
    return (LU(a), Arr([a.shape[0]], None, 'int', None, {}, 'piv'))


def cho_factor(a, lower=False, overwrite_a=False, check_finite=True):
    """Cholesky factorisation handle of a (Hermitian positive definite) matrix: solving with it solves the system of `a`"""
    a = as_arr(a)
    check_square_system(a, 'cho_factor')
    _destructive(a, overwrite_a, 'cho_factor(overwrite_a=True)')
    return (LU(a), lower)


def cho_solve(c_and_lower, b, overwrite_b=False, check_finite=True):
    c = c_and_lower[0]
    if not isinstance(c, LU):
        raise Raised('TypeError', 'cho_solve: first argument is not the result of cho_factor')
    return solve(c.a, b, what='cho_solve', overwrite_b=overwrite_b)


def khatri_rao(a, b):
    """column-wise Kronecker product: (m x k), (n x k) -> (m n x k); the row index is the merged pair (row of a, row of b), the column index is shared"""
    a, b = as_arr(a), as_arr(b)
    if a.ndim != 2 or b.ndim != 2:
        raise value_error('khatri_rao: the input arrays must be 2-D')
    if not sz_eq(a.shape[1], b.shape[1]):
        raise value_error('khatri_rao: the number of columns of the two arrays must be equal')
    return Arr([a.shape[0] * b.shape[0], a.shape[1]], [tuple(a.legs[0]) + tuple(b.legs[0]), a.legs[1] or b.legs[1]], A.join_dtype(a.dt, b.dt), None, {'khatri_rao': (a, b)}, 'khatri_rao')


def lu_solve(lu_and_piv, b, trans=0, overwrite_b=False, check_finite=True):
    lu = lu_and_piv[0]
    if not isinstance(lu, LU):
        raise Raised('TypeError', 'lu_solve: first argument is not the result of lu_factor')
    b = as_arr(b)
    _destructive(b, overwrite_b, 'lu_solve(overwrite_b=True)')
    a = lu.a
    if trans != 0:
        # solves a^T x = b (trans=1) or a^H x = b (trans=2): a different system
        a = a.transpose() if trans == 1 else a.conj().transpose()
        A.CTX.event('lu-trans', trans=trans)
    check_rhs(a, b, 'lu_solve')
    r = Arr([a.shape[1]] + list(b.shape[1:]), [dual_legs(a.legs[1])] + list(b.legs[1:]), A.join_dtype(a.dt, b.dt), None, {'solve': (a, b)}, 'lu_solve')
    A.CTX.event('solve', matrix=a, rhs=b, result=r, what='lu_solve', trans=trans)
    return r


def lstsq(a, b, cond=None, lapack_driver=None, **k):
    a, b = as_arr(a), as_arr(b)
    if a.ndim != 2:
        raise value_error('lstsq: expected a matrix')
    if not sz_eq(a.shape[0], b.shape[0]):
        raise value_error(f'lstsq: incompatible dimensions {a.shape} and {b.shape}')
    x = Arr([a.shape[1]] + list(b.shape[1:]), [dual_legs(a.legs[1])] + list(b.legs[1:]), A.join_dtype(a.dt, b.dt), None, {'lstsq': (a, b)}, 'lstsq')
    gram = False
    fac = a.tags.get('factors')
    if fac and len(fac) == 2 and all(isinstance(f_, Arr) and f_.ndim == 2 for f_ in fac):
        # M M^T (or M^T M): one factor is the transposed view of the other
        def root_(v):
            hops = 0
            while isinstance(v, Arr) and v.origin in ('transpose', 'conj', 'copy') and v.parents and hops < 4:
                v, hops = v.parents[0], hops + 1
            return v
        gram = root_(fac[0]) is root_(fac[1]) and (fac[0].origin == 'transpose') != (fac[1].origin == 'transpose')
    A.CTX.event('lstsq', matrix=a, rhs=b, result=x, cond=cond, gram=gram)
    return (x, scalar('real', 'resid'), scalar('int', 'rank'), Arr([sz_min(A.CTX.atoms, a.shape[0], a.shape[1])], None, 'real', None, {}, 'sv'))


def eig(a, b=None, overwrite_a=False, overwrite_b=False, check_finite=True, **k):
    a = as_arr(a)
    check_square_system(a, 'eig')
    _destructive(a, overwrite_a, 'eig(overwrite_a=True)')
    if b is not None:
        b = as_arr(b)
        check_square_system(b, 'eig (right-hand operator)')
        _destructive(b, overwrite_b, 'eig(overwrite_b=True)')
        check_pencil(a, b)
    n = a.shape[0]
    uid = A.CTX.new_uid()
    evl = _leg(n, 'eigen-index')
    w = Arr([n], [evl], 'complex', None, {'prov': {'eig': uid, 'role': 'w'}}, 'eig.w')
    v = Arr([n, n], [dual_legs(a.legs[1]), evl], 'complex', None, {'prov': {'eig': uid, 'role': 'v'}}, 'eig.v')
    A.CTX.event('eig', matrix=a, b=b, w=w, v=v, uid=uid, solver='eig')
    return (w, v)


def check_pencil(a, b):
    if not sz_eq(a.shape[0], b.shape[0]):
        raise value_error('eig: the two matrices of the pencil have different sizes')
    if A.CTX.typed:
        for ax in (0, 1):
            ga, gb = a.legs[ax], b.legs[ax]
            if len(ga) == len(gb):
                for x, y in zip(ga, gb):
                    if x.resolve().kind == 'M' and y.resolve().kind == 'M':
                        if x.resolve().key != y.resolve().key or x.resolve().var != y.resolve().var:
                            A.CTX.event('contract-type-error', a=a, b=b, axes=(ax, ax), detail=f'generalised eigenproblem: index {x} of the operator does not match {y} of the right-hand operator')
                    elif x.resolve().kind == 'R' and y.resolve().kind == 'R' and not x.same(y):
                        A.CTX.event('contract-type-error', a=a, b=b, axes=(ax, ax), detail=f'generalised eigenproblem: index {x} vs {y}')


def eigh(a, b=None, overwrite_a=False, overwrite_b=False, check_finite=True, subset_by_index=None, eigvals=None, **k):
    a = as_arr(a)
    check_square_system(a, 'eigh')
    _destructive(a, overwrite_a, 'eigh(overwrite_a=True)')
    if b is not None:
        b = as_arr(b)
        check_square_system(b, 'eigh (right-hand operator)')
        _destructive(b, overwrite_b, 'eigh(overwrite_b=True)')
        check_pencil(a, b)
    n = a.shape[0]
    sub = subset_by_index or eigvals
    kk = n
    if sub is not None:
        lo, hi = sub
        kk = simp(Size.of(hi, A.CTX.atoms) - lo + 1)
    uid = A.CTX.new_uid()
    evl = _leg(kk, 'eigen-index')
    w = Arr([kk], [evl], 'real', None, {'prov': {'eig': uid, 'role': 'w'}, 'ascending': True, 'subset': sub, 'n': n}, 'eigh.w')
    v = Arr([n, kk], [dual_legs(a.legs[1]), evl], a.dt, None, {'prov': {'eig': uid, 'role': 'v'}, 'subset': sub}, 'eigh.v')
    A.CTX.event('eig', matrix=a, b=b, w=w, v=v, uid=uid, solver='eigh', subset=sub)
    return (w, v)


def eigs(a, k=6, M=None, sigma=None, v0=None, **kw):
    a = as_arr(a)
    check_square_system(a, 'eigs')
    if M is not None:
        check_pencil(a, as_arr(M))
    n = a.shape[0]
    uid = A.CTX.new_uid()
    evl = _leg(k, 'eigen-index')
    w = Arr([k], [evl], 'complex', None, {'prov': {'eig': uid, 'role': 'w'}}, 'eigs.w')
    v = Arr([n, k], [dual_legs(a.legs[1]), evl], 'complex', None, {'prov': {'eig': uid, 'role': 'v'}}, 'eigs.v')
    A.CTX.event('eig', matrix=a, b=M, w=w, v=v, uid=uid, solver='eigs', sigma=sigma, k=k)
    return (w, v)


def eigsh(a, k=6, M=None, sigma=None, which='LM', v0=None, **kw):
    # the Lanczos sibling of eigs for Hermitian pencils.  In shift-invert mode (sigma given) `which` refers to the TRANSFORMED eigenvalues 1 / (lambda - sigma):
    # the eigenvalues nearest to sigma are which='LM' (the default); 'LA' / 'SA' / 'BE' select by the signed transformed value
    w, v = eigs(a, k=k, M=M, sigma=sigma, v0=v0)
    ev = [e for e in A.CTX.events if e.get('kind') == 'eig'][-1]
    ev['solver'], ev['which'], ev['hermitian_solver'] = 'eigs', which, True
    if sigma is not None and which != 'LM':
        A.CTX.event('eigs-which', which=which, sigma=sigma, detail=f"eigsh(..., sigma={sigma}, which='{which}'): in shift-invert mode `which` applies to 1 / (lambda - sigma), so '{which}' does not return "
                    f"the eigenvalues nearest to sigma (that is which='LM')")
    rw = Arr(w.shape, w.legs, 'real', None, dict(w.tags), 'eigsh.w', parents=(w,))
    return (rw, v)


def gmres(a, b, x0=None, tol=None, rtol=None, atol=None, restart=None, maxiter=None, M=None, callback=None, **kw):
    # an iterative solve: the result satisfies the system to the requested RELATIVE tolerance (SciPy's default 1e-5), and only if the returned flag is 0
    rel = rtol if rtol is not None else (tol if tol is not None else 1e-5)
    x = solve(a, b, what='gmres')
    A.CTX.event('iterative-solve', matrix=as_arr(a), result=x, rtol=rel, detail=f'the system is solved iteratively (gmres) to a relative residual of {rel:g} (atol={atol}); the solvers of this '
                f'library solve their micro systems directly, to rounding')
    return (x, Arr((), [], 'int', None, {}, 'gmres.info'))


def expm(a):
    a = as_arr(a)
    check_square_system(a, 'expm')
    r = Arr(a.shape, a.legs, a.dt, None, {'expm_of': a}, 'expm')
    A.CTX.event('expm', matrix=a, result=r)
    return r


def expm_multiply(a, b, **k):
    a, b = as_arr(a), as_arr(b)
    check_square_system(a, 'expm_multiply')
    if not sz_eq(a.shape[1], b.shape[0]):
        raise value_error(f'expm_multiply: shapes {a.shape} and {b.shape} not aligned')
    # exp(a) b : b is contracted with the column index of a and the result carries the row index of a
    A.check_contract(a, b, [1], [0], 'expm_multiply')
    if A.CTX.typed:
        # exponentiation needs rows and columns to index the same space
        gr, gc = a.legs[0], a.legs[1]
        if len(gr) == len(gc):
            for x, y in zip(gr, gc):
                if x.resolve().kind in ('X', 'I') or y.resolve().kind in ('X', 'I'):
                    continue
                if not x.same(y.resolve().partner() if y.resolve().kind == 'M' else y.resolve().flipped()):
                    A.CTX.event('contract-type-error', a=a, b=a, axes=(0, 1), detail=f'expm_multiply: row index {x} and column index {y} of the exponentiated matrix do not describe one space')
    r = Arr([a.shape[0]] + list(b.shape[1:]), [dual_legs(a.legs[1])] + list(b.legs[1:]), 'complex' if 'complex' in (a.dt, b.dt) else a.dt, None, {'expm_multiply': (a, b)}, 'expm_multiply')
    A.CTX.event('expm_multiply', matrix=a, vector=b, result=r)
    return r


class FakeScipyLinalg:
    svd = staticmethod(svd)
    qr = staticmethod(qr)
    rq = staticmethod(rq)
    solve = staticmethod(lambda a, b, **k: solve(a, b, 'lin.solve', **{x: y for x, y in k.items() if x in ('overwrite_a', 'overwrite_b', 'assume_a')}))
    lu_factor = staticmethod(lu_factor)
    lu_solve = staticmethod(lu_solve)
    cho_factor = staticmethod(cho_factor)
    cho_solve = staticmethod(cho_solve)
    khatri_rao = staticmethod(khatri_rao)
    lstsq = staticmethod(lstsq)
    eig = staticmethod(eig)
    eigh = staticmethod(eigh)
    expm = staticmethod(expm)


class FakeSparseLinalg:
    expm_multiply = staticmethod(expm_multiply)
    eigs = staticmethod(eigs)
    eigsh = staticmethod(eigsh)
    gmres = staticmethod(gmres)


class FakeSparse:
    linalg = FakeSparseLinalg


class FakeScipy:
    linalg = FakeScipyLinalg
    sparse = FakeSparse


class FakeTime:
    @staticmethod
    def time():
        return 0.0


class FakeSys:
    import sys as _sys
    float_info = _sys.float_info

    class stdout:
        @staticmethod
        def write(*a, **k):
            return None

        @staticmethod
        def flush(*a, **k):
            return None


def libs():
    return {'numpy': FakeNumpy, 'scipy': FakeScipy, 'scipy.linalg': FakeScipyLinalg, 'scipy.sparse.linalg': FakeSparseLinalg, 'scipy.sparse': FakeSparse,
            'time': FakeTime, 'math': math, 'typing': object(), 'sys': FakeSys, '__future__': object()}
