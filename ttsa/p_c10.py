"""C10  Splitting integrators (DESIGN.md 3/C10): stage words, order conditions on the literal coefficients, generator typing, sibling branches.
solvers/ode.py (lie/strang/yoshida/kahan_li splitting, __splitting_propagators, __splitting_stage) interpreted over the Layer-2 array domain."""
import itertools
import math

from . import arr as A
from . import l2, l2rules
from .arr import Arr, mode_leg
from .core import AnalysisError, Finding, Run, norm_text
from .shape import sz_eq

ODE = 'solvers.ode'
H = 0.5
SCHEMES = {'lie_splitting': 1, 'strang_splitting': 2, 'yoshida_splitting': 4, 'kahan_li_splitting': 6}


def components(sc, d, homogeneous, matrix_form=False, shared=False):
    """typed single-site / two-site components of a nearest-neighbour operator; shared: lists whose entries are one and the same array object ([S] * d)"""
    if shared:
        S0, L0, I0, M0, ns, rs = components(sc, d, True, matrix_form)
        return [S0] * d, [L0] * d, [I0] * d, [M0] * d, ns, rs
    if homogeneous:
        n, r = sc.atom('n'), sc.atom('r')
        ns, rs = [n] * d, [r] * d
    else:
        ns = [sc.atom(f'n{i}') for i in range(d)]
        rs = [sc.atom(f'r{i}') for i in range(d)]

    def site(i, var, who):
        return (mode_leg('s' if homogeneous else i, ns[i], var, who),)
    S = [Arr([ns[i], ns[i]], [site(i, +1, 'S.row'), site(i, -1, 'S.col')], 'complex', None, {'comp': ('S', i)}, f'S[{i}]') for i in range(d)]
    I = [Arr([ns[i], ns[i]], [site(i, +1, 'I.row'), site(i, -1, 'I.col')], 'real', None, {'comp': ('I', i), 'const': 'identity'}, f'I[{i}]') for i in range(d)]
    if matrix_form:
        L = [Arr([ns[i], ns[i]], [site(i, +1, 'L.row'), site(i, -1, 'L.col')], 'complex', None, {'comp': ('L', i)}, f'L[{i}]') for i in range(d)]
        M = [Arr([ns[i], ns[i]], [site(i, +1, 'M.row'), site(i, -1, 'M.col')], 'complex', None, {'comp': ('M', i)}, f'M[{i}]') for i in range(d)]
    else:
        bonds = [A.bond_leg(rs[i]) for i in range(d)]
        L = [Arr([ns[i], ns[i], rs[i]], [site(i, +1, 'L.row'), site(i, -1, 'L.col'), (bonds[i],)], 'complex', None, {'comp': ('L', i)}, f'L[{i}]') for i in range(d)]
        M = [Arr([rs[i - 1], ns[i], ns[i]], [(bonds[i - 1],), site(i, +1, 'M.row'), site(i, -1, 'M.col')], 'complex', None, {'comp': ('M', i)}, f'M[{i}]') for i in range(d)]
    if homogeneous:
        return S[0], L[0], I[0], M[1 % d], ns, rs
    return S, L, I, M, ns, rs


def prop_info(K):
    """(coefficient / H, generator array) of a propagator produced by expm(generator * c * h)"""
    if not isinstance(K, Arr) or 'expm_of' not in K.tags:
        return None
    x = K.tags['expm_of']
    sc = x.tags.get('scale')
    if sc is None:
        return None
    return sc[0] / H, sc[1]


def gen_structure(g):
    """('bond', i, terms) or ('site', i): which components a generator is made of"""
    if isinstance(g, Arr) and 'comp' in g.tags:
        return ('site', g.tags['comp'])
    parts = []

    def walk(v, depth=0):
        if not isinstance(v, Arr) or depth > 12:
            parts.append(('?',))
            return
        if v.origin == 'copy' and v.parents:
            return walk(v.parents[0], depth + 1)
        ex = v.tags.get('expr')
        if ex and ex[0] == 'add':
            walk(ex[1][0], depth + 1); walk(ex[1][1], depth + 1)
            return
        if 'kron' in v.tags:
            a, b = v.tags['kron']
            def slice_index(x):
                so = x.tags.get('sel_of') if isinstance(x, Arr) else None
                ints = [s_[1] for s_ in so[1] if s_[0] == 'int'] if so else []
                return ints[0] if len(ints) == 1 else None
            parts.append(('kron', _root_comp(a), _root_comp(b), slice_index(a), slice_index(b)))
            return
        if 'einsum' in v.tags:
            pat, ops = v.tags['einsum']
            parts.append(('einsum', pat, tuple(_root_comp(o) for o in ops)))
            return
        if v.origin in ('getitem',) or (v.parents and v.buf is v.parents[0].buf):
            return walk(v.parents[0], depth + 1)
        parts.append(('?', v.origin))
    walk(g)
    return ('bond', tuple(parts))


def _root_comp(v):
    seen = 0
    while isinstance(v, Arr) and 'comp' not in v.tags and seen < 6:
        so = v.tags.get('sel_of')
        if so is not None:
            v = so[0]
        elif v.parents:
            v = v.parents[0]
        else:
            break
        seen += 1
    return v.tags.get('comp') if isinstance(v, Arr) else None


def check(repo, tier):
    run = Run('C10', tier, repo, 'The splitting drivers, the propagator builder and the stage routine are interpreted from source over typed symbolic arrays '
              '(concrete chain length, symbolic local dimensions and interaction ranks); the sequence of applied propagators and their literal coefficients are extracted from the event log.')
    run.rule('D1', 'stage words: every stage applies each bond of its parity exactly once with one coefficient (the last site\'s single-site factor belongs to the stage of its parity '
             'with the same coefficient); per step the stages form E(g1/2) O(g1) E((g1+g2)/2) ... E(gs/2) (Lie: E(1) O(1))')
    run.rule('D2', 'order conditions on the folded literal coefficients: sum g = 1 (all), palindromic g and sum g^3 = 0 (order >= 4), sum g^5 = 0 and sum_k g_k^3 (sum\'_{l<=k} g_l)^2 = 0 '
             '(order >= 6), to 1e-12; the step size multiplies every exponent')
    run.rule('D3', 'generator typing: K_i = S_i (x) I_{i+1} + sum_k L_i^k (x) M_{i+1}^k with row/column groups ordered (site i, site i+1), the same order in which the stage merges the two '
             'mode indices; the propagator is applied through its column index; the last site carries its single-site term')
    run.rule('D4', 'the previous state is copied before the in-place stages (initial value untouched, trajectory of distinct objects, one state per step); with normalize = p the norm is taken after the last stage')
    run.rule('D5', 'siblings: the homogeneous branch of the propagator builder yields the same structure and coefficient-by-parity rule as the site-dependent branch')
    run.trusted = ['NumPy/SciPy transfer functions (kron, einsum, expm)', 'order conditions for symmetric compositions of a symmetric second-order map (Hairer-Lubich-Wanner)']
    orders = (2, 3, 4, 5) if tier == 'thorough' else (2, 3, 4)
    run.bounds = f'chain lengths {orders}; site-dependent (3-way and matrix-form couplings) and homogeneous components; one and two steps; normalize in (0, 2)'
    mods = {ODE}

    def F(qual, rule, what, msg):
        fn = repo.fn(qual)
        return Finding('C10', rule, fn.where, what, msg, fn.file, fn.node.lineno)
    n_contr = 0
    for scheme, want_order in SCHEMES.items():
        entry = f'{ODE}.{scheme}'
        for d, hom, nz in itertools.product(orders, (False, True, 'shared'), (0, 1, 2)):
            shared = hom == 'shared'
            if shared and not (nz == 0 and (d == 3 or tier == 'thorough')):
                continue
            hom = bool(hom) and not shared
            if tier == 'quick' and hom and d > 3:
                continue
            if tier == 'quick' and nz == 1 and d != 3:
                continue
            for mform in ((False, True) if (d == 3 and nz == 0 and not shared) else (False,)):
                scen = f'{scheme}(chain length={d}, {"homogeneous" if hom else ("lists of one shared array per component" if shared else "site-dependent")}{", matrix-form couplings" if mform else ""}, normalize={nz})'

                def body(sc):
                    S, L, I, M, ns, rs = components(sc, d, hom, mform, shared)
                    xdt = 'real' if nz == 1 else 'complex'        # a real initial state under complex components must become complex
                    x = sc.tt('x', d, 'vec', row=[ns[i] for i in range(d)], dtype=xdt) if not (hom or shared) else sc.tt('x', d, 'vec', row=[ns[0]] * d, dtype=xdt)
                    # the state lives in the site spaces of the components
                    for k, c in enumerate(x._attrs['cores']):
                        c.legs[1] = (mode_leg('s' if (hom or shared) else k, c.shape[1], +1, 'x'),)
                    sc.inputs = (x, S, L, I, M)
                    sc.old = list(x._attrs['cores'])
                    return sc.call(entry, S, L, I, M, x, H, 2, threshold=0, max_rank=sc.atom('rho', free=True), normalize=nz)
                for ch, sc, res, exc in l2.explore(repo, body, typed=True):
                    n_contr += l2rules.typing_obligations(run, 'C10', 'D3', repo, sc, scen, mods)
                    if exc is not None:
                        run.oblige('D1', (entry, scen), False)
                        l2rules.raised_finding(run, 'C10', 'D1', repo, entry, scen, exc)
                        continue
                    x = sc.inputs[0]
                    # D4 trajectory / frame
                    ok = isinstance(res, list) and len(res) == 3 and res[0] is x and len({id(t) for t in res}) == 3 and all(x._attrs['cores'][k] is sc.old[k] for k in range(d))
                    run.oblige('D4', (entry, scen, 'trajectory'), ok)
                    if not ok:
                        run.add(F(entry, 'D4', 'trajectory / initial value', f'{scen}: the result is not [initial value, state 1, state 2] of distinct objects, or the initial value was modified by the in-place stages'))
                        continue
                    for t in res[1:]:
                        l2rules.invariant_obligation(run, 'C10', 'D4', repo, sc, t, entry, scen, 'returned state')
                    # word of applied propagators
                    word = []
                    for e in sc.events('contract'):
                        # an application of a propagator: a contraction (np.einsum / np.tensordot / dot, wherever it is written) one operand of which is a matrix exponential
                        ks = [o for o in (e['a'], e['b']) if isinstance(o, Arr) and 'expm_of' in o.tags]
                        if not ks:
                            continue
                        if len(ks) == 2:
                            continue          # a product of two propagators (exp(aG) exp(bG), itself a propagator): not an application to the state
                        info = prop_info(ks[0])
                        if info is None:
                            word.append(None)
                            continue
                        word.append((info[0], gen_structure(info[1]), ks[0]))
                    if not word and ch:
                        # every propagator application is skipped on this path by tests the analysis explores both ways (tolerance comparisons with the identity, ...):
                        # such a test does not establish that the propagator IS the identity
                        run.oblige('D1', (entry, scen, tuple(ch), 'applied'), False)
                        run.add(F(entry, 'D1', 'propagators skipped', f'{scen}: on the path with test outcomes {ch} no propagator is applied to the state at all (applications are skipped by a '
                                  f'data-dependent test, e.g. a tolerance comparison with the identity, which does not make them the identity)'))
                        continue
                    if None in word or not word:
                        raise AnalysisError(f'{scen}: ' + ('no application of a matrix exponential to the state was found' if not word else
                                                           'a propagator applied by a stage is not recognisably exp(coefficient * step_size * generator)'))
                    per_step = len(word) // 2
                    w1 = word[:per_step]
                    # identify the bond of each application through the stage call order: parity stages
                    stages = stage_list(sc, d)
                    bad = []
                    merged = []
                    pos = 0
                    for (parity, idxs) in stages[:len(stages) // 2]:
                        coefs = []
                        for i in idxs:
                            if pos >= len(w1):
                                bad.append('fewer propagator applications than stage indices')
                                break
                            c, struct, K = w1[pos]
                            pos += 1
                            coefs.append(c)
                            want_struct = 'site' if i == d - 1 else 'bond'
                            if struct[0] != want_struct:
                                bad.append(f'index {i}: a {"single-site" if struct[0] == "site" else "two-site"} propagator is applied where a {"single-site" if want_struct == "site" else "two-site"} one belongs')
                        if len({round(c.real, 14) + round(c.imag, 14) * 1j if isinstance(c, complex) else round(c, 14) for c in coefs}) > 1:
                            bad.append(f'stage of parity {parity}: the bonds are propagated with different coefficients {coefs}')
                        want_idx = list(range(parity, d, 2))
                        if list(idxs) != want_idx:
                            bad.append(f'stage of parity {parity} visits {list(idxs)} instead of {want_idx}')
                        if coefs:
                            if merged and merged[-1][0] == parity:
                                merged[-1] = (parity, merged[-1][1] + coefs[0])
                            else:
                                merged.append((parity, coefs[0]))
                    run.oblige('D1', (entry, scen, 'stages'), not bad, sample={'rule': 'D1', 'scenario': scen, 'merged_stages': [(p, round(float(c.real if isinstance(c, complex) else c), 6)) for p, c in merged][:12]} if d == 3 and not hom and nz == 0 and not mform else None)
                    if bad:
                        run.add(F(entry, 'D1', 'stage structure', f'{scen}: ' + '; '.join(sorted(set(bad))[:3])))
                        continue
                    # gamma sequence
                    cs = [float(c.real if isinstance(c, complex) else c) for _, c in merged]
                    ps = [p for p, _ in merged]
                    bad = []
                    if want_order == 1:
                        if not (ps == [0, 1] and abs(cs[0] - 1) < 1e-12 and abs(cs[1] - 1) < 1e-12):
                            bad.append(f'the step is not E(1) O(1): merged stages {list(zip(ps, cs))}')
                    else:
                        if not (len(ps) % 2 == 1 and ps == [k % 2 for k in range(len(ps))]):
                            bad.append(f'the stages do not alternate E O E ... E: parities {ps}')
                        else:
                            g = cs[1::2]
                            a = cs[0::2]
                            want_a = [g[0] / 2] + [(g[k - 1] + g[k]) / 2 for k in range(1, len(g))] + [g[-1] / 2]
                            if any(abs(x - y) > 1e-12 for x, y in zip(a, want_a)):
                                bad.append(f'the even stages {a} are not the half sums {want_a} of the odd coefficients: the step is not a composition of Strang blocks')
                            s1 = sum(g)
                            if abs(s1 - 1) > 1e-12:
                                bad.append(f'sum of the composition coefficients is {s1!r}, not 1 (consistency)')
                            if want_order >= 4:
                                if any(abs(x - y) > 1e-12 for x, y in zip(g, reversed(g))):
                                    bad.append('the composition is not palindromic')
                                if abs(sum(x ** 3 for x in g)) > 1e-12:
                                    bad.append(f'sum g^3 = {sum(x ** 3 for x in g)!r} != 0: the order-4 condition fails')
                            if want_order >= 6:
                                if abs(sum(x ** 5 for x in g)) > 1e-12:
                                    bad.append(f'sum g^5 = {sum(x ** 5 for x in g)!r} != 0: an order-6 condition fails')
                                acc, tot = 0.0, 0.0
                                for x in g:
                                    c_mid = acc + x / 2
                                    tot += x ** 3 * c_mid ** 2
                                    acc += x
                                if abs(tot) > 1e-12:
                                    bad.append(f'sum_k g_k^3 (sum\'_(l<=k) g_l)^2 = {tot!r} != 0: an order-6 condition fails')
                    run.oblige('D2', (entry, scen, 'order conditions'), not bad, sample={'rule': 'D2', 'scheme': scheme, 'gammas': cs[1::2][:9]} if d == 2 and not hom and nz == 0 else None)
                    if bad:
                        run.add(F(entry, 'D2', f'composition coefficients (order {want_order})', f'{scen}: ' + '; '.join(bad[:3])))
                    # second step uses the same word
                    w2 = word[per_step:]
                    same = len(w2) == len(w1) and all(abs(complex(a_[0]) - complex(b_[0])) < 1e-14 for a_, b_ in zip(w1, w2))
                    run.oblige('D1', (entry, scen, 'steps agree'), same)
                    if not same:
                        run.add(F(entry, 'D1', 'steps differ', f'{scen}: the second time step applies a different sequence of propagators than the first'))
                    # D4 normalisation last, in the requested norm (p=1: maximum column sum; p=2: Euclidean norm)
                    if nz > 0:
                        c0 = res[-1]._attrs['cores'][0]
                        anc = A.ancestors([c0])
                        kinds = {a_.origin for a_ in anc.values() if a_.ndim == 0 and a_.origin in ('norm', 'amax')}
                        if not kinds:
                            # (neither np.linalg.norm nor a maximum of column sums reaches the state: the norm may be computed in a way this rule does not follow)
                            # refuted when nothing at all computes a norm in the whole run: no call of TT.norm, no np.linalg.norm / maximum event, and no computed scalar
                            # among the ancestors of the returned first core (the option then has no effect); otherwise the way the norm is formed is not one this rule follows
                            any_norm = any(e_['kind'] == 'norm' or (e_['kind'] == 'call' and e_['callee'].name == 'norm') for e_ in sc.ctx.events)
                            scalars = [a_ for a_ in anc.values() if a_.ndim == 0 and 'value' not in a_.tags]
                            if not any_norm and not scalars:
                                run.oblige('D4', (entry, scen, 'normalised'), False)
                                run.add(F(entry, 'D4', 'normalisation', f'{scen}: normalize={nz} has no effect: no norm is computed anywhere on the path and the returned state is not scaled'))
                                continue
                            raise AnalysisError(f'{scen}: no norm computation is recognised in the returned state although normalize={nz}')
                        good = ('amax' in kinds) if nz == 1 else ('norm' in kinds and 'amax' not in kinds)
                        run.oblige('D4', (entry, scen, 'normalised'), good)
                        if not good:
                            run.add(F(entry, 'D4', 'normalisation', f'{scen}: the returned state is not divided by its {"Manhattan (p=1)" if nz == 1 else "Euclidean (p=2)"} norm (found {sorted(kinds) or "no norm"})'))
                        # ... and nothing truncates the state after the normalisation: a factor of a decomposition that is cut (rank cap / threshold) and whose
                        # input was already divided by the norm makes the returned state shorter than 1 (first step: every norm among the ancestors is this step's)
                        late = []
                        for a_ in A.ancestors(list(res[1]._attrs['cores'])).values():
                            pv = a_.tags.get('prov')
                            if isinstance(pv, dict) and 'svd' in pv and 'sel' in pv and isinstance(pv.get('of'), Arr):
                                if any(b_.ndim == 0 and b_.origin in ('norm', 'amax') for b_ in A.ancestors([pv['of']]).values()):
                                    late.append(pv['svd'])
                        run.oblige('D4', (entry, scen, 'normalised last'), not late)
                        if late:
                            run.add(F(entry, 'D4', 'normalisation before truncation', f'{scen}: {len(set(late))} truncated decomposition(s) are applied to the state after it has been divided by its '
                                      f'norm: what the cut removes is missing from the norm of the returned state'))
                    # dtype: a complex propagator applied to a real state must not be written into a real core
                    for e in sc.events('complex-loss'):
                        where, cons, f, ln = l2rules.ev_where(repo, e, mods)
                        run.oblige('D3', (where, cons, 'dtype'), False)
                        run.add(Finding('C10', 'D3', where, cons, f'{scen}: {e["detail"]}', f, ln))
                    # D3 generator structure of every propagator used
                    seen_bonds = {}
                    for c, struct, K in w1:
                        if struct[0] == 'bond':
                            seen_bonds.setdefault(struct[1], K)
                    badg = []
                    for parts, K in seen_bonds.items():
                        # single-site part: kron(S_i, I_(i+1));  coupling part: einsum over the interaction index of (L_i, M_(i+1)), or the (loop) sum of
                        # kron(L_i[:, :, k], M_(i+1)[k, :, :]) with one and the same k
                        single = [p for p in parts if p[0] == 'kron' and p[1] and p[1][0] == 'S']
                        coupling = [p for p in parts if p not in single]
                        if any(p[0] == '?' for p in parts):
                            raise AnalysisError(f'{scen}: a two-site generator contains a term the analysis does not recognise: {parts}')
                        if len(single) != 1 or not coupling:
                            badg.append(f'a two-site generator consists of {[q[:3] for q in parts]} instead of kron(S_i, I_(i+1)) + sum_k L_i^k (x) M_(i+1)^k')
                            continue
                        a_, b_ = single[0][1], single[0][2]
                        if not (a_ and b_ and a_[0] == 'S' and b_[0] == 'I' and (hom or shared or b_[1] == a_[1] + 1)):
                            badg.append(f'the single-site part of a generator is kron({a_}, {b_}) instead of kron(S_i, I_(i+1))')
                        for cp in coupling:
                            ops = cp[2] if cp[0] == 'einsum' else (cp[1], cp[2])
                            if not (ops[0] and ops[1] and ops[0][0] == 'L' and ops[1][0] == 'M' and (hom or shared or ops[1][1] == ops[0][1] + 1) and (hom or shared or (a_ and ops[0][1] == a_[1]))):
                                badg.append(f'the coupling part of a generator combines {ops} instead of (L_i, M_(i+1))')
                            if cp[0] == 'kron' and len(cp) == 5 and (cp[3] is not None or cp[4] is not None) and cp[3] is not cp[4] and cp[3] != cp[4]:
                                badg.append(f'the coupling part pairs slice {cp[3]} of L with slice {cp[4]} of M')
                        rows = [(l.resolve().key, l.resolve().var) for l in K.legs[0]]
                        cols = [(l.resolve().key, l.resolve().var) for l in K.legs[1]]
                        if not (hom or shared) and a_:
                            i = a_[1]
                            if rows != [(i, +1), (i + 1, +1)] or cols != [(i, -1), (i + 1, -1)]:
                                badg.append(f'the generator of bond {i} has row indices {K.legs[0]} / column indices {K.legs[1]} instead of (site {i}, site {i + 1}) rows and columns')
                    run.oblige('D3', (entry, scen, 'generators'), not badg)
                    if badg:
                        run.add(F(f'{ODE}.__splitting_propagators', 'D3', 'two-site generators', f'{scen}: ' + '; '.join(sorted(set(badg))[:3])))
    # ------------------------------------------------------------------ D5 siblings of the propagator builder
    entry = f'{ODE}.__splitting_propagators'
    for d in orders:
        sig = {}
        for hom in (False, True):
            def body(sc):
                S, L, I, M, ns, rs = components(sc, d, hom)
                return sc.call(entry, S, L, I, M, d, H, [0.25, 0.75])
            for ch, sc, res, exc in l2.explore(repo, body, typed=True):
                if exc is not None:
                    run.oblige('D5', (entry, d, hom), False)
                    l2rules.raised_finding(run, 'C10', 'D5', repo, entry, f'__splitting_propagators(order={d}, homogeneous={hom})', exc)
                    continue
                out = []
                for k, K in enumerate(res):
                    info = prop_info(K)
                    if info is None:
                        out.append(None)
                        continue
                    st = gen_structure(info[1])
                    # (the coupling term may be written as an einsum over the interaction index or as a sum of Kronecker products: both are 'coupling')
                    kinds = tuple(sorted({('single' if (p[0] == 'kron' and p[1] and p[1][0] == 'S') else 'coupling' if p[0] in ('kron', 'einsum') else p[0]) for p in st[1]})) if st[0] == 'bond' else None
                    out.append((round(float(info[0].real if isinstance(info[0], complex) else info[0]), 12), st[0], kinds))
                sig[hom] = out
        want = [(0.25 if k % 2 == 0 else 0.75, 'site' if k == d - 1 else 'bond', None if k == d - 1 else ('coupling', 'single')) for k in range(d)]
        for hom in (False, True):
            good = sig.get(hom) == want
            run.oblige('D5', (entry, d, hom), good, sample={'rule': 'D5', 'order': d, 'homogeneous': hom, 'propagators': str(sig.get(hom))} if d == 3 else None)
            if not good:
                run.add(F(entry, 'D5', f'coefficient-by-parity rule ({"homogeneous" if hom else "site-dependent"} branch)', f'order {d}: the list of propagators is {sig.get(hom)}, expected (coefficient[parity of the bond], '
                          f'two-site generator kron + coupling) for the bonds and the single-site term of the last site: {want}'))
    l2rules.frame_obligations(run, 'C10', 'D4', repo, [f'{ODE}.{s}' for s in SCHEMES])
    run.analysed = {'typed_contractions': n_contr}
    run.floor('obligations decided', run.obligations, 100)
    return run


def stage_list(sc, d):
    """[(parity, indices)] of the stage calls, from the core-store / call events: reconstructed from the np.arange(parity, order, 2) arguments"""
    out = []
    for e in sc.ctx.events:
        if e['kind'] == 'call' and e['callee'].name == '__splitting_stage':
            idx = [int(i) for i in e['args'][1]]
            out.append((idx[0] % 2 if idx else None, idx))
    return out
