from .p_c03 import check_c05 as check  # noqa
