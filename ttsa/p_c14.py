"""C14  Basis functions: derivatives are the derivatives of the function (DESIGN.md 2.5, 3/C14).

The methods __call__, partial, partial2, gradient, hessian of every Function subclass are *interpreted from their source* over
sympy expressions (no repo code is executed); `partial*` / `gradient` / `hessian` are then compared with sympy's own
derivatives of the interpreted `__call__`.  Computer algebra on the syntax of sibling methods; no SMT solver, no path constraints.
"""
import ast
import itertools

import sympy as sp

from .core import AnalysisError, Finding, Run, norm_text
from .interp import Interp, Instance, Raised, UnknownTruth, Fork, explore

DIM = 3


# ------------------------------------------------------------------------------------------------ sympy domain
class SymArray:
    """np.zeros / np.array results: nested python lists with tuple indexing"""

    def __init__(self, data, inherits=None):
        self.data = data
        self.inherits = inherits          # allocated by zeros_like & co. from the evaluation point: has the point's dtype (integer for integer data)

    @staticmethod
    def zeros(shape):
        shape = (shape,) if isinstance(shape, int) else tuple(shape)

        def mk(s):
            return sp.Integer(0) if not s else [mk(s[1:]) for _ in range(int(s[0]))]
        return SymArray(mk(shape))

    def _check(self, d, k):
        if not isinstance(d, list) or not isinstance(k, int) or not (-len(d) <= k < len(d)):
            raise Raised('IndexError', f'index {k} is out of bounds for axis with size {len(d) if isinstance(d, list) else 0}')

    def __getitem__(self, i):
        d = self.data
        if (i is Ellipsis or i == ()) :
            return d if not isinstance(d, list) else self
        for k in (i if isinstance(i, tuple) else (i,)):
            self._check(d, k)
            d = d[k]
        return SymArray(d) if isinstance(d, list) else d

    def __setitem__(self, i, v):
        if i is Ellipsis or i == ():
            # out[...] = value : every entry (a 0-dimensional array: the entry)
            self._narrowing(v)
            if isinstance(self.data, list):
                raise AnalysisError('a store into a whole multi-dimensional array has no model in the symbolic domain')
            self.data = v.data if isinstance(v, SymArray) else v
            return
        idx = i if isinstance(i, tuple) else (i,)
        d = self.data
        for k in idx[:-1]:
            self._check(d, k)
            d = d[k]
        self._check(d, idx[-1])
        self._narrowing(v)
        d[idx[-1]] = v

    def _narrowing(self, v):
        if self.inherits:
            vals = v.tolist() if isinstance(v, SymArray) else v
            for leaf in (sp.flatten(vals) if isinstance(vals, list) else [vals]):
                lf = sp.sympify(leaf)
                if lf.is_integer is not True and not (lf.is_Float and float(lf) == int(lf)):
                    ALLOC_EVENTS.append(f'{self.inherits}: the value {str(leaf)[:60]} is stored into an array that has the dtype of the evaluation point (for integer-valued '
                                        f'points the fractional part is cut off)')
                    break

    def tolist(self):
        def conv(d):
            return [conv(x) for x in d] if isinstance(d, list) else (conv(x.data) if isinstance(x := d, SymArray) else d)
        return conv(self.data)

    def __iter__(self):
        return iter(self[i] for i in range(len(self.data)))

    def __len__(self):
        return len(self.data)

    # ---- the little array arithmetic the derivative assemblies use
    @property
    def shape(self):
        out, d = [], self.data
        while isinstance(d, list):
            out.append(len(d))
            d = d[0] if d else None
        return tuple(out)

    @property
    def ndim(self):
        return len(self.shape)

    @property
    def T(self):
        d = self.tolist()
        if d and isinstance(d[0], list):
            return SymArray([[d[i][j] for i in range(len(d))] for j in range(len(d[0]))])
        return SymArray(d)

    def transpose(self):
        return self.T

    def _ew(self, o, f):
        a = self.tolist()
        b = o.tolist() if isinstance(o, SymArray) else o

        def rec(x, y):
            if isinstance(x, list):
                if isinstance(y, list):
                    if len(x) != len(y):
                        raise Raised('ValueError', 'operands could not be broadcast together')
                    return [rec(p_, q_) for p_, q_ in zip(x, y)]
                return [rec(p_, y) for p_ in x]
            if isinstance(y, list):
                return [rec(x, q_) for q_ in y]
            return f(x, y)
        return SymArray(rec(a, b))

    def __add__(self, o): return self._ew(o, lambda x, y: x + y)
    def __radd__(self, o): return self._ew(o, lambda x, y: y + x)
    def __sub__(self, o): return self._ew(o, lambda x, y: x - y)
    def __rsub__(self, o): return self._ew(o, lambda x, y: y - x)
    def __mul__(self, o): return self._ew(o, lambda x, y: x * y)
    def __rmul__(self, o): return self._ew(o, lambda x, y: y * x)
    def __truediv__(self, o): return self._ew(o, lambda x, y: x / y)
    def __neg__(self): return self._ew(0, lambda x, y: -x)


ALLOC_EVENTS = []
SINGULAR_EVENTS = []


class Poly1d:
    """scipy.special.legendre(n) / poly1d: an uninterpreted function P; deriv(k) its k-th derivative; scalar * poly is a poly"""

    def __init__(self, f, order=0, coeff=sp.Integer(1)):
        self.f, self.order, self.coeff = f, order, coeff

    def deriv(self, m=1):
        return Poly1d(self.f, self.order + int(m), self.coeff)

    derivative = deriv

    def __rmul__(self, c):
        return Poly1d(self.f, self.order, self.coeff * c)

    __mul__ = __rmul__

    def __call__(self, u):
        w = sp.Symbol('_w')
        e = self.f(w)
        if self.order:
            e = sp.Derivative(e, (w, self.order))
            return self.coeff * sp.Subs(e, w, u)
        return self.coeff * self.f(u)


class FakeNp:
    pi = sp.pi
    inf = sp.oo

    def __init__(self, array_mode):
        self.array_mode = array_mode

    sin = staticmethod(sp.sin)
    cos = staticmethod(sp.cos)
    exp = staticmethod(sp.exp)
    sqrt = staticmethod(sp.sqrt)
    tan = staticmethod(sp.tan)
    log = staticmethod(sp.log)
    abs = staticmethod(sp.Abs)
    sinh = staticmethod(sp.sinh)
    cosh = staticmethod(sp.cosh)
    tanh = staticmethod(sp.tanh)
    arctan = staticmethod(sp.atan)
    power = staticmethod(lambda a, b: a ** b)
    square = staticmethod(lambda a: a ** 2)

    def isscalar(self, x):
        return not self.array_mode

    def ndim(self, x):
        # the evaluation point: a vector of coordinates (scalar mode) or a coordinates x points matrix (array mode); scalars have no axes
        if isinstance(x, (list, tuple, SymArray)):
            return 2 if self.array_mode else 1
        return 1 if (self.array_mode and isinstance(x, sp.Basic) and not x.is_number) else 0

    def size(self, x, axis=None):
        # number of entries: of a point the number of coordinates, of a coordinates x points matrix the product (7 points, see C14Domain._len)
        if axis is not None:
            raise AnalysisError('np.size with an axis has no model in the symbolic domain')
        if isinstance(x, (list, tuple)):
            return len(x) * (7 if self.array_mode else 1)
        if isinstance(x, SymArray):
            n = 1
            for k_ in x.shape:
                n *= k_
            return n
        return 7 if (self.array_mode and isinstance(x, sp.Basic) and not x.is_number) else 1

    def ones(self, shape, *a, **k):
        if self.array_mode:
            n = shape[0] if isinstance(shape, (list, tuple)) and shape else shape
            if isinstance(n, int) and n != 7:
                # (7 = the number of evaluation points of the array mode, see C14Domain._len)
                raise Raised('ValueError', f'a vector of {n} ones is built where one value per evaluation point (7 points) is needed: the length was taken from the wrong axis of the point array')
            return sp.Integer(1)       # a vector of ones over the evaluation points == the constant 1 at every point
        return SymArray.zeros(shape)   # not used by the repo in scalar mode

    def zeros(self, shape, *a, **k):
        return SymArray.zeros(shape)

    def _like(self, name, x, dtype=None, **k):
        if k.get('shape') is not None or not isinstance(x, (list, tuple, SymArray, sp.Basic, int, float)):
            raise AnalysisError(f'np.{name} of {type(x).__name__} (or with shape=) has no model in the symbolic domain')
        if isinstance(x, (sp.Basic, int, float)):
            r = SymArray(sp.Integer(0))          # a 0-dimensional array (one coordinate of the point; in array mode: one entry per evaluation point, all alike)
        else:
            shape = SymArray(list(x)).shape if not isinstance(x, SymArray) else x.shape
            r = SymArray.zeros(shape)
        if dtype is None:
            r.inherits = f'np.{name}(<evaluation point>)'
        return r

    def zeros_like(self, x, dtype=None, **k):
        return self._like('zeros_like', x, dtype, **k)

    def empty_like(self, x, dtype=None, **k):
        return self._like('empty_like', x, dtype, **k)

    def array(self, x, *a, **k):
        return SymArray(list(x)) if isinstance(x, (list, tuple)) else x

    def concatenate(self, parts, *a, **k):
        out = []
        for p in parts:
            out.extend(list(p))
        return SymArray(out)

    def asarray(self, x, *a, **k):
        return SymArray(list(x)) if isinstance(x, (list, tuple)) else x

    def stack(self, parts, axis=0, **k):
        if axis != 0:
            raise AnalysisError('np.stack along an axis other than 0 has no model in the symbolic domain')
        return SymArray([p.tolist() if isinstance(p, SymArray) else list(p) for p in parts])

    def diag(self, v, k=0):
        if k != 0:
            raise AnalysisError('np.diag with an offset has no model in the symbolic domain')
        v = v.tolist() if isinstance(v, SymArray) else list(v)
        if v and isinstance(v[0], (list, tuple)):
            return SymArray([v[i][i] for i in range(min(len(v), len(v[0])))])
        n = len(v)
        return SymArray([[v[i] if i == j else sp.Integer(0) for j in range(n)] for i in range(n)])


class C14Domain:
    def __init__(self, array_mode):
        self.array_mode = array_mode
        self.builtins = {'len': self._len}

    def _len(self, x):
        if isinstance(x, sp.Basic):
            if self.array_mode:
                return 7             # number of evaluation points (any positive integer)
            raise TypeError('object of type Symbol has no len()')
        return len(x)

    def truth(self, v):
        if isinstance(v, (sp.logic.boolalg.BooleanTrue,)) or v is sp.true:
            return True
        if v is sp.false:
            return False
        if isinstance(v, sp.core.relational.Relational):
            d = v.lhs - v.rhs
            rel = type(v).__name__
            tests = {'StrictGreaterThan': d.is_positive, 'GreaterThan': d.is_nonnegative, 'StrictLessThan': d.is_negative,
                     'LessThan': d.is_nonpositive, 'Equality': d.is_zero, 'Unequality': (None if d.is_zero is None else not d.is_zero)}
            r = tests.get(rel)
            if r is None:
                raise UnknownTruth(f'guard {v} is not decided by the parameter assumptions')
            return r
        return None

    def compare(self, op, left, right):
        """== / != with a symbolic operand: sympy's == is structural; decide from the parameter assumptions or not at all"""
        import ast as _ast
        if not isinstance(op, (_ast.Eq, _ast.NotEq)) or not (isinstance(left, sp.Basic) or isinstance(right, sp.Basic)):
            return None
        if not all(isinstance(v, (sp.Basic, int, float)) and not isinstance(v, bool) for v in (left, right)):
            return None
        d = sp.sympify(left) - sp.sympify(right)
        z = d.is_zero
        if z is None:
            z = True if sp.simplify(d) == 0 else None
        if z is None:
            from .interp import UnknownBool
            return UnknownBool(f'{left} == {right} is not decided by the parameter assumptions')
        return z if isinstance(op, _ast.Eq) else not z

    def isinstance(self, obj, t):
        return False

    def on_binop(self, op, a, b, node):
        """a negative power of (or a division by) an expression that vanishes at a point of the domain: sympy cancels 0 * x**(-1) to 0, NumPy evaluates it to nan"""
        import ast as _ast
        den = None
        if isinstance(op, _ast.Pow) and isinstance(a, sp.Basic) and not isinstance(b, (SymArray, list)):
            try:
                if sp.sympify(b).is_negative is True:
                    den = a
            except (sp.SympifyError, TypeError):
                pass
        elif isinstance(op, _ast.Div) and isinstance(b, sp.Basic):
            den = b
        if den is None:
            return
        coords = [s_ for s_ in den.free_symbols if s_.name[:1] == 'x' and s_.name[1:].isdigit()]
        if coords and den.is_nonzero is not True and den.is_positive is not True:
            zero_at = sp.solve(den, coords[0], dict=True) if den.is_polynomial(*coords) else None
            if zero_at:
                SINGULAR_EVENTS.append((str(den), f'{coords[0]} = {zero_at[0][coords[0]]}', norm_text(node, 80)))


def make_libs(array_mode):
    np_ = FakeNp(array_mode)
    P = sp.Function('P')
    B = sp.Function('B')

    class Special:
        @staticmethod
        def legendre(n):
            if isinstance(n, (int, sp.Integer)) and not isinstance(n, bool):
                # a concrete degree: the Legendre polynomial itself (a shortcut such as "the second derivative vanishes below degree 2" is then decided, not assumed)
                return Poly1d(lambda u, n_=int(n): sp.legendre(n_, u))
            return Poly1d(P)

    class Interpolate:
        @staticmethod
        def BSpline(t, c, k, *a, **kw):
            return Poly1d(B)

    class Scipy:
        special = Special
        interpolate = Interpolate
    return {'numpy': np_, 'scipy.special': Special, 'scipy.interpolate': Interpolate, 'scipy': Scipy,
            'scipy.linalg': object(), 'time': object(), 'typing': object(), '__future__': object()}


# ------------------------------------------------------------------------------------------------ scenarios
def param_values(cls_name, pname, index):
    """symbolic / concrete constructor arguments, by parameter name (parameters of unknown name get a positive real symbol)"""
    if pname == 'index':
        return [index]
    if pname == 'dimension':
        return [DIM, None]          # None: the dimension is inferred lazily from the first argument a method sees (every method is called on a fresh object)
    if pname in ('exponent',):
        n = sp.Symbol('n', integer=True, nonnegative=True)
        return [0, 1, 2, 3, 5, n + 2]
    if pname in ('degree',) and cls_name != 'Bspline':
        return [0, 1, 2, 3, 4, sp.Symbol('deg', integer=True, nonnegative=True)]
    if pname == 'degree':
        return [2]
    if pname == 'knots':
        return [[sp.Symbol(f'k{i}', real=True) for i in range(4)]]
    if pname == 'coeff':
        return [[sp.Symbol(f'c{i}', real=True) for i in range(5)]]
    if pname in ('variance', 'domain'):
        return [sp.Symbol(pname, positive=True)]
    return [sp.Symbol(pname, real=True)]


def residual_zero(res):
    """True / False / None(undecided)"""
    res = sp.simplify(res)
    if res != 0:
        res = sp.simplify(sp.expand(res.doit()))          # (simplify evaluates the derivatives of concrete polynomials inside Subs but does not combine the result)
    if res == 0:
        return True
    # numeric probe of the DERIVED residual (not of repository code)
    w = sp.Symbol('_w')
    probe = res
    for f, impl in ((sp.Function('P'), lambda u: u ** 5 - 3 * u ** 3 + u), (sp.Function('B'), lambda u: u ** 4 + 2 * u ** 2 - u)):
        probe = probe.replace(f, impl)
    probe = probe.doit()
    syms = sorted(probe.free_symbols, key=lambda s: s.name)
    vals_list = [[sp.Rational(3, 7), sp.Rational(5, 3), sp.Rational(2, 5), sp.Rational(11, 4), sp.Rational(7, 6), sp.Rational(4, 9), sp.Rational(8, 5), sp.Rational(9, 7)],
                 [sp.Rational(5, 4), sp.Rational(2, 3), sp.Rational(9, 5), sp.Rational(1, 4), sp.Rational(13, 6), sp.Rational(7, 9), sp.Rational(3, 5), sp.Rational(6, 7)],
                 [sp.Rational(1, 3), sp.Rational(7, 2), sp.Rational(6, 5), sp.Rational(5, 8), sp.Rational(2, 7), sp.Rational(10, 9), sp.Rational(4, 5), sp.Rational(3, 11)]]
    nonzero = False
    for vals in vals_list:
        sub = {}
        for s, v in zip(syms, itertools.cycle(vals)):
            sub[s] = (sp.Integer(3) if s.is_integer else v)
        try:
            val = sp.N(probe.subs(sub).doit(), 30)
        except Exception:
            return None
        if not val.is_number:
            return None
        if abs(val) > 1e-12:
            nonzero = True
    if nonzero:
        return False
    # all probes vanish to rounding: if the residual only fails to simplify because it carries floating-point literals (coefficients such as
    # (2k+1)/(k+1) evaluated in floats leave terms like 5.9e-16*x), it is zero
    if res.atoms(sp.Float):
        return True
    return None


def check(repo, tier):
    run = Run('C14', tier, repo, 'Source-level symbolic differentiation: __call__, partial, partial2, gradient, hessian of every basis-function class '
              'are interpreted from their AST over sympy expressions; partial*/gradient/hessian are compared with sympy derivatives of the '
              'interpreted __call__ on every path through the direction/exponent guards.')
    run.rule('D1', 'partial(t, d) == d/dt_d __call__(t) and partial2(t, d1, d2) == d2/dt_d1 dt_d2 __call__(t) for every family, every index, every '
             'direction (pair) and every parameter class; this includes: zero in coordinates the function does not depend on')
    run.rule('D2', 'gradient(t)[i] == d/dt_i __call__ and hessian(t)[i][j] == d2/dt_i dt_j __call__ (base-class and overriding implementations)')
    run.rule('D3', '__call__ evaluated on an array of points is built only from element-wise operations of t[index] (the array branch of each '
             '__call__ is interpreted with t[index] standing for the whole array and must give the same expression as the scalar branch)')
    run.bounds = f'dimension {DIM}, all index/direction combinations; exponents/degrees 0..5 and symbolic n+2; other parameters symbolic'
    run.trusted = ['sympy.diff / sympy.simplify', 'models of numpy ufuncs, scipy.special.legendre and scipy.interpolate.BSpline as uninterpreted '
                   'differentiable functions with .deriv/.derivative']
    modname = 'data_driven.transform'
    if modname not in repo.modules:
        raise AnalysisError('module data_driven.transform not found')
    mod = repo.modules[modname]
    tmp = Interp(repo)
    families = []
    for cname in mod.classes:
        cref = tmp.class_ref(modname, cname)
        names = [c.name for c in cref.mro()]
        if 'Function' in names and cname not in ('Function', 'OneCoordinateFunction'):
            families.append(cname)
    run.floor('basis-function families found', len(families), 9)
    x = [sp.Symbol(f'x{i}', real=True) for i in range(DIM)]
    nfam_checked = 0
    indices = range(DIM) if tier == 'thorough' else (1,)
    exempt = []
    for cname in families:
        cref = tmp.class_ref(modname, cname)
        init = cref.find('__init__')
        params = [p for p in init.params if p != 'self']
        for index in indices:
            value_lists = [param_values(cname, p, index) for p in params]
            for combo in itertools.product(*value_lists):
                kwargs = dict(zip(params, combo))
                label = f"{cname}({', '.join(f'{k}={v}' for k, v in kwargs.items() if k not in ('knots', 'coeff') and not (k == 'dimension' and v is not None))})"

                def fresh(array_mode=False):
                    dom = C14Domain(array_mode)
                    it = Interp(repo, libs=make_libs(array_mode), domain=dom)
                    from .core import Fn
                    # a frame is needed for instantiate(): run inside a pseudo call
                    return it

                def call_method(method, *margs, array_mode=False):
                    it = fresh(array_mode)
                    cr = it.class_ref(modname, cname)
                    try:
                        # instantiate + call under a synthetic frame of the class' module
                        from .interp import Frame
                        it.stack.append(Frame(init, mod, {}))
                        inst = it.instantiate(cr, [], dict(kwargs))
                        fn = cr.find(method)
                        if fn is None:
                            raise AnalysisError(f'{cname} has no method {method}')
                        return it.call_fn(fn, list(margs), {}, self_obj=inst)
                    except Raised as r_:
                        if 'cannot be interpreted as an integer' in r_.message and any(isinstance(v, sp.Basic) and v.is_integer and not v.is_number for v in kwargs.values()):
                            # the method loops over / indexes with the integer parameter: only concrete values of it can be interpreted
                            raise SkipSymbolic(f'{label}.{method}: needs a concrete value of the symbolic integer parameter')
                        raise
                    except Fork:
                        if any(isinstance(v, sp.Basic) and v.is_integer and not v.is_number for v in kwargs.values()):
                            raise SkipSymbolic(f'{label}.{method}: guard {it.fork_log[-1][1]} not decided for the symbolic integer parameter')
                        raise AnalysisError(f'{label}.{method}: a guard is not decided by the parameter assumptions: {it.fork_log[-1]}')

                try:
                    check_one(run, repo, cref, cname, label, index, x, call_method)
                    nfam_checked += 1
                except SkipSymbolic as sk:
                    run.note('symbolic-integer parameterisation skipped (the concrete values 0..5 of the same family are decided): ' + str(sk))
    base_class_assembly(run, repo, modname, mod)
    purity(run, repo, modname, mod, families)
    for e in sorted(set(EXEMPT)):
        run.note('exempt: ' + e)
    run.analysed = {'families': families, 'parameterisations_checked': nfam_checked, 'dimension': DIM}
    run.floor('family parameterisations interpreted', nfam_checked, 15)
    controls(run, repo)
    return run


def purity(run, repo, modname, mod, families):
    """D4: evaluation is a pure function of the point.  (a) Layer-1 effect summaries: no method of a basis-function class modifies the array it is given
    (an in-place operation on t[self.index] would change the caller's data and every later evaluation on it).  (b) gradient / hessian return a value of
    their own: evaluating again at another point leaves an earlier result unchanged (no array kept on the instance and handed out repeatedly)."""
    from . import own
    run.rule('D4', 'evaluation is a pure function of the point: no method of a basis-function class modifies its argument (whole-repository effect analysis), and a gradient / '
             'Hessian returned earlier is not changed by a later evaluation at another point (two consecutive calls on one object, results compared)')
    an = own.analyse(repo)
    for (qual, ct), sm in sorted(an.summ.items(), key=lambda kv: kv[0][0]):
        fn = repo.fns[qual]
        if fn.mod != modname or fn.cls is None or fn.cls not in list(families) + ['Function', 'OneCoordinateFunction']:
            continue
        effects = {}
        for path, sites in list(sm.rebinds.items()) + list(sm.bufwrites.items()):
            root = path.split('.')[0].rstrip('[]')
            if root in fn.params and root != 'self':
                effects.setdefault(root, set()).update(sites)
        run.oblige('D4', (qual, 'arguments'), not effects)
        for root, sites in effects.items():
            s0 = sorted(sites)[0]
            run.add(Finding('C14', 'D4', fn.where, f'{root} <- {s0[0]}', f'the argument `{root}` is modified in place ({s0[1]}:{s0[2]} {s0[3]}): the caller\'s data changes and later evaluations differ',
                            fn.file, fn.node.lineno))
    # (a') the evaluation point may be a whole array of points (the property quantifies over that), and then t[self.index] is a VIEW of the caller's data:
    # an in-place operator on a name bound to (a subscript of) the argument writes into it.  Small syntactic dataflow over each method body.
    import ast as _ast
    for qual, fn in sorted(repo.fns.items()):
        if fn.mod != modname or fn.cls is None or fn.cls not in list(families) + ['Function', 'OneCoordinateFunction']:
            continue
        views = {p for p in fn.params if p != 'self'}

        def root(e):
            while isinstance(e, (_ast.Subscript, _ast.Attribute)):
                e = e.value
            return e.id if isinstance(e, _ast.Name) else None
        hits = []
        for st in _ast.walk(fn.node):
            if isinstance(st, _ast.Assign) and len(st.targets) == 1 and isinstance(st.targets[0], _ast.Name) and isinstance(st.value, (_ast.Subscript, _ast.Name)) and root(st.value) in views:
                views.add(st.targets[0].id)
        for st in _ast.walk(fn.node):
            if isinstance(st, _ast.AugAssign) and root(st.target) in views:
                hits.append(st)
        run.oblige('D4', (qual, 'in-place on the point'), not hits)
        for st in hits:
            run.add(Finding('C14', 'D4', fn.where, norm_text(st, 100), f'`{norm_text(st, 80)}` operates in place on (a view of) the evaluation point: for an array of points this changes the caller\'s data',
                            fn.file, st.lineno))
    # (b) two consecutive evaluations on one object
    from .interp import Frame
    xs1 = [sp.Symbol(f'x{i}', real=True) for i in range(DIM)]
    xs2 = [sp.Symbol(f'y{i}', real=True) for i in range(DIM)]
    for cname in families:
        it = Interp(repo, libs=make_libs(False), domain=C14Domain(False))
        cr = it.class_ref(modname, cname)
        init = cr.find('__init__')
        params = [p for p in init.params if p != 'self']
        kwargs = {p: param_values(cname, p, 1)[0] for p in params}
        if 'exponent' in kwargs:
            kwargs['exponent'] = 3
        if 'degree' in kwargs and cname != 'Bspline':
            kwargs['degree'] = 3
        it.stack.append(Frame(init, mod, {}))
        try:
            inst = it.instantiate(cr, [], dict(kwargs))
        except (Raised, Fork):
            continue
        # (c) the lazily inferred dimension is the number of coordinates whatever the object sees first: evaluated on a whole matrix of points (array mode) and then
        # asked for a gradient at one point, the object answers as a fresh one does
        if 'dimension' in params:
            it2 = Interp(repo, libs=make_libs(False), domain=C14Domain(False))
            cr2 = it2.class_ref(modname, cname)
            it2.stack.append(Frame(init, mod, {}))
            kw2 = dict(kwargs)
            kw2['dimension'] = None
            try:
                inst2 = it2.instantiate(cr2, [], kw2)
                np2 = it2.libs['numpy']
                np2.array_mode = it2.domain.array_mode = True
                it2.call_fn(cr2.find('__call__'), [list(xs1)], {}, self_obj=inst2)
                np2.array_mode = it2.domain.array_mode = False
                dim_seen = inst2._attrs.get('dimension')
                ok = dim_seen is None or dim_seen == DIM
                run.oblige('D4', (cname, 'dimension after an array call'), ok)
                if not ok:
                    fnc = cr2.find('check_call_input') or cr2.find('__call__')
                    run.add(Finding('C14', 'D4', f'{modname}::{fnc.cls}.{fnc.name}', 'lazily inferred dimension', f'{cname}: after a first evaluation on a coordinates x points matrix ({DIM} x 7) the object '
                                    f'believes its dimension is {dim_seen} (the number of coordinates is {DIM}): later derivatives at a single point raise or have the wrong length', fnc.file, fnc.node.lineno))
            except (Raised, Fork, AnalysisError):
                pass            # (families whose __call__ cannot be interpreted in array mode are decided by D3)
        for meth in ('gradient', 'hessian'):
            fn = cr.find(meth)
            if fn is None:
                continue
            try:
                r1 = it.call_fn(fn, [list(xs1)], {}, self_obj=inst)
                snap = sp.sympify(r1.tolist()) if isinstance(r1, SymArray) else None
                r2 = it.call_fn(fn, [list(xs2)], {}, self_obj=inst)
            except (Raised, Fork):
                continue            # (NotImplementedError members, undecided guards: D1/D2 deal with those)
            if snap is None:
                continue
            after = sp.sympify(r1.tolist())
            same_obj = r1 is r2 or (isinstance(r2, SymArray) and r2.data is r1.data)
            ok = (after == snap) and not same_obj
            run.oblige('D4', (cname, meth, 'fresh result'), ok)
            if not ok:
                run.add(Finding('C14', 'D4', f'{modname}::{cname}.{meth}', f'{meth} returns instance state', f'{cname}.{meth}: the array returned for the first point '
                                f'{"is the same object as" if same_obj else "was changed by"} the evaluation at a second point (it is kept on the instance and handed out again)', fn.file, fn.node.lineno))


def base_class_assembly(run, repo, modname, mod):
    """D2 for the base class: Function.gradient / Function.hessian, which a user-defined (multi-coordinate) function inherits, assemble the partial
    derivatives of THAT function: gradient(t)[i] = partial(t, i), hessian(t)[i][j] = partial2(t, i, j).  The base class is instantiated and given
    symbolic partial / partial2 (a symmetric Hessian, as for any twice differentiable function)."""
    from .interp import Frame
    if 'Function' not in mod.classes:
        return
    for dim in (2, 3):
        for explicit in (True, False):
            it = Interp(repo, libs=make_libs(False), domain=C14Domain(False))
            cr = it.class_ref(modname, 'Function')
            init = cr.find('__init__')
            it.stack.append(Frame(init, mod, {}))
            label = f'Function(dimension={dim if explicit else None}) with user-defined partial derivatives'
            try:
                inst = it.instantiate(cr, [], {'dimension': dim} if explicit else {})
                inst._attrs['partial'] = lambda t, d_: sp.Symbol(f'p{d_}')
                inst._attrs['partial2'] = lambda t, i_, j_: sp.Symbol(f'h{min(i_, j_)}{max(i_, j_)}')
                xs = [sp.Symbol(f'x{i}', real=True) for i in range(dim)]
                res = {}
                for meth in ('gradient', 'hessian'):
                    fn = cr.find(meth)
                    if fn is None:
                        continue
                    if not explicit:
                        # lazy dimension: the checks run inside partial / partial2 of a real subclass; emulate their effect
                        inst._attrs['dimension'] = dim
                        inst._attrs['initialized'] = True
                    res[meth] = it.call_fn(fn, [list(xs)], {}, self_obj=inst)
            except Raised as r:
                fn = cr.find('hessian') or init
                run.oblige('D2', (label, 'raises'), False)
                run.add(Finding('C14', 'D2', f'{modname}::Function.{getattr(r.fn, "name", "?")}', 'base-class assembly', f'{label}: raises {r}', fn.file, fn.node.lineno))
                continue
            except Fork:
                raise AnalysisError(f'{label}: a guard is not decided')
            for meth, val in res.items():
                fn = cr.find(meth)
                val = val.tolist() if isinstance(val, SymArray) else val
                bad = []
                if meth == 'gradient':
                    if not (isinstance(val, list) and len(val) == dim):
                        bad.append(f'gradient has length {len(val) if isinstance(val, list) else "?"} for dimension {dim}')
                    else:
                        bad += [f'gradient[{i}] = {val[i]} instead of partial(t, {i})' for i in range(dim) if sp.simplify(sp.sympify(val[i]) - sp.Symbol(f'p{i}')) != 0]
                else:
                    if not (isinstance(val, list) and len(val) == dim and all(isinstance(r_, list) and len(r_) == dim for r_ in val)):
                        bad.append(f'hessian is not a {dim} x {dim} array')
                    else:
                        bad += [f'hessian[{i}][{j}] = {val[i][j]} instead of partial2(t, {i}, {j})' for i in range(dim) for j in range(dim)
                                if sp.simplify(sp.sympify(val[i][j]) - sp.Symbol(f'h{min(i, j)}{max(i, j)}')) != 0]
                run.oblige('D2', (label, meth), not bad)
                if bad:
                    run.add(Finding('C14', 'D2', f'{modname}::Function.{meth}', f'Function.{meth} (base class)', f'{label}: ' + '; '.join(bad[:3]), fn.file, fn.node.lineno))


class SkipSymbolic(Exception):
    pass


EXEMPT = []


def check_one(run, repo, cref, cname, label, index, x, call_method):
    modname = 'data_driven.transform'
    exempt = EXEMPT
    call_method_ = call_method

    sing_call = set()

    def call_method(method, *a, **k):
        ALLOC_EVENTS.clear()
        SINGULAR_EVENTS.clear()
        try:
            return call_method_(method, *a, **k)
        finally:
            if method == '__call__':
                sing_call.update(e_[:2] for e_ in SINGULAR_EVENTS)
            else:
                # the derivative is defined wherever the function is: no division by (negative power of) a quantity that vanishes at a point where __call__ is regular
                new = [e_ for e_ in SINGULAR_EVENTS if e_[:2] not in sing_call]
                if new and not k.get('array_mode'):
                    fn = cref.find(method)
                    run.oblige('D1', (label, method, 'defined everywhere'), False)
                    run.add(Finding('C14', 'D1', f'{fn.mod}::{fn.cls}.{method}', 'derivative undefined at a regular point', f'{label}.{method}: `{new[0][2]}` divides by {new[0][0]}, which vanishes at '
                                    f'{new[0][1]} -- a point where __call__ is regular: the derivative evaluates to nan (or raises) there even where the symbolic value is finite', fn.file, fn.node.lineno))
            SINGULAR_EVENTS.clear()
            if ALLOC_EVENTS:
                fn = cref.find(method)
                run.oblige('D2', (label, method, 'dtype of the result'), False)
                run.add(Finding('C14', 'D2', f'{fn.mod}::{fn.cls}.{method}', 'result allocated in the dtype of the point', f'{label}.{method}: {ALLOC_EVENTS[0]}', fn.file, fn.node.lineno))
                ALLOC_EVENTS.clear()
    if True:
        if True:
            if True:
                try:
                    f = call_method('__call__', list(x))
                except Raised as r:
                    if r.exc_type in ('TypeError',) and cname == 'IndicatorFunction':
                        exempt.append(f'{cname}.__call__ (comparison-valued; not differentiable, partial raises NotImplementedError)')
                        return
                    raise AnalysisError(f'{label}.__call__ raised {r}')
                f = sp.sympify(f)
                if isinstance(f, (sp.logic.boolalg.BooleanFunction, sp.core.relational.Relational, sp.logic.boolalg.BooleanAtom)):
                    # a truth value is not a function value: arithmetic on boolean arrays is logical (True + True = True), so sums of such evaluations saturate
                    fn = cref.find('__call__')
                    run.oblige('D1', (label, '__call__ is numeric'), False)
                    run.add(Finding('C14', 'D1', f'{modname}::{cname}.__call__', f'{cname} returns a truth value', f'{label}: __call__ returns the comparison {f} itself, not the number 0 / 1: on '
                                    f'arrays of points this is a boolean array, and products / sums of such evaluations (Gram matrices) are logical operations', fn.file, fn.node.lineno))
                    return
                # D3: array branch gives the same expression
                try:
                    fa = sp.sympify(call_method('__call__', list(x), array_mode=True))
                    ok = sp.simplify(fa - f) == 0
                    run.oblige('D3', (label, '__call__ array branch'), ok, sample=None)
                    if not ok:
                        fn = cref.find('__call__')
                        run.add(Finding('C14', 'D3', f'{modname}::{cname}.__call__', f'{cname} array branch', f'{label}: evaluation on an array of points gives '
                                        f'{fa} but point-wise evaluation gives {f}', fn.file, fn.node.lineno))
                except Raised as r:
                    if 'one value per evaluation point' in r.message:
                        fn = cref.find('__call__')
                        run.oblige('D3', (label, '__call__ array branch'), False)
                        run.add(Finding('C14', 'D3', f'{modname}::{cname}.__call__', f'{cname} array branch', f'{label}: evaluation on an array of points: {r.message}', fn.file, fn.node.lineno))
                    else:
                        raise AnalysisError(f'{label}.__call__ (array mode) raised {r}')
                # D1: partial / partial2
                for d in range(DIM):
                    try:
                        p = sp.sympify(call_method('partial', list(x), d))
                    except Raised as r:
                        if r.exc_type == 'NotImplementedError':
                            exempt.append(f'{cname}.partial (NotImplementedError)')
                            break
                        fnp = cref.find('partial')
                        run.oblige('D1', (label, f'partial d={d}', 'raises'), False)
                        run.add(Finding('C14', 'D1', f'{(r.fn or fnp).mod}::{(r.fn or fnp).cls}.{(r.fn or fnp).name}', f'{cname}.partial raises {r.exc_type}', f'{label}.partial(t, {d}) raises {r.exc_type}: {r.message}', (r.fn or fnp).file, getattr(r.node, 'lineno', None)))
                        break
                    want = sp.diff(f, x[d])
                    z = residual_zero(p - want)
                    if z is None:
                        raise AnalysisError(f'{label}.partial(direction={d}): residual {sp.simplify(p - want)} neither simplifies to 0 nor is numerically non-zero')
                    run.oblige('D1', (label, f'partial d={d}'), z, nontrivial=(d == index),
                               sample={'family': label, 'method': 'partial', 'direction': d, 'call': str(f), 'returned': str(p), 'd/dx': str(want), 'verdict': 'held' if z else 'VIOLATED'} if d == index and len(run.samples) < 8 else None)
                    if not z:
                        fn = cref.find('partial')
                        run.add(Finding('C14', 'D1', f'{fn.mod}::{fn.cls}.partial', f'{cname} direction {"==" if d == index else "!="} index',
                                        f'{label}.partial(t, {d}) returns {p} but d/dt_{d} of __call__ = {f} is {want}', fn.file, fn.node.lineno))
                for d1 in range(DIM):
                    stop = False
                    for d2 in range(DIM):
                        try:
                            p = sp.sympify(call_method('partial2', list(x), d1, d2))
                        except Raised as r:
                            if r.exc_type == 'NotImplementedError':
                                exempt.append(f'{cname}.partial2 (NotImplementedError)')
                                stop = True
                                break
                            fnp = cref.find('partial2')
                            run.oblige('D1', (label, f'partial2 d={d1},{d2}', 'raises'), False)
                            run.add(Finding('C14', 'D1', f'{(r.fn or fnp).mod}::{(r.fn or fnp).cls}.{(r.fn or fnp).name}', f'{cname}.partial2 raises {r.exc_type}', f'{label}.partial2(t, {d1}, {d2}) raises {r.exc_type}: {r.message}', (r.fn or fnp).file, getattr(r.node, 'lineno', None)))
                            stop = True
                            break
                        want = sp.diff(f, x[d1], x[d2])
                        z = residual_zero(p - want)
                        if z is None:
                            raise AnalysisError(f'{label}.partial2({d1},{d2}): residual {sp.simplify(p - want)} undecided')
                        run.oblige('D1', (label, f'partial2 d={d1},{d2}'), z, nontrivial=(d1 == index and d2 == index),
                                   sample={'family': label, 'method': 'partial2', 'directions': [d1, d2], 'returned': str(p), 'd2/dx2': str(want), 'verdict': 'held' if z else 'VIOLATED'} if d1 == d2 == index and len(run.samples) < 12 else None)
                        if not z:
                            fn = cref.find('partial2')
                            run.add(Finding('C14', 'D1', f'{fn.mod}::{fn.cls}.partial2', f'{cname} directions {"==" if d1 == d2 == index else "!="} index',
                                            f'{label}.partial2(t, {d1}, {d2}) returns {p} but the second derivative of __call__ = {f} is {want}', fn.file, fn.node.lineno))
                    if stop:
                        break
                # D2: gradient / hessian
                for meth, want in (('gradient', [sp.diff(f, xi) for xi in x]), ('hessian', [[sp.diff(f, xi, xj) for xj in x] for xi in x])):
                    try:
                        g = call_method(meth, list(x))
                    except Raised as r:
                        if r.exc_type == 'NotImplementedError':
                            exempt.append(f'{cname}.{meth} (NotImplementedError)')
                            continue
                        fnp = cref.find(meth)
                        run.oblige('D2', (label, meth, 'raises'), False)
                        run.add(Finding('C14', 'D2', f'{(r.fn or fnp).mod}::{(r.fn or fnp).cls}.{(r.fn or fnp).name}', f'{cname}.{meth} raises {r.exc_type}', f'{label}.{meth}(t) raises {r.exc_type}: {r.message} (first method called on a fresh object)', (r.fn or fnp).file, getattr(r.node, 'lineno', None)))
                        continue
                    got = g.tolist() if isinstance(g, SymArray) else g
                    flat_g = list(itertools.chain.from_iterable(got)) if meth == 'hessian' else list(got)
                    flat_w = list(itertools.chain.from_iterable(want)) if meth == 'hessian' else list(want)
                    ok = len(flat_g) == len(flat_w)
                    if ok:
                        for a, b in zip(flat_g, flat_w):
                            z = residual_zero(sp.sympify(a) - b)
                            if z is None:
                                raise AnalysisError(f'{label}.{meth}: residual undecided')
                            ok = ok and z
                    run.oblige('D2', (label, meth), ok)
                    if not ok:
                        fn = cref.find(meth)
                        run.add(Finding('C14', 'D2', f'{fn.mod}::{fn.cls}.{meth}', f'{cname}.{meth}', f'{label}.{meth}(t) returns {got} but the derivatives of '
                                        f'__call__ = {f} are {want}', fn.file, fn.node.lineno))


def controls(run, repo):
    """positive controls: the residual test must fire on a wrong derivative and stay silent on a right one"""
    xs = sp.Symbol('x', real=True)
    a = sp.Symbol('alpha', real=True)
    run.control('D1 residual: d/dx sin(a x) vs cos(a x) (missing inner derivative) is flagged', residual_zero(sp.cos(a * xs) - sp.diff(sp.sin(a * xs), xs)) is False)
    run.control('D1 residual: d/dx sin(a x) vs a cos(a x) is accepted', residual_zero(a * sp.cos(a * xs) - sp.diff(sp.sin(a * xs), xs)) is True)
    P = sp.Function('P')
    w = sp.Symbol('_w')
    dom = sp.Symbol('domain', positive=True)
    wrong = sp.Subs(sp.Derivative(P(w), w), w, xs / dom)          # forgot the 1/domain factor
    run.control('D1 residual on an uninterpreted polynomial: missing chain-rule factor is flagged', residual_zero(wrong - sp.diff(P(xs / dom), xs)) is False)
