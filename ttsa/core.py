"""Loader, finding/report/evidence plumbing shared by all analysers.

Nothing from the analysed repository is imported or executed: sources are read and parsed with `ast`.
"""
import ast
import glob
import hashlib
import json
import os
import re
import sys
import time

VERIF = os.path.dirname(os.path.dirname(os.path.abspath(__file__)))
# development-time runs against scratch copies (seeded/run.sh) write their evidence elsewhere so that the committed evidence of the real tree is not overwritten
EVIDENCE_DIR = os.environ.get("TTSA_EVIDENCE_DIR") or os.path.join(VERIF, "evidence")
REPO = os.environ.get('TTSA_REPO', '/repo')
PKG = 'scikit_tt'


class AnalysisError(Exception):
    """The analysis could not be carried out (vanished anchor, unsupported construct, floor not met).
    Turned into exit code 2 -- never into a pass and never into a VIOLATION."""


# --------------------------------------------------------------------------------------------- repository
class Fn:
    __slots__ = ('mod', 'cls', 'node', 'file', 'name')

    def __init__(self, mod, cls, node, file):
        self.mod, self.cls, self.node, self.file, self.name = mod, cls, node, file, node.name

    @property
    def qual(self):
        return f"{self.mod}.{(self.cls + '.') if self.cls else ''}{self.name}"

    @property
    def where(self):
        return f"{self.mod}::{(self.cls + '.') if self.cls else ''}{self.name}"

    @property
    def params(self):
        a = self.node.args
        return [x.arg for x in a.posonlyargs + a.args + a.kwonlyargs]

    @property
    def public(self):
        n = self.name
        if n.startswith('__') and n.endswith('__'):
            return n in ('__add__', '__sub__', '__mul__', '__rmul__', '__matmul__', '__init__')
        return not n.startswith('_')

    def defaults(self):
        """param name -> default AST node"""
        a = self.node.args
        pos = a.posonlyargs + a.args
        out = {}
        for p, d in zip(pos[len(pos) - len(a.defaults):], a.defaults):
            out[p.arg] = d
        for p, d in zip(a.kwonlyargs, a.kw_defaults):
            if d is not None:
                out[p.arg] = d
        return out


class Module:
    def __init__(self, name, file, src, tree):
        self.name, self.file, self.src, self.tree = name, file, src, tree
        self.lines = src.split('\n')
        self.imports = {}      # local alias -> dotted target ('numpy', 'scikit_tt.tensor_train', 'scikit_tt.solvers.sle.__construct_stack_left_op')
        self.functions = {}    # name -> Fn (module level)
        self.classes = {}      # name -> {method name -> Fn}
        self.class_bases = {}  # name -> [base names]
        self.class_nodes = {}


class Repo:
    def __init__(self, root=None):
        self.root = root or REPO
        self.pkgdir = os.path.join(self.root, PKG)
        if not os.path.isdir(self.pkgdir):
            raise AnalysisError(f'package directory {self.pkgdir} not found')
        self.modules = {}
        files = sorted(glob.glob(os.path.join(self.pkgdir, '**', '*.py'), recursive=True))
        if not files:
            raise AnalysisError('no python sources found')
        h = hashlib.sha256()
        for f in files:
            src = open(f, encoding='utf-8').read()
            h.update(f[len(self.root):].encode()); h.update(src.encode())
            if not src.strip():
                continue
            rel = os.path.relpath(f, self.pkgdir)[:-3].replace(os.sep, '.')
            if rel.endswith('__init__'):
                rel = rel[:-9] or '__init__'
            try:
                tree = ast.parse(src, filename=f)
            except SyntaxError as e:
                raise AnalysisError(f'{f} does not parse: {e}')
            m = Module(rel, f, src, tree)
            self._index(m)
            self.modules[rel] = m
        self.digest = h.hexdigest()[:16]
        self.fns = {}
        for m in self.modules.values():
            for fn in m.functions.values():
                self.fns[fn.qual] = fn
            for c, ms in m.classes.items():
                for fn in ms.values():
                    self.fns[fn.qual] = fn

    def _index(self, m):
        for n in m.tree.body:
            if isinstance(n, ast.Import):
                for a in n.names:
                    m.imports[a.asname or a.name.split('.')[0]] = a.name if a.asname else a.name.split('.')[0]
            elif isinstance(n, ast.ImportFrom):
                for a in n.names:
                    m.imports[a.asname or a.name] = f'{n.module}.{a.name}'
            elif isinstance(n, ast.FunctionDef):
                m.functions[n.name] = Fn(m.name, None, n, m.file)
            elif isinstance(n, ast.ClassDef):
                m.classes[n.name] = {x.name: Fn(m.name, n.name, x, m.file) for x in n.body if isinstance(x, ast.FunctionDef)}
                m.class_bases[n.name] = [ast.unparse(b) for b in n.bases]
                m.class_nodes[n.name] = n

    # ------------------------------------------------------------------ lookups
    def fn(self, qual):
        """anchor lookup: a vanished anchor is an analysis error"""
        if qual not in self.fns:
            raise AnalysisError(f'anchor function {qual} not found in {self.root} (renamed or removed?)')
        return self.fns[qual]

    def module_of_alias(self, m, alias):
        """resolve a local name of module m that denotes a repo module -> module name or None"""
        t = m.imports.get(alias)
        if t and t.startswith(PKG + '.'):
            rest = t[len(PKG) + 1:]
            if rest in self.modules:
                return rest
        return None

    def resolve_name(self, m, name):
        """resolve a bare name used in module m to a repo function / class: ('fn', Fn) | ('class', mod, cls) | None"""
        if name in m.functions:
            return ('fn', m.functions[name])
        if name in m.classes:
            return ('class', m.name, name)
        t = m.imports.get(name)
        if t and t.startswith(PKG + '.'):
            rest = t[len(PKG) + 1:]
            modname, _, obj = rest.rpartition('.')
            if modname in self.modules:
                mm = self.modules[modname]
                if obj in mm.functions:
                    return ('fn', mm.functions[obj])
                if obj in mm.classes:
                    return ('class', modname, obj)
        return None

    def all_functions(self):
        return list(self.fns.values())

    def relfile(self, f):
        return os.path.relpath(f, self.root)


def norm_text(node_or_str, limit=160):
    s = node_or_str if isinstance(node_or_str, str) else ast.unparse(node_or_str)
    s = re.sub(r'\s+', ' ', s).strip()
    return s[:limit]


# --------------------------------------------------------------------------------------------- findings
class Finding:
    def __init__(self, prop, rule, where, construct, message, file=None, line=None, detail=None):
        self.prop, self.rule, self.where = prop, rule, where
        self.construct = norm_text(construct)
        self.message, self.file, self.line, self.detail = message, file, line, detail or {}

    @property
    def key(self):
        return (self.prop, self.rule, self.where, self.construct)

    @property
    def slug(self):
        h = hashlib.sha1('|'.join(self.key).encode()).hexdigest()[:10]
        w = re.sub(r'[^A-Za-z0-9]+', '_', self.where).strip('_')
        return f'{self.prop}_{self.rule}_{w}_{h}'

    def to_json(self):
        return {'property': self.prop, 'rule': self.rule, 'where': self.where, 'construct': self.construct,
                'file': self.file, 'line': self.line, 'message': self.message, 'detail': self.detail}


CURRENT_RUN = None


def load_known():
    p = os.path.join(VERIF, 'known_findings.json')
    if not os.path.exists(p):
        return []
    return json.load(open(p))


class Run:
    """One run of one property's check: collects obligations, findings, samples; writes evidence; decides exit."""

    def __init__(self, prop, tier, repo, title=''):
        self.prop, self.tier, self.repo, self.title = prop, tier, repo, title
        self.t0 = time.time()
        self.seed = int(os.environ.get('VERIF_SEED', '0') or 0)
        self.obligations = 0
        self.discharged = 0
        self.evaluations = 0
        self.nontrivial = set()
        self.findings = {}
        self.samples = []
        self.notes = []
        self.rules = []
        self.analysed = {}
        self.trusted = []
        self.assumptions = []
        self.bounds = ''
        self.floors = []
        self.controls = []
        global CURRENT_RUN
        CURRENT_RUN = self

    # ---- bookkeeping
    def rule(self, name, text):
        self.rules.append({'rule': name, 'text': text})

    def oblige(self, rule, subject, ok, nontrivial=True, sample=None):
        """record one obligation (rule instance x construct/scenario) and its verdict"""
        self.obligations += 1
        self.evaluations += 1
        if ok:
            self.discharged += 1
        if nontrivial:
            self.nontrivial.add((rule, subject))
        if sample is not None and len(self.samples) < 14:
            self.samples.append(sample)

    def add(self, finding):
        old = self.findings.setdefault(finding.key, finding)
        if old is not finding and isinstance(finding.detail, dict) and finding.detail.get('instances'):
            # the same construct fails in several scenarios / paths: collect the instances (they decide whether a listed known finding covers it)
            if not isinstance(old.detail, dict):
                old.detail = {}
            inst = old.detail.setdefault('instances', [])
            for i in finding.detail['instances']:
                if i not in inst:
                    inst.append(i)

    def note(self, s):
        if s not in self.notes:
            self.notes.append(s)

    def floor(self, what, found, minimum):
        """a rule that matches fewer instances than were confirmed by hand is an analysis error, not a pass"""
        self.floors.append({'what': what, 'found': found, 'floor': minimum})
        if found < minimum and not self.findings:
            # (with findings present the scenarios were cut short by the violations themselves: the violations are the verdict)
            raise AnalysisError(f'instance floor not met: {what}: found {found} < {minimum} (rule would pass vacuously)')

    def control(self, name, flagged):
        self.controls.append({'control': name, 'flagged': bool(flagged)})
        if not flagged:
            raise AnalysisError(f'positive control {name} was NOT flagged by its rule: the checker is broken')

    # ---- finish
    def finish(self):
        known = load_known()
        kn = {}
        for k in known:
            if k.get('status') == 'known':
                kn[(k['property'], k['rule'], k['where'], norm_text(k['construct']))] = k
        new, listed = [], []
        for key, f in sorted(self.findings.items()):
            if key in kn and kn[key].get('instances') is not None:
                # a known finding that enumerates the failing instances (paths, scenarios) covers exactly those: any other failing instance of the same
                # construct is a new violation
                have = (f.detail or {}).get('instances', []) if isinstance(f.detail, dict) else []
                extra = sorted(set(have) - set(kn[key]['instances']))
                if extra or not have:
                    f.message = (f'{len(extra)} failing instance(s) not covered by the recorded known finding, e.g. {extra[:3]}; ' if extra else 'instances not enumerated; ') + f.message
                    new.append(f)
                    continue
            (listed if key in kn else new).append(f)
        fdir = os.path.join(EVIDENCE_DIR, 'findings')
        os.makedirs(fdir, exist_ok=True)
        for f in listed:
            print(f"KNOWN-FINDING: property={self.prop} {kn[f.key].get('what', f.message)}")
        lines = []
        for i, f in enumerate(new):
            path = os.path.join(fdir, f.slug + '.json')
            with open(path, 'w') as fh:
                json.dump(f.to_json(), fh, indent=1, default=str)
            loc = f"{self.repo.relfile(f.file) if f.file else '?'}:{f.line}"
            if i < 12:
                print(f"  [{f.rule}] {loc} {f.where}: {f.message[:420]}\n      construct: {f.construct}")
            elif i == 12:
                print(f"  ... {len(new) - 12} more finding(s), see the replay files")
            lines.append(f"VIOLATION property={self.prop} replay={path}")
        wall = time.time() - self.t0
        ev = {
            'property_id': self.prop, 'tier': self.tier, 'seed': self.seed, 'level': 'other',
            'coverage': {
                'explanation': self.title + ' Rules applied: ' + ' | '.join(f"{r['rule']}: {r['text']}" for r in self.rules)
                               + (' Bounds: ' + self.bounds if self.bounds else ''),
                'evaluations': self.evaluations,
                'distinct_nontrivial': len(self.nontrivial),
                'rule': 'one evaluation = one rule instance decided on one construct/scenario; non-trivial = the instance involved at least one '
                        'repository construct (call site, store, contraction, branch) rather than a boundary/empty case; distinct by (rule, subject)',
                'obligations': self.obligations, 'discharged': self.discharged,
                'samples': self.samples[:14] or [{'note': 'no obligations'}],
                'rules': self.rules, 'analysed': self.analysed, 'instance_floors': self.floors, 'positive_controls': self.controls,
                'trusted_base': self.trusted, 'notes': self.notes[:60],
                'source_digest': self.repo.digest, 'repo_root': self.repo.root,
                'checker_cmd': f'./check {self.prop} --tier {self.tier}',
                'findings_new': [f.to_json() for f in new][:40], 'findings_known': [f.to_json() for f in listed][:40],
            },
            'assumptions': self.assumptions,
            'wall_s': round(wall, 3),
            'violations': len(new),
        }
        os.makedirs(EVIDENCE_DIR, exist_ok=True)
        with open(os.path.join(EVIDENCE_DIR, f'{self.prop}.json'), 'w') as fh:
            json.dump(ev, fh, indent=1, default=str)
        print(f"{self.prop} [{self.tier}] obligations={self.obligations} discharged={self.discharged} "
              f"distinct_nontrivial={len(self.nontrivial)} new_findings={len(new)} known={len(listed)} wall={wall:.2f}s")
        for l in lines:
            print(l)
        return 1 if new else 0


def write_error_evidence(prop, tier, msg):
    """evidence for an analysis error: says so plainly (the run is exit 2)"""
    ev = {'property_id': prop, 'tier': tier, 'seed': int(os.environ.get('VERIF_SEED', '0') or 0), 'level': 'other',
          'coverage': {'explanation': 'ANALYSIS-ERROR: ' + msg, 'evaluations': 0, 'distinct_nontrivial': 0, 'samples': [{'error': msg}]},
          'wall_s': 0.0, 'violations': 0}
    os.makedirs(EVIDENCE_DIR, exist_ok=True)
    with open(os.path.join(EVIDENCE_DIR, f'{prop}.json'), 'w') as fh:
        json.dump(ev, fh, indent=1)
