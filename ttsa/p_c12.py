"""C12  Markov operators from reactions / transitions (DESIGN.md 3/C12): SLIM block layout and elementary terms, homogeneous wrapper, Ulam counting cores.
slim.py and data_driven/ulam.py interpreted over the Layer-2 array domain."""
import itertools
import math

from . import arr as A
from . import blocks, l2, l2rules
from .arr import Arr, SymIdx, SymOff
from .core import AnalysisError, Finding, Run, norm_text
from .opalg import Op, ketbra
from .shape import Size, simp, sz_eq

SLIM = 'slim'
ULAM = 'data_driven.ulam'

SCR = [[0, 1, 1.5], [1, 0, 2.5]]                       # [reactant, product, rate]
TCR = [[0, 1, 1, 0, 3.5], [1, 1, 0, 1, 0.25]]          # [reactant_1, product_1, reactant_2, product_2, rate]


def expected_single(reactions):
    op = Op()
    for r, p, rate in reactions:
        op = op + (ketbra(p, r) - ketbra(r, r)).scale(rate)
    return op


def expected_double(reactions):
    op = Op()
    for r1, p1, r2, p2, rate in reactions:
        op = op + (ketbra(p1, r1).outer(ketbra(p2, r2)) - ketbra(r1, r1).outer(ketbra(r2, r2))).scale(rate)
    return op


def classify(v):
    """symbol of a stored block: 'I' | ('S', site-dimension) | ('L', svd uid) | ('M', svd uid) | None"""
    # a block may be given extra unit axes ( m[:, :, np.newaxis] ): look at the array itself
    seen = 0
    while isinstance(v, Arr) and v.origin == 'getitem' and 'sel_of' in v.tags and all(s_ == ('all',) for s_ in v.tags['sel_of'][1]) and seen < 4:
        v = v.tags['sel_of'][0]
        seen += 1
    if not isinstance(v, Arr):
        if v == 0:
            return 'zero'
        return None
    if v.tags.get('const') == 'eye':
        return 'I'
    if v.origin == 'tensordot' and v.tags.get('contract_axes') == ((), ()) and 'factors' in v.tags:
        # outer product with an identity (np.multiply.outer(B, eye(r)) / np.tensordot(B, eye(r), 0)): the block-diagonal arrangement of r copies of B
        x_, y_ = v.tags['factors']
        for e_, b_ in ((x_, y_), (y_, x_)):
            if isinstance(e_, Arr) and e_.tags.get('const') == 'eye' and isinstance(b_, Arr) and b_.ndim == 2:
                return classify(b_)
    es = v.tags.get('einsum')
    if es:
        # einsum('kl,ij->kijl', eye(r), B): the block-diagonal arrangement of r copies of B (same as the loop  core[a+j, :, :, b+j] = B)
        pat, ops = es
        ins, out = pat.split('->')
        ins = ins.split(',')
        if len(ops) == 2 and len(set(pat.replace(',', '').replace('->', ''))) == 4 and len(out) == 4:
            for e_, b_ in ((0, 1), (1, 0)):
                if isinstance(ops[e_], Arr) and ops[e_].tags.get('const') == 'eye' and len(ins[e_]) == 2 and len(ins[b_]) == 2 and \
                        out[0] == ins[e_][0] and out[3] == ins[e_][1] and out[1:3] == ins[b_]:
                    return classify(ops[b_])
    anc = A.ancestors([v])
    roles = {}
    for a in anc.values():
        p = a.tags.get('prov')
        if isinstance(p, dict) and 'svd' in p:
            roles.setdefault(p['svd'], set()).add(p['role'])
    if len(roles) == 1:
        (uid, rs), = roles.items()
        if 'u' in rs and 'v' not in rs:
            return ('L', uid)
        if 'v' in rs and 'u' not in rs:
            return ('M', uid)
        return None
    if not roles and v.ndim == 2 and opalg_of(v) is not None:
        return ('S', str(v.shape[0]))
    return None


def opalg_of(v):
    """elementary-operator normal form of an array; an untouched np.zeros array is the zero operator (empty reaction list)"""
    seen = 0
    while isinstance(v, Arr) and v.origin == 'getitem' and 'sel_of' in v.tags and all(s_ == ('all',) for s_ in v.tags['sel_of'][1]) and seen < 4:
        v = v.tags['sel_of'][0]
        seen += 1
    if not isinstance(v, Arr):
        return None
    if 'opalg' in v.tags:
        return v.tags['opalg']
    if v.tags.get('const') == 'zeros' and not v.tags.get('stores'):
        return Op()
    return None


def seg(root, sel_axis, n):
    """(lo, hi, diag_base) of one axis selection"""
    if sel_axis[0] == 'all':
        return (0, n, None)
    if sel_axis[0] == 'range':
        return (sel_axis[1], sel_axis[2], None)
    if sel_axis[0] == 'int':
        i = sel_axis[1]
        if isinstance(i, (SymIdx, SymOff)):
            base = i if isinstance(i, SymIdx) else i.base
            off = 0 if isinstance(i, SymIdx) else i.off
            return (simp(Size.of(base.lo, A.CTX.atoms) + off), simp(Size.of(base.hi, A.CTX.atoms) + off), base)
        return (i, simp(Size.of(i, A.CTX.atoms) + 1), None)
    return None


def chain_terms(cores):
    """expand the product of block-assembled cores symbolically: returns (set of terms, problems); a term is a tuple of block symbols, one per site"""
    probs = []
    per_core = []
    for k, c in enumerate(cores):
        blks = []
        for st in blocks.effective_stores(c):
            r = seg(c, st['sel'][0], c.shape[0])
            cc = seg(c, st['sel'][3], c.shape[3])
            if r is None or cc is None or st['sel'][1] != ('all',) or st['sel'][2] != ('all',):
                probs.append(f'core {k}: store {st["sel"]} is not a (rank block, full mode, full mode, rank block) store')
                continue
            if (r[2] is None and sz_eq(r[0], r[1])) or (cc[2] is None and sz_eq(cc[0], cc[1])):
                continue            # an empty block (e.g. the cyclic pass-through of an open chain): nothing is stored
            sym = classify(st['value'])
            if sym is None:
                # the provenance of the block is not one the analysis understands: that is no evidence of a defect
                raise AnalysisError(f'core {k}: the block stored at {st["sel"]} is computed in a way the SLIM block classifier does not recognise '
                                    f'(identity, single-site operator sum, left/right SVD factor of a two-site super-core)')
            if sym == 'zero':
                continue
            if (r[2] is None) != (cc[2] is None) or (r[2] is not None and r[2] is not cc[2]):
                probs.append(f'core {k}: store {st["sel"]} mixes a loop index with a fixed position')
                continue
            blks.append(((r[0], r[1]), (cc[0], cc[1]), sym))
        per_core.append(blks)

    def same(a, b):
        return sz_eq(a[0], b[0]) and sz_eq(a[1], b[1])

    def disjoint(a, b):
        return blocks.provably_le(a[1], b[0]) or blocks.provably_le(b[1], a[0])
    terms = set()

    def walk(k, rows, acc):
        if k == len(per_core):
            terms.add(tuple(acc))
            return
        for (r, c, sym) in per_core[k]:
            if same(r, rows):
                walk(k + 1, c, acc + [sym])
            elif not disjoint(r, rows):
                probs.append(f'core {k}: row block [{r[0]}:{r[1]}) neither equals nor is disjoint from the column block [{rows[0]}:{rows[1]}) of core {k - 1}: the block layouts of the two sides of bond {k} do not match')
    walk(0, (0, 1), [])
    # only complete paths ending in the single last column count
    return terms, sorted(set(probs))


def check(repo, tier):
    run = Run('C12', tier, repo, 'slim.py and data_driven/ulam.py are interpreted from source: state-space sizes and interaction ranks symbolic, reaction lists concrete; cores assembled by '
              'block stores are analysed symbolically and multiplied out as block matrices.')
    run.rule('D1', 'SLIM block layout: every store is provably in bounds, blocks are pairwise disjoint, row blocks of core i coincide with column blocks of core i-1, and the '
             'symbolic product of the block cores is exactly  sum_i S_i  +  sum_i L_i M_{i+1}  (+ the cyclic term M_0 I .. I L_{d-1}), L and M of one term stemming from one decomposition')
    run.rule('D2', 'elementary terms: each single-cell reaction contributes rate (|p><r| - |r><r|), each two-cell reaction rate (|p1><r1| (x) |p2><r2| - |r1><r1| (x) |r2><r2|) '
             '(zero column sums, non-negative off-diagonals); the decomposed super-core is that sum')
    run.rule('D3', 'homogeneous wrapper passes order single-cell lists and order (cyclic) / order-1 (open) two-cell lists, with the given state space and threshold')
    run.rule('D5', 'slim_mme / slim_mme_hom / ulam_2d / ulam_3d do not modify their arguments (state space, reaction tables, transition data) in place')
    run.rule('D4', 'Ulam: the boundary cores get 1 stored at the (source, target) positions of the unique index pairs, the remaining core accumulates counts with +=, addressed by '
             'the inverse unique indices; source on the row axis before the single transpose; result scaled by 1/simulations')
    run.trusted = ['NumPy transfer functions', 'elementary-operator algebra ttsa/opalg.py', 'thin SVD u diag(s) v reproduces the decomposed matrix (threshold 0)']
    orders = (2, 3, 4, 5) if tier == 'thorough' else (2, 3, 4)
    run.bounds = f'chain lengths {orders}, open and cyclic, distinct symbolic cell sizes and bond ranks, two reactions per cell / bond'

    def F(qual, rule, what, msg, line=None):
        fn = repo.fn(qual)
        return Finding('C12', rule, fn.where, what, msg, fn.file, line or fn.node.lineno)
    # results depend on the arguments only: no module-level caches in slim.py / ulam.py (a memoised decomposition keyed without one of the options returns stale cores)
    from .p_c06 import rule_f
    ff, nf = rule_f(repo, prop='C12')
    ff = [f for f in ff if f.where.split('::')[0] in (SLIM, ULAM)]
    for f in ff:
        f.rule = 'D1' if f.where.startswith(SLIM) else 'D4'
        run.add(f)
    run.oblige('D1', ('no module-level state in slim / ulam',), not ff)
    entry = f'{SLIM}.slim_mme'
    variants = ('alternating', 'no single-cell reactions in cell 1', 'no reaction on bond 0', 'no reaction on the last bond', 'full lists everywhere') if tier == 'thorough' else ('alternating',)
    variants = tuple(variants) + ('threshold 1e-10',)
    for d, cyclic, variant in itertools.product(orders, (False, True), variants):
        thr_ = 1e-10 if variant.startswith('threshold') else 0
        if thr_ and (cyclic or d > 2):
            continue
        scen = f'slim_mme(cells={d}, {"cyclic" if cyclic else "open"}' + (f', {variant}' if variant != 'alternating' else '') + ')'

        def body(sc):
            ss = [sc.atom(f'n{i}') for i in range(d)]
            nb = d if cyclic else d - 1
            if variant == 'full lists everywhere':
                scr = [[list(r) for r in SCR] for i in range(d)]
                tcr = [[list(r) for r in TCR] for i in range(nb)]
            else:
                scr = [[list(r) for r in SCR] if i % 2 == 0 else [list(SCR[0])] for i in range(d)]
                tcr = [[list(r) for r in TCR] if i % 2 == 0 else [list(TCR[1])] for i in range(nb)]
            if variant == 'no single-cell reactions in cell 1':
                scr[1] = []
            if variant == 'no reaction on bond 0':
                tcr[0] = []
            if variant == 'no reaction on the last bond':
                tcr[-1] = []
            import copy as _copy
            sc.inputs = (list(ss), _copy.deepcopy(scr), _copy.deepcopy(tcr))          # what the caller passed, for the comparison below
            sc.passed = (ss, scr, tcr)
            return sc.call(entry, ss, scr, tcr, threshold=thr_)
        for ch, sc, res, exc in l2.explore(repo, body, typed=False):
            l2rules.lost_update_obligations(run, 'C12', 'D2', repo, sc, scen, {SLIM})
            l2rules.relative_cut_obligations(run, 'C12', 'D1', repo, sc, scen, {SLIM}, expected=[thr_] if thr_ else None)
            if exc is not None:
                run.oblige('D1', (entry, scen), False)
                l2rules.raised_finding(run, 'C12', 'D1', repo, entry, scen, exc)
                continue
            if not l2rules.invariant_obligation(run, 'C12', 'D1', repo, sc, res, entry, scen, 'generator', chain=False):
                continue
            ss, scr, tcr = sc.inputs
            changed = [nm for nm, a_, b_ in zip(('state_space', 'single_cell_reactions', 'two_cell_reactions'), sc.passed, sc.inputs)
                       if len(a_) != len(b_) or any((len(x_) != len(y_)) if isinstance(x_, list) and isinstance(y_, list) else False for x_, y_ in zip(a_, b_))]
            run.oblige('D5', (entry, scen, 'arguments as passed'), not changed)
            if changed:
                fn_ = repo.fn(entry)
                run.add(Finding('C12', 'D5', fn_.where, 'arguments modified', f'{scen}: after the call the argument(s) {changed} no longer have the entries the caller passed', fn_.file, fn_.node.lineno))
            # bounds / disjointness
            for e in sc.events('store-bounds-unproved'):
                where, cons, f, ln = l2rules.ev_where(repo, e, {SLIM})
                run.oblige('D1', (where, cons, 'bounds'), False)
                run.add(Finding('C12', 'D1', where, cons, f'{scen}: {e["detail"]}', f, ln))
            for k, c in enumerate(res._attrs['cores']):
                stores, probs = blocks.analyse(c)
                run.oblige('D1', (entry, scen, f'core{k} blocks'), not probs, sample={'rule': 'D1', 'scenario': scen, 'core': k, 'shape': str(c.shape), 'blocks': [str(s['sel']) for s in stores]} if d == 3 and cyclic and k == 1 else None)
                for kind, s1, s2, why in probs:
                    node = (s2 or s1).get('node')
                    run.add(Finding('C12', 'D1', repo.fn(entry).where, norm_text(node, 130) if node is not None else 'block store', f'{scen}: core {k}: {why}: {s1["sel"]}' + (f' / {s2["sel"]}' if s2 else ''),
                                    repo.fn(entry).file, getattr(node, 'lineno', None)))
            # symbolic product
            terms, probs = chain_terms(res._attrs['cores'])
            uids = {}
            from . import mx
            for e in sc.events('svd'):
                # which two-cell super-core this decomposition factorises (directly, or through a QR of the matricisation / of its transpose)
                m = mx.origin_array(e['uid'])
                if m is None:
                    m = e['array']
                for b in range(d if cyclic else d - 1):
                    i, j = b, (b + 1) % d
                    if m.ndim == 4 and all(sz_eq(x, y) for x, y in zip(m.shape, (ss[i], ss[i], ss[j], ss[j]))):
                        uids[b] = e['uid']
                    elif m.ndim == 2 and sz_eq(m.shape[0], ss[i] * ss[i]) and sz_eq(m.shape[1], ss[j] * ss[j]):
                        uids[b] = e['uid']
            want = set()
            S = lambda i: ('S', str(ss[i]))
            for i in range(d):
                want.add(tuple('I' if k != i else S(i) for k in range(d)))
            for i in range(d - 1):
                if i in uids:
                    want.add(tuple(('L', uids[i]) if k == i else (('M', uids[i]) if k == i + 1 else 'I') for k in range(d)))
            if cyclic and (d - 1) in uids:
                want.add(tuple(('M', uids[d - 1]) if k == 0 else (('L', uids[d - 1]) if k == d - 1 else 'I') for k in range(d)))
            nb = d if cyclic else d - 1
            good = not probs and terms == want and len(uids) == nb
            run.oblige('D1', (entry, scen, 'product'), good, sample={'rule': 'D1', 'scenario': scen, 'terms': sorted(str(t) for t in terms)} if d == 3 and cyclic else None)
            if not good:
                msg = '; '.join(probs[:2]) if probs else (f'the product of the cores contains the terms {sorted(map(str, terms - want))[:3]} that are not in the definition and lacks {sorted(map(str, want - terms))[:3]}'
                                                           if len(uids) == nb else f'only {len(uids)} of {nb} two-cell super-cores were decomposed')
                run.add(F(entry, 'D1', 'symbolic product of the SLIM cores', f'{scen}: {msg}'))
            # D2 elementary terms
            for k, c in enumerate(res._attrs['cores']):
                svals = [st['value'] for st in blocks.effective_stores(c) if classify(st['value']) == S(k)]
                ok = len(svals) == 1 and opalg_of(svals[0]).same(expected_single(scr[k]))
                run.oblige('D2', (entry, scen, f'single{k}'), ok, sample={'rule': 'D2', 'cell': k, 'single_cell_term': repr(opalg_of(svals[0])) if svals else None} if d == 2 and not cyclic else None)
                if not ok:
                    run.add(F(entry, 'D2', 'single-cell term', f'{scen}: the single-cell matrix of cell {k} is {opalg_of(svals[0]) if svals else None}, the definition gives {expected_single(scr[k])}'))
            for b, uid in uids.items():
                e = [x for x in sc.events('svd') if x['uid'] == uid][0]
                from . import mx as _mx
                root = _mx.origin_array(uid)
                if root is None:
                    root = e['array']          # (through QR / RQ pre-factorisations and transpositions of the decomposed matrix)
                # (only through views that keep content and layout: a sum  zeros + terms  whose terms have no normal form must not be taken for its first operand)
                while isinstance(root, Arr) and opalg_of(root) is None and root.parents and (root.origin in ('copy', 'ascontiguousarray', 'asarray', 'astype') or root.tags.get('is_reshape')):
                    root = root.parents[0]          # (the matricisation of the super-core that is handed to the SVD, copies)
                got = opalg_of(root)
                want_op = expected_double(tcr[b])
                if got is None:
                    raise AnalysisError(f'{scen}: the super-core of bond {b} is assembled in a way the elementary-operator normal form does not follow ({root.origin})')
                ok = got.same(want_op)
                run.oblige('D2', (entry, scen, f'double{b}'), ok)
                if not ok:
                    run.add(F(entry, 'D2', 'two-cell term', f'{scen}: the super-core of bond {b} is {got}, the definition gives {want_op}'))
    # ------------------------------------------------------------------ D3 homogeneous wrapper
    entry = f'{SLIM}.slim_mme_hom'
    for d, cyclic in itertools.product((2, 3, 4), (False, True)):
        scen = f'slim_mme_hom(cells={d}, cyclic={cyclic})'
        captured = {}

        class _Result:
            """stands for the operator slim_mme returns; what the wrapper does with it afterwards is not followed"""
            touched = False
        placeholder = _Result()

        def fake(it, state_space, scr, tcr, threshold=0):
            captured.setdefault('all', []).append((state_space, scr, tcr, threshold))
            captured['args'] = (state_space, scr, tcr, threshold)
            return placeholder

        def body(sc):
            ss = [sc.atom('n')] * d
            sc.inputs = (ss,)
            return sc.call(entry, ss, [list(r) for r in SCR], [list(r) for r in TCR], cyclic=cyclic, threshold=0.125)
        def args_ok(a, ss_in):
            return a is not None and len(captured.get('all', [])) == 1 and list(a[0]) == list(ss_in) and len(a[1]) == d and all(x == SCR for x in a[1]) and \
                len(a[2]) == (d if cyclic else d - 1) and all(x == TCR for x in a[2]) and a[3] == 0.125
        try:
            paths = l2.explore(repo, body, typed=False, intercept={f'{SLIM}.slim_mme': fake})
        except AnalysisError:
            # the wrapper does something with the returned operator that is not followed: the call it made to slim_mme is still a verdict if it is wrong
            a = captured.get('args')
            if a is None or len(a[1]) == d and len(a[2]) == (d if cyclic else d - 1) and a[3] == 0.125:
                raise
            run.oblige('D3', (entry, scen), False)
            run.add(F(entry, 'D3', 'replication of the reaction lists', f'{scen}: slim_mme is called with {len(a[1])} single-cell lists and {len(a[2])} two-cell lists '
                      f'(expected {d} and {d if cyclic else d - 1}), threshold {a[3]}'))
            continue
        for ch, sc, res, exc in paths:
            a = captured.get('args')
            if exc is not None and a is None:
                run.oblige('D3', (entry, scen), False)
                l2rules.raised_finding(run, 'C12', 'D3', repo, entry, scen, exc)
                continue
            ok = a is not None and len(captured.get('all', [])) == 1 and list(a[0]) == list(sc.inputs[0]) and len(a[1]) == d and all(x == SCR for x in a[1]) and \
                len(a[2]) == (d if cyclic else d - 1) and all(x == TCR for x in a[2]) and a[3] == 0.125
            if ok and (exc is not None or res is not placeholder or _Result.touched):
                raise AnalysisError(f'{scen}: the operator returned by slim_mme is post-processed by the wrapper in a way the analysis does not follow')
            run.oblige('D3', (entry, scen), ok)
            if not ok:
                run.add(F(entry, 'D3', 'replication of the reaction lists', f'{scen}: slim_mme is called with {len(a[1]) if a else "?"} single-cell lists and {len(a[2]) if a else "?"} two-cell lists '
                          f'(expected {d} and {d if cyclic else d - 1}), threshold {a[3] if a else "?"}'))
    ulam_rule(run, repo, F)
    run.floor('obligations decided', run.obligations, 60)
    # the reaction tables, state-space list and transition data are not modified in place (a second model built from the same table must be the same model)
    l2rules.plain_args_frame(run, 'C12', 'D5', repo, {f'{SLIM}.slim_mme', f'{SLIM}.slim_mme_hom', f'{ULAM}.ulam_2d', f'{ULAM}.ulam_3d'})
    return run


def index_source(v):
    """where an integer index value comes from: ('transitions', row, offset) | ('unique', k, offset, rows) [k-th row of the unique pairs] |
    ('inverse', of, offset) | None.  Element-wise arithmetic commutes with taking an element, so  (A - 1)[i]  and  A[i] - 1  are the same source."""
    off = 0
    seen = 0
    pending_row = None          # a 1-D vector that is row r of a 2-D root
    while isinstance(v, Arr) and seen < 30:
        seen += 1
        ex = v.tags.get('expr')
        if ex and ex[0] in ('sub', 'add') and isinstance(ex[1][1], int) and isinstance(ex[1][0], Arr):
            off += -ex[1][1] if ex[0] == 'sub' else ex[1][1]
            v = ex[1][0]
            continue
        so = v.tags.get('sel_of')
        if so:
            root, sel = so
            if root.ndim == 1 and len(sel) == 1 and sel[0][0] in ('int', 'all'):
                if 'inverse_of' in root.tags:
                    return ('inverse', root.tags['inverse_of'], off)
                v = root                        # element (or all) of a vector: look at the vector
                continue
            if root.ndim == 2 and len(sel) == 2 and sel[0][0] == 'int' and sel[1][0] in ('int', 'all'):
                r = sel[0][1]
                if root.tags.get('role') == 'transitions':
                    return ('transitions', r, off)
                if 'unique_of' in root.tags:
                    src = root.tags['unique_of']
                    so2 = src.tags.get('sel_of')
                    rows = None
                    if so2 and so2[0].tags.get('role') == 'transitions' and so2[1][0][0] == 'idx' and isinstance(so2[1][0][1], tuple):
                        try:
                            rows = tuple(int(x) for x in so2[1][0][1])
                        except ValueError:
                            rows = None
                    return ('unique', r, off, rows)
        if 'inverse_of' in v.tags:
            return ('inverse', v.tags['inverse_of'], off)
        if v.ndim == 1 and v.parents and isinstance(v.parents[0], Arr) and v.parents[0].ndim == 1 and (v.tags.get('is_reshape') or v.origin in ('copy', 'astype', 'asarray', 'ravel', 'flatten')):
            v = v.parents[0]                    # a flattened / copied index vector is the same index vector
            continue
        break
    return None


def ulam_rule(run, repo, F):
    for fname, rows_first, rows_last, mid in (('ulam_2d', (0, 2), None, (1, 3)), ('ulam_3d', (0, 3), (2, 5), (1, 4))):
        entry = f'{ULAM}.{fname}'
        scen = fname

        def body(sc):
            T = sc.atom('T')
            nrow = 4 if fname == 'ulam_2d' else 6
            tr = Arr([nrow, T], None, 'int', None, {'role': 'transitions'}, 'transitions')
            states = [sc.atom(f's{k}') for k in range(nrow // 2)]
            sc.inputs = (tr, states)
            return sc.call(entry, tr, states, 100)
        try:
            paths_ = l2.explore(repo, body, typed=False)
        except AnalysisError as ae_:
            if getattr(ae_, 'scenario', None) is not None:
                l2rules.dropped_remainder_findings(run, 'C12', 'D4', repo, ae_.scenario, scen, {'data_driven.ulam'}, what='the transitions')
            raise
        for ch, sc, res, exc in paths_:
            l2rules.dropped_remainder_findings(run, 'C12', 'D4', repo, sc, scen, {'data_driven.ulam'}, what='the transitions')
            l2rules.lost_update_obligations(run, 'C12', 'D4', repo, sc, scen, {'data_driven.ulam'})
            if exc is not None:
                run.oblige('D4', (entry, scen), False)
                l2rules.raised_finding(run, 'C12', 'D4', repo, entry, scen, exc)
                continue
            if not l2rules.invariant_obligation(run, 'C12', 'D4', repo, sc, res, entry, scen, 'Ulam operator', chain=False):
                continue
            tr, states = sc.inputs
            bad = []
            cores = res._attrs['cores']
            # walk back through scalar multiple and transpose to the assembled cores
            roots, scaled, transposed = [], 0, 0
            for c in cores:
                v, path = c, []
                seen = 0
                while isinstance(v, Arr) and 'stores' not in v.tags and v.parents and seen < 20:
                    seen += 1
                    path.append(v)
                    if 'scale' in v.tags and v.tags['scale'][1] is not v:
                        v = v.tags['scale'][1]
                    else:
                        v = v.parents[0]
                roots.append((v, path))
            nscale = [p for r, path in roots for p in path if 'scale' in p.tags]
            coef = 1
            for r, path in roots:
                for p in path:
                    if 'scale' in p.tags:
                        coef = coef * p.tags['scale'][0]
                        break
            if abs(coef - 1 / 100) > 1e-12:
                bad.append(f'the operator is scaled by {coef}, expected 1/simulations')
            swapped = {}
            for k, (r, path) in enumerate(roots):
                # how often row and column axis were exchanged between the assembled array and the returned core
                ntr = 0
                for p in path:
                    if p.origin == 'transpose':
                        perm = tuple(p.tags.get('perm', ()))
                        if perm == (0, 2, 1, 3):
                            ntr += 1
                        elif perm != (0, 1, 2, 3):
                            raise AnalysisError(f'{scen}: core {k} goes through an axis permutation {perm} the Ulam rule does not follow')
                swapped[k] = ntr % 2 == 1
            nd = len(cores)
            for k, (r, path) in enumerate(roots):
                stores = r.tags.get('stores', [])
                if not stores:
                    if r.buf.writes:
                        raise AnalysisError(f'{scen}: core {k} is written through a view (reshape / slice) whose stores the block analysis does not map back to the core')
                    bad.append(f'core {k} is never written')
                    continue
                is_count = (k == 1)
                for st in stores:
                    if is_count and st['mode'] != 'add':
                        bad.append(f'the count core is written with "=" instead of "+=": repeated transitions are not accumulated')
                    if not is_count and st['mode'] != 'set':
                        bad.append(f'the indicator core {k} is accumulated instead of set')
                    if not (isinstance(st['value'], int) and st['value'] == 1):
                        bad.append(f'core {k}: the stored value is {st["value"]!r}, expected 1')
                    sel = st['sel']
                    srcs = [index_source(s[1]) if s[0] == 'int' and isinstance(s[1], Arr) else (('const', s[1]) if s[0] == 'int' else None) for s in sel]
                    # the returned operator is column-stochastic: in the RETURNED core the row axis is addressed by the target and the column axis by the source
                    # coordinate (the library assembles (source, target) and transposes once; assembling (target, source) directly is the same thing)
                    a_row, a_col = (srcs[2], srcs[1]) if swapped[k] else (srcs[1], srcs[2])
                    if is_count:
                        want_rows = mid
                        if not (a_col and a_col[0] == 'transitions' and a_col[1] == want_rows[0] and a_col[2] == -1 and a_row and a_row[0] == 'transitions' and a_row[1] == want_rows[1] and a_row[2] == -1):
                            bad.append(f'in the returned count core the row / column axes are addressed by {a_row}, {a_col} instead of (transitions[{want_rows[1]}] - 1, transitions[{want_rows[0]}] - 1) = (target, source)')
                        if not (srcs[0] and srcs[0][0] == 'inverse'):
                            bad.append('the left rank index of the count core is not the inverse index of the unique first-coordinate pairs')
                        if nd == 3 and not (srcs[3] and srcs[3][0] == 'inverse'):
                            bad.append('the right rank index of the count core is not the inverse index of the unique last-coordinate pairs')
                    else:
                        want_rows = rows_first if k == 0 else rows_last
                        ok = bool(a_row and a_col and a_row[0] == 'unique' and a_col[0] == 'unique' and a_row[2] == -1 and a_col[2] == -1 and a_row[3] and a_col[3])
                        if ok:
                            # unique pair row r of the selection transitions[[a, b], :] is transitions row (a, b)[r]
                            got_rows = (a_col[3][a_col[1]], a_row[3][a_row[1]])
                            ok = got_rows == tuple(want_rows)
                        if not ok:
                            bad.append(f'in the returned indicator core {k} the row / column axes are addressed by {a_row}, {a_col} instead of (target coordinate {want_rows[1]} - 1, source coordinate {want_rows[0]} - 1) of the unique pairs')
            run.oblige('D4', (entry, scen), not bad, sample={'rule': 'D4', 'function': fname, 'verdict': 'held' if not bad else 'VIOLATED'})
            if bad:
                run.add(F(entry, 'D4', 'Ulam counting cores', f'{scen}: ' + '; '.join(sorted(set(bad))[:3])))
