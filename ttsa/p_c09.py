"""C09  One-step ODE schemes reproduce their defining recurrences (DESIGN.md 2.3, 3/C09).

Each integrator / estimator is interpreted from its source over the TT algebra (ttsa.alg); the appended states are compared,
as normal forms, with the textbook recurrence.  The adaptive controller is decided by a small ordering analysis of its loop.
"""
import ast
import hashlib
import itertools
import math

import sympy as sp

from . import alg, own, p_c06
from .core import AnalysisError, Finding, Run, norm_text
from .interp import Interp, Raised, Fork, Frame

MOD = 'solvers.ode'


def mk_interp(repo, log, solver_calls):
    def i_eye(it, dims):
        return alg.OpT({0: sp.Integer(1)}, log)

    def i_progress(it, *a, **k):
        return 0.0

    def i_als(it, operator, initial_guess, right_hand_side, **kw):
        if not isinstance(operator, alg.OpT) or not isinstance(right_hand_side, alg.VecT) or not isinstance(initial_guess, alg.VecT):
            raise Raised('TypeError', 'sle.als called with wrong argument kinds')
        solver_calls.append(('als', operator, initial_guess, right_hand_side, dict(kw), it.where()))
        return alg.solve(operator, right_hand_side, log)

    def i_mals(it, operator, initial_guess, right_hand_side, **kw):
        if not isinstance(operator, alg.OpT) or not isinstance(right_hand_side, alg.VecT) or not isinstance(initial_guess, alg.VecT):
            raise Raised('TypeError', 'sle.mals called with wrong argument kinds')
        solver_calls.append(('mals', operator, initial_guess, right_hand_side, dict(kw), it.where()))
        return alg.solve(operator, right_hand_side, log)

    libs = {'numpy': alg.FakeNp, 'math': math, 'time': alg.FakeTime, 'typing': object(), 'scipy': object(), 'scipy.linalg': object()}
    return Interp(repo, libs=libs, intercept={'tensor_train.eye': i_eye, 'utils.progress': i_progress, 'solvers.sle.als': i_als, 'solvers.sle.mals': i_mals})


CHOICES = []          # outcomes assumed for the undecidable tests of the path being explored (see all_paths)


def call(repo, qual, log, solver_calls, *args, **kwargs):
    it = mk_interp(repo, log, solver_calls)
    it.choices = list(CHOICES)
    fn = repo.fn(qual)
    it.stack.append(Frame(fn, repo.modules[fn.mod], {}))
    return it.call_fn(fn, list(args), kwargs)          # Fork propagates to all_paths


def all_paths(body, *args):
    """run body(*args) once for every combination of outcomes of the tests the domain cannot decide (tolerance comparisons of symbolic step sizes, ...)"""
    global CHOICES
    stack, n = [[]], 0
    while stack:
        CHOICES = stack.pop()
        n += 1
        if n > 256:
            raise AnalysisError('more than 256 paths through an integrator')
        try:
            body(*args)
        except Fork:
            stack.append(CHOICES + [False])
            stack.append(CHOICES + [True])
    CHOICES = []


def fin(v, normalize):
    """truncation is the identity on the term; then optional normalisation"""
    return alg.normalized(v, normalize) if normalize > 0 else v


def hod_series(A, h, order, log):
    """sum_{k=1}^{order/2} 2 h^(2k-1)/(2k-1)! A^(2k-1)"""
    p = {}
    for k in range(1, order // 2 + 1):
        p[2 * k - 1] = sp.Rational(2, math.factorial(2 * k - 1)) * h ** (2 * k - 1)
    return alg.OpT(p, log)


def describe(v):
    return repr(v) if isinstance(v, alg.VecT) else str(v)


def check(repo, tier):
    run = Run('C09', tier, repo, 'Each one-step integrator and error estimator is interpreted from its source over a free TT algebra (operators = '
              'polynomials in A, vectors = linear combinations of A^k atoms, Solve/Norm uninterpreted, truncation = identity); the trajectory is '
              'compared as a normal form with the defining recurrence on every solver/normalisation branch.')
    run.rule('D1', 'appended state i+1 equals the scheme applied to state i: explicit Euler N((I+h_i A)x_i); implicit Euler N(Solve(I-h_i A, x_i)); '
             'trapezoidal N(Solve(I-h_i/2 A, (I+h_i/2 A)x_i)); HOD N(x_{i-1} + sum_k 2h^(2k-1)/(2k-1)! A^(2k-1) x_i) with the documented start-up step')
    run.rule('D1b', 'the inner ALS/MALS call receives the system of the scheme and the caller\'s micro-solver / repeats / threshold / max_rank options')
    run.rule('D2', 'errors_expl_euler / errors_impl_euler / errors_trapezoidal return the relative defect of each step in the scheme\'s own equation')
    run.rule('D3', 'trajectory: starts with the initial value (by identity), one new distinct object per step, unit norm_p last when normalize=p')
    run.rule('D4', 'operator, initial value and initial guess are not modified (algebra objects record in-place calls; Layer-1 frame rule on the same functions)')
    run.rule('D5', 'adaptive_step_size: a time point is appended only after time <- min(time+step, time_end) under the guard time < time_end and '
             'step > step_min: accepted times strictly increase and never exceed time_end (ordering analysis of the loop body)')
    run.trusted = ['textbook definitions of the schemes written in this checker', 'sympy polynomial arithmetic', 'sle.als/mals denote Solve(operator, rhs) (decided separately under C07)']
    run.bounds = '3 steps with distinct symbolic step sizes; normalize in {0,1,2}; tt_solver in {als,mals}; HOD orders {2,3,4,6,8}, with and without previous_value'
    h = [sp.Symbol(f'h{i}', positive=True) for i in range(3)]
    normals = (0, 1, 2)

    def new_world():
        log = alg.Log()
        A = alg.OpT({1: sp.Integer(1)}, log)
        x0 = alg.VecT.atom('x0', log)
        g = alg.VecT.atom('guess', log)
        return log, A, x0, g

    def finding(fname, what, msg):
        fn = repo.fn(f'{MOD}.{fname}')
        return Finding('C09', what.split(' ')[0], fn.where, what, msg, fn.file, fn.node.lineno)

    def traj_checks(fname, sol, x0, inputs, nsteps, scen):
        ok = isinstance(sol, list) and len(sol) == nsteps + 1
        run.oblige('D3', (fname, scen, 'length'), ok)
        if not ok:
            run.add(finding(fname, 'D3 trajectory length', f'{scen}: returned {len(sol) if isinstance(sol, list) else type(sol).__name__} states for {nsteps} steps (expected {nsteps + 1})'))
            return False
        ok = sol[0] is x0
        run.oblige('D3', (fname, scen, 'head'), ok)
        if not ok:
            run.add(finding(fname, 'D3 trajectory head', f'{scen}: the first state is not the initial value'))
        ids = [id(s) for s in sol]
        ok = len(set(ids)) == len(ids) and not any(s is i for s in sol[1:] for i in inputs)
        run.oblige('D3', (fname, scen, 'distinct'), ok)
        if not ok:
            run.add(finding(fname, 'D3 distinct states', f'{scen}: two entries of the returned trajectory are the same object (or an input handed back)'))
        ok = all(not i.touched for i in inputs)
        run.oblige('D4', (fname, scen), ok)
        if not ok:
            run.add(finding(fname, 'D4 inputs modified', f'{scen}: an input was modified in place: ' + ', '.join(str(i.touched) for i in inputs if i.touched)))
        return True

    # ---------------------------------------------------------------- explicit Euler
    for nz in normals:
        def _scenario(nz):
            log, A, x0, g = new_world()
            calls = []
            scen = f'normalize={nz}'
            try:
                sol = call(repo, f'{MOD}.explicit_euler', log, calls, A, x0, list(h), normalize=nz, progress=False)
            except Raised as r:
                raise AnalysisError(f'explicit_euler raised {r} at {r.where}')
            if traj_checks('explicit_euler', sol, x0, [A, x0], 3, scen):
                I = alg.OpT({0: sp.Integer(1)}, log)
                for i in range(3):
                    want = fin((I + h[i] * A).dot(sol[i]), nz)
                    ok = want.same(sol[i + 1])
                    run.oblige('D1', ('explicit_euler', scen, i), ok, sample={'scheme': 'explicit_euler', 'scenario': scen, 'step': i, 'got': describe(sol[i + 1])[:200], 'verdict': 'held' if ok else 'VIOLATED'} if i == 1 and nz == 0 else None)
                    if not ok:
                        run.add(finding('explicit_euler', 'D1 recurrence', f'{scen}, step {i}: appended state is {describe(sol[i + 1])[:240]} but (I + h_i A) x_i (normalised if requested) is {describe(want)[:240]}'))
        all_paths(_scenario, nz)
    # ---------------------------------------------------------------- implicit Euler / trapezoidal
    for fname in ('implicit_euler', 'trapezoidal_rule'):
        for nz, tts in itertools.product(normals, ('als', 'mals')):
            def _scenario(nz, tts):
                log, A, x0, g = new_world()
                calls = []
                scen = f'tt_solver={tts}, normalize={nz}'
                thr, mr = sp.Symbol('thr', positive=True), sp.Symbol('maxrank', positive=True)
                try:
                    sol = call(repo, f'{MOD}.{fname}', log, calls, A, x0, g, list(h), repeats=7, tt_solver=tts, threshold=thr, max_rank=mr, micro_solver='lu', normalize=nz, progress=False)
                except Raised as r:
                    raise AnalysisError(f'{fname} raised {r} at {r.where}')
                if not traj_checks(fname, sol, x0, [A, x0, g], 3, scen):
                    return
                I = alg.OpT({0: sp.Integer(1)}, log)
                for i in range(3):
                    if fname == 'implicit_euler':
                        op, rhs = I - h[i] * A, sol[i]
                    else:
                        op, rhs = I - sp.Rational(1, 2) * h[i] * A, (I + sp.Rational(1, 2) * h[i] * A).dot(sol[i])
                    want = fin(alg.solve(op, rhs, log), nz)
                    ok = want.same(sol[i + 1])
                    run.oblige('D1', (fname, scen, i), ok, sample={'scheme': fname, 'scenario': scen, 'step': i, 'got': describe(sol[i + 1])[:200], 'verdict': 'held' if ok else 'VIOLATED'} if i == 1 and nz == 2 and tts == 'als' else None)
                    if not ok:
                        run.add(finding(fname, 'D1 recurrence', f'{scen}, step {i}: appended state is {describe(sol[i + 1])[:240]} but the scheme gives {describe(want)[:240]}'))
                # D1b: inner solver options
                ok = len(calls) == 3 and all(c[0] == tts for c in calls)
                for c in calls:
                    kw = c[4]
                    ok = ok and kw.get('solver') == 'lu' and kw.get('repeats') == 7
                    if c[0] == 'mals':
                        ok = ok and kw.get('threshold') is thr and kw.get('max_rank') is mr
                run.oblige('D1b', (fname, scen), ok)
                if not ok:
                    run.add(finding(fname, 'D1b inner solver', f'{scen}: inner solver calls {[(c[0], {k: str(v) for k, v in c[4].items()}) for c in calls]} do not carry the '
                                    f'requested solver/options (tt_solver={tts}, micro_solver=lu, repeats=7, threshold, max_rank)'))
                # the guess of step i+1 is the previous solver result (warm start); the user's guess is used for step 0 only
                okg = bool(calls) and calls[0][2] is g
                run.oblige('D1b', (fname, scen, 'guess'), okg)
                if not okg:
                    run.add(finding(fname, 'D1b initial guess', f'{scen}: the first inner solve does not start from the supplied initial guess'))
            all_paths(_scenario, nz, tts)
    # ---------------------------------------------------------------- HOD
    hh = sp.Symbol('h', positive=True)
    orders = (2, 3, 4, 6, 8) if tier == 'thorough' else (2, 4, 6)
    for order, nz, with_prev in itertools.product(orders, normals, (False, True)):
        def _scenario(order, nz, with_prev):
            log, A, x0, g = new_world()
            prev = alg.VecT.atom('xprev', log) if with_prev else None
            calls = []
            scen = f'order={order}, normalize={nz}, previous_value={"given" if with_prev else "None"}'
            try:
                sol = call(repo, f'{MOD}.hod', log, calls, A, x0, hh, 3, order=order, previous_value=prev, normalize=nz, progress=False)
            except Raised as r:
                raise AnalysisError(f'hod raised {r} at {r.where}')
            inputs = [A, x0] + ([prev] if with_prev else [])
            if not traj_checks('hod', sol, x0, inputs, 3, scen):
                return
            eff = order + (order % 2)
            I = alg.OpT({0: sp.Integer(1)}, log)
            series = hod_series(A, hh, eff, log)
            if with_prev:
                xm1 = prev
            else:
                half = hod_series(A, hh / 2, eff, log)
                xm1 = sol[0] - half.dot((I - sp.Rational(1, 2) * hh * A).dot(sol[0]))
            xm1 = fin(xm1, nz)
            states = [xm1] + list(sol)
            for i in range(3):
                want = fin(states[i] + series.dot(sol[i]), nz)
                ok = want.same(sol[i + 1])
                run.oblige('D1', ('hod', scen, i), ok, sample={'scheme': 'hod', 'scenario': scen, 'step': i, 'got': describe(sol[i + 1])[:260], 'verdict': 'held' if ok else 'VIOLATED'} if i == 1 and nz == 0 and order == 4 and with_prev else None)
                if not ok:
                    run.add(finding('hod', 'D1 recurrence', f'{scen}, step {i}: appended state is {describe(sol[i + 1])[:260]} but x_(i-1) + sum_k 2h^(2k-1)/(2k-1)! A^(2k-1) x_i is {describe(want)[:260]}'))
        all_paths(_scenario, order, nz, with_prev)
    # ---------------------------------------------------------------- estimators
    for fname, build in (('errors_expl_euler', lambda I, A, s, i: (s[i + 1] - (I + h[i] * A).dot(s[i]), s[i])),
                         ('errors_impl_euler', lambda I, A, s, i: ((I - h[i] * A).dot(s[i + 1]) - s[i], s[i])),
                         ('errors_trapezoidal', lambda I, A, s, i: ((I - sp.Rational(1, 2) * h[i] * A).dot(s[i + 1]) - (I + sp.Rational(1, 2) * h[i] * A).dot(s[i]),
                                                                    (I + sp.Rational(1, 2) * h[i] * A).dot(s[i])))):
        log, A, x0, g = new_world()
        sols = [alg.VecT.atom(f'y{i}', log) for i in range(4)]
        try:
            errs = call(repo, f'{MOD}.{fname}', log, [], A, list(sols), list(h))
        except Raised as r:
            raise AnalysisError(f'{fname} raised {r} at {r.where}')
        I = alg.OpT({0: sp.Integer(1)}, log)
        ok = isinstance(errs, list) and len(errs) == 3
        run.oblige('D2', (fname, 'length'), ok)
        if not ok:
            run.add(finding(fname, 'D2 estimator length', f'returned {len(errs) if isinstance(errs, list) else errs} values for 3 steps'))
            continue
        for i in range(3):
            num, den = build(I, A, sols, i)
            want = num.norm() / den.norm()
            alt = (-1 * num).norm() / den.norm()      # ||-v|| == ||v||
            ok = sp.simplify(errs[i] - want) == 0 or sp.simplify(errs[i] - alt) == 0
            run.oblige('D2', (fname, i), ok, sample={'estimator': fname, 'step': i, 'verdict': 'held' if ok else 'VIOLATED'} if i == 0 else None)
            if not ok:
                run.add(finding(fname, 'D2 defect formula', f'step {i}: returned {errs[i]} but the relative defect of the scheme is {want}'))
        ok = all(not s.touched for s in sols) and not A.touched
        run.oblige('D4', (fname,), ok)
        if not ok:
            run.add(finding(fname, 'D4 inputs modified', 'an input of the estimator was modified in place'))
    # ---------------------------------------------------------------- D4 through Layer 1 (all paths)
    an = own.analyse(repo)
    quals = {f'{MOD}.{n}' for n in ('explicit_euler', 'implicit_euler', 'trapezoidal_rule', 'hod', 'errors_expl_euler', 'errors_impl_euler', 'errors_trapezoidal', 'adaptive_step_size')}
    ff, obl = p_c06.frame_findings(repo, an, prop='C09', only=quals)
    for o in obl:
        run.oblige('D4', ('layer1', o['function'], o['tt_argument'], o['rule']), o['verdict'] == 'held')
    for f in ff:
        run.add(f)
    # ---------------------------------------------------------------- D5 adaptive controller
    adaptive_rule(run, repo)
    controls(run)
    run.analysed = {'functions': sorted(quals), 'scenarios': run.obligations}
    run.floor('obligations decided', run.obligations, 100)
    return run


# ------------------------------------------------------------------------------------------------ adaptive step size (ordering analysis)
class Ord:
    """abstract value of the time variable relative to its value at the loop head (t0) and to the end time:
    gt: provably > t0 ; le_end: provably <= time_end"""

    def __init__(self, gt=False, le_end=False, ge=False):
        self.gt, self.le_end, self.ge = gt, le_end, ge or gt


def adaptive_rule(run, repo):
    fn = repo.fn(f'{MOD}.adaptive_step_size')
    loops = [n for n in fn.node.body if isinstance(n, ast.While)]
    if len(loops) != 1:
        raise AnalysisError('adaptive_step_size: expected exactly one top-level while loop')
    loop = loops[0]
    # returned time list and its variable
    rets = [n for n in ast.walk(fn.node) if isinstance(n, ast.Return) and n.value is not None]
    names = set()
    for r in rets:
        names |= own.names_in(r.value)
    appends = [c for c in ast.walk(loop) if isinstance(c, ast.Call) and isinstance(c.func, ast.Attribute) and c.func.attr == 'append'
               and isinstance(c.func.value, ast.Name) and c.func.value.id in names and len(c.args) == 1 and isinstance(c.args[0], ast.Name)
               and not isinstance(c.args[0], ast.Call)]
    time_appends = []
    for c in appends:
        v = c.args[0].id
        # the appended scalar variable that is also compared in the loop test
        if v in own.names_in(loop.test):
            time_appends.append(c)
    if not time_appends:
        raise AnalysisError('adaptive_step_size: no append of the loop-controlled time variable to a returned list found')
    tvar = time_appends[0].args[0].id
    # guard facts
    conj = []

    def flat(e):
        if isinstance(e, ast.BoolOp) and isinstance(e.op, ast.And):
            for v in e.values:
                flat(v)
        else:
            conj.append(e)
    flat(loop.test)
    endvar, stepvar, minvar = None, None, None
    for c in conj:
        if isinstance(c, ast.Compare) and len(c.ops) == 1 and isinstance(c.left, ast.Name) and isinstance(c.comparators[0], ast.Name):
            l, r, op = c.left.id, c.comparators[0].id, c.ops[0]
            if l == tvar and isinstance(op, ast.Lt):
                endvar = r
            if r == tvar and isinstance(op, ast.Gt):
                endvar = l
    ok_guard = endvar is not None
    run.oblige('D5', ('guard time < time_end',), ok_guard)
    if not ok_guard:
        run.add(Finding('C09', 'D5', fn.where, 'loop guard', f'the loop guard {norm_text(loop.test)} does not establish {tvar} < end time (strictly)', fn.file, loop.lineno))
        return
    # positive step: a guard conjunct  step > step_min  where step is the variable added to time
    pos_steps = set()
    for c in conj:
        if isinstance(c, ast.Compare) and len(c.ops) == 1 and isinstance(c.left, ast.Name) and isinstance(c.ops[0], ast.Gt):
            pos_steps.add(c.left.id)
        if isinstance(c, ast.Compare) and len(c.ops) == 1 and isinstance(c.comparators[0], ast.Name) and isinstance(c.ops[0], ast.Lt):
            pos_steps.add(c.comparators[0].id)

    # abstract interpretation of the loop body for tvar
    def ev(e, env):
        if isinstance(e, ast.Name):
            if e.id == tvar:
                return env['t']
            if e.id == endvar:
                return Ord(gt=True, le_end=True)            # guard: t0 < end
            return None
        if isinstance(e, ast.BinOp) and isinstance(e.op, ast.Add):
            a, b = e.left, e.right
            for x, y in ((a, b), (b, a)):
                vx = ev(x, env)
                if vx is not None and isinstance(y, ast.Name) and y.id in env['pos']:
                    return Ord(gt=vx.ge, le_end=False)      # t + positive step
            return None
        if isinstance(e, ast.Call):
            f = norm_text(e.func)
            args = e.args
            if len(args) == 1 and isinstance(args[0], (ast.List, ast.Tuple)):
                args = args[0].elts
            if f in ('np.min', 'np.amin', 'min', 'np.minimum', 'numpy.min') and len(args) >= 2:
                vs = [ev(a, env) for a in args]
                if any(v is None for v in vs):
                    known = [v for v in vs if v is not None]
                    return Ord(gt=False, le_end=any(v.le_end for v in known)) if known else None
                return Ord(gt=all(v.gt for v in vs), le_end=any(v.le_end for v in vs), ge=all(v.ge for v in vs))
            if f in ('np.max', 'np.amax', 'max', 'np.maximum') and len(args) >= 2:
                vs = [ev(a, env) for a in args]
                if any(v is None for v in vs):
                    return Ord(gt=any(v.gt for v in vs if v is not None))
                return Ord(gt=any(v.gt for v in vs), le_end=all(v.le_end for v in vs))
            if f in ('float', 'np.float64') and len(args) == 1:
                return ev(args[0], env)
        return None

    results = []

    def walk(body, env):
        """returns env after the block; records the state at every append of tvar"""
        for st in body:
            if isinstance(st, ast.Assign) and len(st.targets) == 1 and isinstance(st.targets[0], ast.Name):
                n = st.targets[0].id
                if n == tvar:
                    v = ev(st.value, env)
                    env = dict(env, t=v if v is not None else Ord(), assigned=True)
                elif n in env['pos']:
                    env = dict(env, pos=env['pos'] - {n})       # the step is changed before it is used: positivity no longer known
            elif isinstance(st, ast.AugAssign) and isinstance(st.target, ast.Name):
                n = st.target.id
                if n == tvar:
                    v = ev(ast.BinOp(left=ast.Name(id=tvar, ctx=ast.Load()), op=st.op, right=st.value), env) if isinstance(st.op, ast.Add) else None
                    env = dict(env, t=v if v is not None else Ord(), assigned=True)
                elif n in env['pos']:
                    env = dict(env, pos=env['pos'] - {n})
            elif isinstance(st, ast.If):
                e1 = walk(st.body, dict(env))
                e2 = walk(st.orelse, dict(env))
                t = Ord(gt=e1['t'].gt and e2['t'].gt, le_end=e1['t'].le_end and e2['t'].le_end, ge=e1['t'].ge and e2['t'].ge)
                env = dict(env, t=t, pos=e1['pos'] & e2['pos'], assigned=e1['assigned'] or e2['assigned'])
            elif isinstance(st, (ast.For, ast.While)):
                env = walk(st.body, dict(env))
            for c in ast.walk(st) if not isinstance(st, (ast.If, ast.For, ast.While)) else []:
                if c in time_appends:
                    results.append((c, env['t'], env['assigned']))
        return env

    walk(loop.body, {'t': Ord(ge=True), 'pos': set(pos_steps), 'assigned': False})
    seen = {id(r[0]) for r in results}
    for c in time_appends:
        if id(c) not in seen:
            raise AnalysisError('adaptive_step_size: an append of the time variable sits in a construct the ordering analysis does not walk')
    for c, t, assigned in results:
        ok = t.gt and t.le_end
        run.oblige('D5', ('append', norm_text(c)), ok, sample={'rule': 'D5', 'append': norm_text(c), 'time_strictly_greater_than_previous': t.gt, 'time_le_end': t.le_end})
        if not ok:
            why = []
            if not t.gt:
                why.append('is not provably greater than the previously accepted time (step not provably positive, or time not advanced before the append)')
            if not t.le_end:
                why.append(f'is not provably <= {endvar}')
            run.add(Finding('C09', 'D5', fn.where, f'{norm_text(c)}', f'the appended time point ' + ' and '.join(why), fn.file, c.lineno))
    # one state per accepted time: the state list is appended in the same block as the time list
    blocks = []
    for n in ast.walk(loop):
        for fld in ('body', 'orelse'):
            b = getattr(n, fld, None)
            if isinstance(b, list) and any(any(c is x for x in ast.walk(s)) for s in b for c in time_appends):
                blocks.append(b)
    inner = min(blocks, key=len) if blocks else []
    state_app = [c for s in inner for c in ast.walk(s) if isinstance(c, ast.Call) and isinstance(c.func, ast.Attribute) and c.func.attr == 'append'
                 and isinstance(c.func.value, ast.Name) and c.func.value.id in names and c not in time_appends]
    all_state_app = [c for c in ast.walk(loop) if isinstance(c, ast.Call) and isinstance(c.func, ast.Attribute) and c.func.attr == 'append'
                     and isinstance(c.func.value, ast.Name) and c.func.value.id in names and c not in time_appends]
    ok = len(state_app) == 1 and len(all_state_app) == 1
    run.oblige('D5', ('one state per accepted time',), ok)
    if not ok:
        run.add(Finding('C09', 'D5', fn.where, 'state/time pairing', 'the state list and the time list are not appended together exactly once per accepted step', fn.file, loop.lineno))


def controls(run):
    log = alg.Log()
    A = alg.OpT({1: sp.Integer(1)}, log)
    I = alg.OpT({0: sp.Integer(1)}, log)
    x = alg.VecT.atom('x0', log)
    hh = sp.Symbol('h', positive=True)
    good = (I + hh * A).dot(x)
    bad = (I - hh * A).dot(x)
    run.control('D1 normal forms: (I + hA)x vs (I - hA)x differ', not good.same(bad))
    run.control('D1 normal forms: 0.5*h float literal equals h/2', ((I + 0.5 * hh * A).dot(x)).same((I + sp.Rational(1, 2) * hh * A).dot(x)))
    run.control('D1 normal forms: Solve is keyed by operator and right-hand side', not alg.solve(I - hh * A, x, log).same(alg.solve(I - hh / 2 * A, x, log)))
