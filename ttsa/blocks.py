"""Block-store analysis (DESIGN.md 2.2 'block stores'): arrays allocated by np.zeros and filled by subscript stores.
Every store is logged with symbolic index ranges; rules: in bounds, pairwise disjoint or identical-and-additive."""
from . import arr as A
from .arr import Arr
from .interp import UnknownTruth
from .shape import Size, simp, sz_eq


def region(root, sel):
    """per axis (lo, hi) half-open, symbolic; None for unknown (fancy index)"""
    out = []
    for n, s in zip(root.shape, sel):
        if s[0] == 'all':
            out.append((0, n))
        elif s[0] == 'int':
            i = s[1]
            if isinstance(i, Arr):
                out.append(None)
            elif isinstance(i, (A.SymIdx, A.SymOff)):
                out.append(('sym', i))
            else:
                out.append((i, simp(Size.of(i, A.CTX.atoms) + 1)))
        elif s[0] == 'range':
            out.append((s[1], s[2]))
        else:
            out.append(None)
    return out


def provably_le(a, b):
    try:
        return bool(Size.of(a, A.CTX.atoms) <= Size.of(b, A.CTX.atoms))
    except (UnknownTruth, TypeError):
        try:
            return A.CTX.atoms.le(Size.of(a, A.CTX.atoms), Size.of(b, A.CTX.atoms))
        except TypeError:
            return False


def relation(root, r1, r2):
    """'disjoint' | 'identical' | 'overlap?'"""
    ident = True
    for x, y in zip(r1, r2):
        if x is None or y is None:
            ident = False
            continue
        if x[0] == 'sym' or y[0] == 'sym':
            # a loop index j in [lo, hi) plus an offset covers the range [lo + off, hi + off)
            def rng(z):
                if z[0] != 'sym':
                    return z
                base = z[1].base if isinstance(z[1], A.SymOff) else z[1]
                off = z[1].off if isinstance(z[1], A.SymOff) else 0
                return (simp(Size.of(base.lo, A.CTX.atoms) + off), simp(Size.of(base.hi, A.CTX.atoms) + off))
            rx, ry = rng(x), rng(y)
            if provably_le(rx[1], ry[0]) or provably_le(ry[1], rx[0]):
                return 'disjoint'
            if x[0] == 'sym' and y[0] == 'sym':
                if x[1] == y[1]:
                    continue
                # j and j+c with c != 0 are different positions
                bx, by = (x[1].base if isinstance(x[1], A.SymOff) else x[1]), (y[1].base if isinstance(y[1], A.SymOff) else y[1])
                ox, oy = (x[1].off if isinstance(x[1], A.SymOff) else 0), (y[1].off if isinstance(y[1], A.SymOff) else 0)
                if bx is by and not sz_eq(ox, oy):
                    return 'disjoint'
            ident = False
            continue
        if provably_le(x[1], y[0]) or provably_le(y[1], x[0]):
            return 'disjoint'
        if not (sz_eq(x[0], y[0]) and sz_eq(x[1], y[1])):
            ident = False
    return 'identical' if ident else 'overlap?'


def in_bounds(root, reg):
    probs = []
    for ax, (n, r) in enumerate(zip(root.shape, reg)):
        if r is None or r[0] == 'sym':
            continue
        lo, hi = r
        if not provably_le(0, lo) or not provably_le(hi, n):
            probs.append(f'axis {ax}: [{lo}:{hi}) is not provably inside [0:{n})')
    return probs


def effective_stores(a):
    """the store log of an assembled array as seen through `a`: `a` itself, or a transposed view of the assembled array (selections permuted with the axes)"""
    if not isinstance(a, Arr):
        return []
    if a.tags.get('stores'):
        return a.tags['stores']
    v, perms, seen = a, [], 0
    while isinstance(v, Arr) and not v.tags.get('stores') and v.parents and seen < 6:
        seen += 1
        if v.origin == 'transpose' and 'perm' in v.tags:
            perms.append(v.tags['perm'])
            v = v.parents[0]
        elif (not v.tags.get('is_reshape') and v.origin in ('copy', 'astype', 'ascontiguousarray')) or \
                (v.tags.get('is_reshape') and len(v.shape) == len(v.parents[0].shape) and all(sz_eq(x, y) for x, y in zip(v.shape, v.parents[0].shape))):
            v = v.parents[0]
        elif v.tags.get('is_reshape') and [x for x in v.shape if not A.is_one(x)] and \
                len([x for x in v.shape if not A.is_one(x)]) == len([x for x in v.parents[0].shape if not A.is_one(x)]) and \
                all(sz_eq(x, y) for x, y in zip([x for x in v.shape if not A.is_one(x)], [x for x in v.parents[0].shape if not A.is_one(x)])) and not perms:
            # a reshape that only inserts / removes unit axes
            perms.append(('units', tuple(v.shape), tuple(v.parents[0].shape)))
            v = v.parents[0]
        else:
            return []
    if not (isinstance(v, Arr) and v.tags.get('stores')):
        return []
    out = []
    for st in v.tags['stores']:
        sel = list(st['sel'])
        bad = False
        for perm in reversed(perms):
            if perm and perm[0] == 'units':
                _, new_shape, old_shape = perm
                it = iter([s_ for s_, n_ in zip(sel, old_shape) if not A.is_one(n_)])
                dropped = [s_ for s_, n_ in zip(sel, old_shape) if A.is_one(n_)]
                if any(s_[0] not in ('all', 'int') for s_ in dropped):
                    bad = True
                    break
                sel = [('int', 0) if A.is_one(n_) else next(it) for n_ in new_shape]
            else:
                sel = [sel[p_] for p_ in perm]
        if bad:
            return []
        rec = dict(st)
        rec['sel'] = tuple(sel)
        rec['through_transpose'] = bool(perms)
        out.append(rec)
    return out


def analyse(root):
    """returns (records, problems) for one block-assembled array"""
    stores = effective_stores(root)
    probs = []
    regs = [region(root, st['sel']) for st in stores]
    for st, rg in zip(stores, regs):
        for p in in_bounds(root, rg):
            probs.append(('bounds', st, None, p))
    for i in range(len(stores)):
        for j in range(i + 1, len(stores)):
            rel = relation(root, regs[i], regs[j])
            if rel == 'disjoint':
                continue
            additive = stores[j]['mode'] in ('add', 'sub') and True
            if rel == 'identical':
                if additive or stores[j]['value'] is stores[i]['value']:
                    continue
                probs.append(('overwrite', stores[i], stores[j], 'the second store writes the same block with "=": the first block is lost'))
            else:
                if additive:
                    continue
                probs.append(('overlap', stores[i], stores[j], 'the two blocks are not provably disjoint'))
    return stores, probs
